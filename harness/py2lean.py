"""
py2lean — a translator from a small, statically typed subset of Python to Lean 4.

It reads the *current* source text of the anchored functions in /repo (never an imported snapshot), and
emits `lean/GeoVerif/Gen/Src*.lean`: one Lean definition per (method, argument-type) instance.  Those
definitions are what the code *says now*; `Props/*Src.lean` proves them equal to the hand-written models the
property theorems are stated over, so the theorems hold of the translated source.  When the source is
rewritten the translation changes with it and the equalities are re-checked by Lean on the next run.

Subset (decision logic): `if`/`return`/`raise`, local (tuple) assignment, comparisons incl. chains and
`in` / `not in`, `and` / `or` / `not`, conditional expressions, `min` / `max`, `+` / `-`, attribute reads,
properties, method calls resolved by the static type of the receiver, constructor calls, `isinstance`
and `is None` tests decided statically from the declared type of the instance (one instance per member of a
`Union`), truthiness of `Optional[...]`, early-exit `for` loops and `any(...)` / `all(...)` over a list.

What is *not* translated is either rejected (`Unsupported`: the source tie is reported broken and the check
escalates its search) or, for a named helper whose meaning is fixed by the harness abstraction (for instance
`_default_to_zulu`: datetimes are exchanged as UTC instants), *pinned*: the helper's AST must be the one recorded
in `PINS`, otherwise the tie is broken as well.
"""
import ast
import hashlib
import os
import textwrap


class Unsupported(Exception):
    pass


def _src_of(path):
    with open(path, encoding='utf-8') as f:
        return f.read()


def norm_dump(node):
    """AST dump of a function without its docstring (comments and layout are not part of an AST)"""
    node = ast.parse(ast.unparse(node)).body[0]
    if (node.body and isinstance(node.body[0], ast.Expr) and isinstance(getattr(node.body[0], 'value', None), ast.Constant)
            and isinstance(node.body[0].value.value, str)):
        node.body = node.body[1:] or [ast.Pass()]
    return ast.dump(node, annotate_fields=False)


def pin_of(node):
    return hashlib.sha1(norm_dump(node).encode()).hexdigest()[:16]


class LetName(str):
    """name of a plain `let` among the pending bindings (an object update threaded through the frame; not a raising call)"""


class Source:
    """functions and methods of one source file, by qualified name"""

    def __init__(self, path):
        self.path = path
        self.tree = ast.parse(_src_of(path))
        self.defs = {}
        for n in self.tree.body:
            if isinstance(n, ast.FunctionDef):
                self.defs[n.name] = n
            elif isinstance(n, ast.ClassDef):
                for m in n.body:
                    if isinstance(m, ast.FunctionDef):
                        self.defs[f'{n.name}.{m.name}'] = m
        for outer, fn in list(self.defs.items()):
            # functions defined directly in the body of a function / method: 'outer.inner' (closure-free ones translate)
            for m in fn.body:
                if isinstance(m, ast.FunctionDef):
                    self.defs.setdefault(f'{outer}.{m.name}', m)

    def get(self, qual):
        if qual not in self.defs:
            raise Unsupported(f'{os.path.basename(self.path)}: `{qual}` not found')
        return self.defs[qual]

    def is_property(self, qual):
        f = self.defs.get(qual)
        return bool(f) and any(isinstance(d, ast.Name) and d.id in ('property', 'cached_property') or
                               isinstance(d, ast.Attribute) and d.attr in ('cached_property',) for d in f.decorator_list)

    def decorators(self, qual):
        return [ast.unparse(d) for d in self.get(qual).decorator_list]


class Sources(Source):
    """the functions and methods of several source files taken together (a unit whose instances live in more than one
    file: a property defined in a base class of `_base.py` and overridden in `structures.py`); a qualified name must be
    defined in one file only"""

    def __init__(self, paths):
        self.path = paths[0]
        self.paths = list(paths)
        self.defs = {}
        for p in paths:
            for q, n in Source(p).defs.items():
                if q in self.defs:
                    raise Unsupported(f'`{q}` is defined in more than one of {[os.path.basename(x) for x in paths]}')
                self.defs[q] = n


class SourceSet(Source):
    """several source files read as one *with their class hierarchy* (SrcWkt): the definitions of all of them by qualified
    name, plus the base classes of every class, so that an inherited method is found where Python finds it"""

    def __init__(self, paths):
        self.path = paths[0]
        self.paths = list(paths)
        self.defs, self.bases, self.where = {}, {}, {}
        for p in paths:
            s = Source(p)
            for q, d in s.defs.items():
                if q in self.defs:
                    raise Unsupported(f'`{q}` is defined in {os.path.basename(self.where[q])} and {os.path.basename(p)}')
                self.defs[q], self.where[q] = d, p
            for n in s.tree.body:
                if isinstance(n, ast.ClassDef):
                    if n.name in self.bases:
                        raise Unsupported(f'class `{n.name}` is defined twice')
                    self.bases[n.name] = [b.id if isinstance(b, ast.Name) else ast.unparse(b) for b in n.bases]

    def mro(self, cls):
        """C3 linearisation over the classes of these files (bases defined elsewhere — ABC, Protocol — hold no method of
        interest and are left out)"""
        if cls not in self.bases:
            raise Unsupported(f'class `{cls}` not found')
        parents = [b for b in self.bases[cls] if b in self.bases]
        seqs = [self.mro(b) for b in parents] + [list(parents)]
        out = [cls]
        while any(seqs):
            seqs = [s for s in seqs if s]
            for s in seqs:
                head = s[0]
                if not any(head in t[1:] for t in seqs):
                    break
            else:
                raise Unsupported(f'no consistent method resolution order for `{cls}`')
            out.append(head)
            seqs = [[x for x in s if x != head] for s in seqs]
        return out

    def resolve(self, cls, attr, after=None):
        """qualified name of the definition `cls().attr` reaches (`after`: the search starts behind that class, as
        `super()` inside a method of `after` does); None when no class of the set defines it"""
        order = self.mro(cls)
        if after is not None:
            order = order[order.index(after) + 1:] if after in order else []
        for c in order:
            if f'{c}.{attr}' in self.defs:
                return f'{c}.{attr}'
        return None


# ----------------------------------------------------------------------------------------------------------
# instances


class Inst:
    """one Lean definition: a function/method at fixed static argument types

    qual    'Class.method' or 'function'        lean     Lean name (inside the unit's namespace)
    params  [(python name, type)]               ret      Lean result type: the value type, prefixed 'Except ' if it may raise
    binders Lean binder text of each param (defaults to `(name : type)`)
    """

    def __init__(self, qual, lean, params, ret, doc='', kw=None, state=()):
        self.qual, self.lean, self.params, self.ret, self.doc = qual, lean, list(params), ret, doc
        self.kw = kw                # (geojson_doc) (python name, type) of a `**kwargs` parameter that is a real binder
        self.state = tuple(state)   # (geojson_doc) parameters the function mutates: their final values are returned too

    @property
    def raises(self):
        return self.ret.startswith('Except ')

    @property
    def heaped(self):
        """'Heap T' (units with hook `pycoll`): the instance creates / mutates objects — it takes the heap, returns (heap, T)"""
        return self.ret.startswith('Heap ')

    @property
    def value_type(self):
        return self.ret[len('Except '):] if self.raises else self.ret[len('Heap '):] if self.heaped else self.ret

    def key(self):
        return (self.qual, tuple(t for _n, t in self.params[1:])) if self.params and self.params[0][0] == 'self' \
            else (self.qual, tuple(t for _n, t in self.params))


LEAN_TYPE = {'Dt': 'Int', 'Td': 'Int', 'Int': 'Int', 'Bool': 'Bool', 'TI': 'GV.TI', 'Opt TI': 'Option GV.TI',
             'Pair Dt': 'Int × Int', 'None': 'Unit', 'R': 'Rat', 'Pt': 'GV.Pt'}


def lean_type(t):
    if t.startswith('Except '):
        return 'Except String ' + _parenw(lean_type(t[7:]))
    if t.startswith('Heap '):
        return LEAN_TYPE['HeapT'] + ' × ' + _parenw(lean_type(t[5:]))
    if t.startswith('Prod '):
        return ' × '.join(_paren(lean_type(p)) for p in _prod_parts(t))
    if t.startswith('List Prod '):
        return 'List ' + _parenw(lean_type(t[5:]))         # (`(A) × (B)` is not one parenthesised group)
    if t.startswith('List '):
        return 'List ' + _paren(lean_type(t[5:]))
    if t.startswith('Fn '):
        dom, cod = t.split()[1:3]
        return f'{lean_type(dom)} → {lean_type(cod)}'
    if t.startswith('Set '):
        return 'List ' + _paren(lean_type(t[4:]))
    if t.startswith('DDL '):                       # defaultdict(list) of the `pycoll` units: insertion-ordered (key, values) pairs
        k, v = _prod_parts('Prod ' + t[4:])
        return f'List ({lean_type(k)} × List {_paren(lean_type(v))})'
    if t.startswith(('DDict ', 'Dict ')) and len(t.split()) == 3:
        # `defaultdict(list)` key -> list of values / a plain dict, both as association lists in insertion order
        k, v = t.split()[1:3]
        return f'List ({lean_type(k)} × {_paren("List " + _paren(lean_type(v))) if t.startswith("DDict ") else _paren(lean_type(v))})'
    if t.startswith('Opt ') and t not in LEAN_TYPE:
        return 'Option ' + _paren(lean_type(t[4:]))
    if t.startswith('Tuple') and ' ' in t:
        n, et = int(t.split()[0][5:]), t.split(' ', 1)[1]
        return ' × '.join([_paren(lean_type(et))] * n)
    if t.startswith('Cells') and ' ' in t:          # a fixed-length list used only through constant subscripts
        n, et = int(t.split()[0][5:]), t.split(' ', 1)[1]
        return ' × '.join([_paren(lean_type(et))] * n)
    if t in LEAN_TYPE:
        return LEAN_TYPE[t]
    if t.startswith('Pair '):
        return ' × '.join([_paren(lean_type(t[5:]))] * 2)
    return t


def mk_prod(types):
    """the type tag of a tuple of the given component types: right-nested `Prod A (Prod B C)`"""
    types = list(types)
    if len(types) == 1:
        return types[0]
    a, b = types[0], mk_prod(types[1:])
    return 'Prod ' + ' '.join(f'({x})' if ' ' in x else x for x in (a, b))


def _paren(s):
    return f'({s})' if ' ' in s and not s.startswith('(') else s


def _parenw(s):
    """like `_paren`, but `(A) × (B)` — which starts with `(` without being one group — is wrapped too"""
    return f'({s})' if ' ' in s and not _wrapped(s) else s


def _wrapped(s):
    """`s` is one parenthesised group: its first `(` closes at its last character"""
    if not (s.startswith('(') and s.endswith(')')):
        return False
    depth = 0
    for i, ch in enumerate(s):
        depth += ch == '('
        depth -= ch == ')'
        if depth == 0 and i < len(s) - 1:
            return False
    return True


LEAN_RESERVED = {'end', 'at', 'from', 'in', 'then', 'else', 'do', 'let', 'fun', 'match', 'with', 'where', 'instance', 'class',
                 'structure', 'open', 'section', 'namespace', 'variable', 'theorem', 'def', 'by', 'have', 'show', 'if', 'mut',
                 'return', 'for', 'unless', 'private', 'local', 'prefix', 'infix', 'notation', 'macro', 'syntax', 'universe',
                 'type', 'Type', 'Prop', 'Sort', 'deriving', 'extends', 'import', 'export', 'mutual', 'abbrev', 'axiom', 'opaque',
                 'example', 'inductive', 'set_option', 'attribute', 'using', 'calc', 'exact', 'other'} - {'other'}


def lname(py):
    return py + "'" if py in LEAN_RESERVED else py


# ----------------------------------------------------------------------------------------------------------
# the translator proper


class Unit:
    """one generated Lean file"""

    def __init__(self, name, source, namespace, imports, insts, classes, pins=None, header='', attr_types=None,
                 intrinsics=None, hooks=None, ctx_params=(), externals=None, abstract=None):
        self.name, self.src, self.ns, self.imports = name, source, namespace, imports
        self.insts = insts
        self.by_key = {}
        for i in insts:
            self.by_key.setdefault(i.key(), i)
        self.classes = classes              # static type -> python class name, e.g. {'TI': 'TimeInterval'}
        self.pins = pins or {}              # qual -> pinned AST digest
        self.header = header
        self.attr_types = attr_types or {}  # (type, attribute) -> (lean field text template, type)
        self.intrinsics = intrinsics or {}  # qual -> function(args[(text, type)]) -> (text, type)
        self.hooks = hooks or {}
        self.ctx_params = list(ctx_params)  # [(lean name, lean type)] leading binders of every definition (e.g. the world)
        self.externals = externals or {}    # key -> Inst of another unit (its `.lean` is fully qualified)
        self.abstract = abstract or {}      # (receiver type, method, arg types) -> (lean text template, result type)
        self.notes = []

    # ---- lookups -------------------------------------------------------------------------------------
    def class_of(self, typ):
        return self.classes.get(typ)

    def find(self, qual, argtypes):
        i = self.by_key.get((qual, tuple(argtypes))) or self.externals.get((qual, tuple(argtypes)))
        if i is None:
            raise Unsupported(f'no instance declared for `{qual}` at argument types {tuple(argtypes)}')
        return i

    # ---- emission ------------------------------------------------------------------------------------
    def render(self):
        for qual, digest in self.pins.items():
            if '::' in qual:            # 'relative/file.py::qual' — a helper that lives in another file
                rel, q = qual.split('::', 1)
                node = Source(os.path.join(os.path.dirname(self.src.path), rel)).get(q)
            else:
                node = self.src.get(qual)
            got = pin_of(node)
            if got != digest:
                raise Unsupported(f'pinned helper `{qual}` changed (AST digest {got}, pinned {digest})')
        out = [f'import {m}' for m in self.imports]
        shown_from = '`, `'.join(os.path.relpath(p, os.path.dirname(os.path.dirname(p))) for p in getattr(self.src, 'paths', [self.src.path]))
        out += ['/-!', f'# GENERATED by harness/py2lean.py from `{shown_from}`'
               ' on every run. Do not edit.', '',
               'One definition per (function, static argument types) instance of the current source text.', '-/']
        out += ['', 'set_option linter.unusedVariables false', '', f'namespace {self.ns}', '']
        if self.header:
            out += [self.header, '']
        for inst in self.insts:
            out += self.render_inst(inst) + ['']
        out += [f'end {self.ns}', '']
        return '\n'.join(out)

    def render_inst(self, inst):
        fn = self.src.get(inst.qual)
        want = self.hooks.get('decorators', {}).get(inst.qual)          # decorators a unit relies on (`property`, not cached)
        if want is not None and self.src.decorators(inst.qual) != want:
            raise Unsupported(f'`{inst.qual}`: decorators {self.src.decorators(inst.qual)}, the unit reads it under {want}')
        tr = FnTr(self, inst, fn)
        body = tr.function_body()
        binders = ' '.join([f'({n} : {t})' for n, t in self.ctx_params] +
                           ([f'(heap_0 : {LEAN_TYPE["HeapT"]})'] if inst.heaped else []) +
                           [f'({lname(n)} : {lean_type(t)})' for n, t in inst.params if t != 'None'] +
                           ([f'({lname(inst.kw[0])} : {lean_type(inst.kw[1])})'] if getattr(inst, 'kw', None) else []))
        shown = ast.parse(ast.unparse(fn)).body[0]
        if (shown.body and isinstance(shown.body[0], ast.Expr) and isinstance(getattr(shown.body[0], 'value', None), ast.Constant)
                and isinstance(shown.body[0].value.value, str) and len(shown.body) > 1):
            shown.body = shown.body[1:]
        src_lines = ast.unparse(shown).split('\n')
        doc = [f'/-- `{inst.qual}`' + (f' — {inst.doc}' if inst.doc else '') +
               (' at ' + ', '.join(f'{n}: {t}' for n, t in inst.params[1:]) if len(inst.params) > 1 else ''), '```']
        doc += [ln.replace('-/', '- /') for ln in src_lines if not ln.strip().startswith(('"""', "'''"))][:40]
        doc += ['```', '-/']
        head = f'def {inst.lean} {binders} : {lean_type(inst.ret)} :='
        pre = []
        for a in tr.lifted:                   # (`local_defs`) lifted local classes / nested functions, in order of completion
            pre += a.split('\n') + ['']
        for a in reversed(tr.aux):            # inner loops were completed first and are used by the outer ones
            pre += a.split('\n') + ['']
        return pre + doc + [head] + ['  ' + ln for ln in body.split('\n')]


class Val:
    """a translated expression: Lean text, static type, and (for narrowing) the access path it reads"""

    def __init__(self, text, typ, path=None):
        self.text, self.typ, self.path = text, typ, path


class FnTr:
    def __init__(self, unit, inst, fn):
        self.u, self.inst, self.fn = unit, inst, fn
        self.env = {}            # python local -> Val
        self.narrow = {}         # access path -> Val (after a truthiness / `is None` test)
        self.fresh = 0
        self.pending = []        # raising calls met inside an expression: (bound name, Lean text), innermost last
        self.on_fall = None      # inside a loop body: what "falling off the end" means (next iteration)
        self.aux = []            # auxiliary recursive definitions (loops), emitted before the function
        self.fields = {}         # __init__: attribute -> Val
        self.localfns = {}       # name of a function defined in this body -> its qualified name ('outer.inner')
        # unit hook `local_defs` (SrcSweep): nested `def`s lifted at their first call with inferred types, local classes
        self.local_fns = {}      # nested `def`s met so far: name -> FunctionDef (see lift_local_fn)
        self.local_classes = {}  # nested `class`es: name -> dict(node, owner, tag, fields, methods)
        self.lifted = []         # Lean text of the lifted definitions (structures, nested functions), dependencies first
        self.lifted_insts = {}   # (name, argument types, captured types) -> (Inst, captured names)
        self.heap = 'heap_0' if inst.heaped else None      # Lean text of the current heap (instances declared 'Heap T')
        for n, t in inst.params:
            self.env[n] = Val(lname(n), t, path=n)
        if fn.args.kwarg is not None:
            self.env[fn.args.kwarg.arg] = Val('()', 'Kw')          # **kwargs: only what a unit's `method` hook reads from it
            if getattr(inst, 'kw', None):                            # (geojson_doc) … or a declared binder read by the unit's hooks
                self.env[fn.args.kwarg.arg] = Val(lname(inst.kw[0]), inst.kw[1], path=inst.kw[0])
        want = [a.arg for a in fn.args.args]
        have = [n for n, _t in inst.params]
        if want[:len(have)] != have and not (fn.args.kwarg or fn.args.vararg or len(want) > len(have)):
            raise Unsupported(f'`{inst.qual}`: parameters {want} do not match the declared instance {have}')
        if have != want[:len(have)]:
            raise Unsupported(f'`{inst.qual}`: parameters {want} do not match the declared instance {have}')
        # parameters beyond the declared ones must have defaults (they keep them)
        extra = want[len(have):]
        if len(extra) > len(fn.args.defaults):
            raise Unsupported(f'`{inst.qual}`: undeclared parameters without default: {extra}')
        for n, d in zip(reversed(want), reversed(fn.args.defaults)):
            if n in extra:
                if isinstance(d, ast.Constant) and isinstance(d.value, bool):
                    self.env[n] = Val('true' if d.value else 'false', 'Bool')
                elif isinstance(d, ast.Constant) and d.value is None:
                    self.env[n] = Val('()', 'None')
                elif isinstance(d, ast.Constant) and isinstance(d.value, int) and unit.hooks.get('wkt_text'):
                    self.env[n] = Val(f'({d.value} : Int)', 'Int')
                # other defaults stay unbound: using them is reported as an unsupported name

    def sub(self):
        c = FnTr.__new__(FnTr)
        c.u, c.inst, c.fn = self.u, self.inst, self.fn
        c.env, c.narrow, c.fields = dict(self.env), dict(self.narrow), dict(self.fields)
        c.fresh = self.fresh
        c.pending = []
        c.on_fall = self.on_fall
        c.on_break = getattr(self, 'on_break', None)
        c.aux = self.aux         # shared: loops met in any branch are emitted once, before the function
        c.localfns = dict(getattr(self, 'localfns', {}))
        c.no_return = getattr(self, 'no_return', False)
        c.heap = getattr(self, 'heap', None)
        c.local_fns, c.local_classes = getattr(self, 'local_fns', {}), getattr(self, 'local_classes', {})
        c.lifted, c.lifted_insts = getattr(self, 'lifted', []), getattr(self, 'lifted_insts', {})
        return c

    def wrap(self, text):
        """bind the raising calls met while translating the expression(s) `text` reads, in evaluation order"""
        for name, call in reversed(self.pending):
            if isinstance(name, LetName):            # an object update / effectful call: a plain binding, in evaluation order
                text = f'let {name} := {call}\n{text}'
                continue
            text = f'match {call} with\n| Except.error e => Except.error e\n| Except.ok {name} =>\n{_indent(text)}'
        self.pending = []
        return text

    def gensym(self, base):
        self.fresh += 1
        return f'{base}_{self.fresh}'

    # ---- results ---------------------------------------------------------------------------------------
    def ok(self, text):
        if getattr(self, 'heap', None) is not None:
            return f'({self.heap}, {text})'
        return f'Except.ok {_paren(text)}' if self.inst.raises else text

    def err(self, exc):
        self.check_clean(f'raise {exc}')
        if not self.inst.raises:
            raise Unsupported(f'`{self.inst.qual}`: reachable `raise` in an instance declared not to raise')
        name = {'ValueError': 'ERR:Value', 'TypeError': 'ERR:Type', 'KeyError': 'ERR:Key', 'IndexError': 'ERR:Index',
                'NotImplementedError': 'ERR:Other:NotImplementedError'}.get(exc, 'ERR:Other:' + exc)
        return f'Except.error "{name}"'

    # ---- statements ------------------------------------------------------------------------------------
    def function_body(self):
        body = list(self.fn.body)
        if body and isinstance(body[0], ast.Expr) and isinstance(body[0].value, ast.Constant) and isinstance(body[0].value.value, str):
            body = body[1:]
        return self.block(body)

    def always_returns(self, stmts):
        for s in stmts:
            if isinstance(s, (ast.Return, ast.Raise)):
                return True
            if isinstance(s, ast.Break) and getattr(self, 'on_break', None) is not None:
                return True
            if isinstance(s, ast.Continue) and self.u.hooks.get('local_defs'):
                return True
            if isinstance(s, ast.If):
                st = self.static_test(s.test)
                if st is True and self.always_returns(s.body):
                    return True
                if st is False and self.always_returns(s.orelse):
                    return True
                if st is None and self.always_returns(s.body) and s.orelse and self.always_returns(s.orelse):
                    return True
        return False

    def block(self, stmts):
        if not stmts:
            if self.on_fall is not None:
                return self.on_fall(self)
            if self.inst.qual.endswith('.__init__'):
                return self.finish_init()
            raise Unsupported(f'`{self.inst.qual}`: control can fall off the end (returns None)')
        s, rest = stmts[0], stmts[1:]
        if self.u.hooks.get('curved_gen') and isinstance(s, ast.Assert):
            return self.cv_assert(s, rest)        # `assert T`: AssertionError unless T
        if self.u.hooks.get('geojson_doc'):
            ext = self.gj_stmt(s, rest)           # dict stores, appends of raising values, nested defs with declared types: see `gj_stmt`
            if ext is not None:
                return ext
        if self.u.hooks.get('worklist'):
            ext = self.ext_stmt(s, rest)          # work-list subset (local sets / dicts, nested loops): see `ext_stmt`
            if ext is not None:
                return ext
        if self.u.hooks.get('pycoll'):
            ext = self.pc_stmt(s, rest)           # `continue`, appends with raising arguments, `d[k].append(v)`: see `pc_stmt`
            if ext is not None:
                return ext
        if self.u.hooks.get('local_defs'):
            ext = self.ld_stmt(s, rest)           # nested defs lifted by inference, local classes, sets of objects: see `ld_stmt`
            if ext is not None:
                return ext
        if isinstance(s, (ast.Pass, ast.Import, ast.ImportFrom)):
            return self.block(rest)
        if isinstance(s, ast.FunctionDef) and not s.decorator_list and f'{self.inst.qual}.{s.name}' in self.u.src.defs \
                and self.u.src.defs[f'{self.inst.qual}.{s.name}'] is s:
            # a local function: translated as its own instance(s) 'outer.inner'; here only the name is bound
            if not hasattr(self, 'localfns'):
                self.localfns = {}
            self.localfns[s.name] = f'{self.inst.qual}.{s.name}'
            self.env.pop(s.name, None)
            return self.block(rest)
        if isinstance(s, ast.Expr):
            if isinstance(s.value, ast.Constant):
                return self.block(rest)
            if self.is_super_init(s.value):
                return self.block(rest)
            if self.is_super_init(s.value, any_args=True) and 'super_init' in self.u.hooks:
                vals = [self.expr(a) for a in s.value.args]
                pend, self.pending = self.pending, []
                self.u.hooks['super_init'](self, vals)
                inner = self.block(rest)
                self.pending = pend
                return self.wrap(inner)
            c = s.value
            if isinstance(c, ast.Call) and isinstance(c.func, ast.Attribute) and c.func.attr == 'add' and len(c.args) == 1 \
                    and isinstance(c.func.value, ast.Name) and c.func.value.id in self.env \
                    and self.env[c.func.value.id].typ.startswith('Set '):
                # `seen.add(x)` on a local set (modelled as the list of its elements, newest first)
                n = c.func.value.id
                v = self.expr(c.args[0])
                old = self.env[n]
                nm = self.gensym(lname(n))
                self.env[n] = Val(nm, 'Set ' + v.typ, path=n)
                return f'let {nm} := ({v.text} :: {old.text})\n' + self.block(rest)
            if isinstance(c, ast.Call) and isinstance(c.func, ast.Attribute) and c.func.attr == 'append' and len(c.args) == 1 \
                    and isinstance(c.func.value, ast.Name) and c.func.value.id in self.env \
                    and self.env[c.func.value.id].typ.startswith('List '):
                n = c.func.value.id
                v = self.expr(c.args[0])
                old = self.env[n]
                if old.typ != 'List ' + v.typ:
                    raise Unsupported(f'append of {v.typ} to {old.typ}')
                nm = self.gensym(lname(n))
                self.env[n] = Val(nm, old.typ, path=n)
                return f'let {nm} := ({old.text} ++ [{v.text}])\n' + self.block(rest)
            if isinstance(c, ast.Call) and isinstance(c.func, ast.Attribute) and c.func.attr == 'pop' and not c.args and not c.keywords \
                    and isinstance(c.func.value, ast.Name) and c.func.value.id in self.env \
                    and self.env[c.func.value.id].typ.startswith('List '):
                # `xs.pop()` as a statement on a local list: drops the last element, IndexError on the empty list
                if not self.inst.raises:
                    raise Unsupported(f'`{self.inst.qual}`: `{ast.unparse(s)}` (IndexError on an empty list) in an instance declared not to raise')
                n = c.func.value.id
                old = self.env[n]
                nm = self.gensym(lname(n))
                self.env[n] = Val(nm, old.typ, path=n)
                return (f'match GV.Py.popLast {old.text} with\n| Except.error e => Except.error e\n| Except.ok {nm} =>\n'
                        + _indent(self.block(rest)))
            hook = self.u.hooks.get('expr_stmt')
            if hook and hook(self, s.value):
                return self.block(rest)
            raise Unsupported(f'`{self.inst.qual}`: expression statement `{ast.unparse(s)}`')
        if isinstance(s, ast.Return):
            if s.value is None:
                raise Unsupported(f'`{self.inst.qual}`: bare return')
            return self.ret_value(s.value)
        if isinstance(s, ast.Raise):
            exc = s.exc
            name = exc.func.id if isinstance(exc, ast.Call) and isinstance(exc.func, ast.Name) else (exc.id if isinstance(exc, ast.Name) else None)
            if name is None:
                raise Unsupported(f'`{self.inst.qual}`: raise of `{ast.unparse(s)}`')
            return self.err(name)
        if isinstance(s, ast.If):
            return self.if_stmt(s, rest)
        if isinstance(s, (ast.Assign, ast.AnnAssign)):
            return self.assign(s, rest)
        if isinstance(s, ast.AugAssign) and self.u.hooks.get('aug_assign'):
            return self.aug_assign(s, rest)
        if isinstance(s, ast.For):
            return self.for_stmt(s, rest)
        if isinstance(s, ast.While) and self.on_fall is not None:
            return self.while_value(s, rest)          # inside a loop body: the loop is a function of its state
        if isinstance(s, ast.While):
            return self.while_stmt(s, rest)
        if isinstance(s, ast.Break) and getattr(self, 'on_break', None) is not None:
            return self.on_break(self)          # leave the innermost translated loop with the current state
        raise Unsupported(f'`{self.inst.qual}`: statement `{type(s).__name__}`: {ast.unparse(s)[:80]}')

    def is_super_init(self, e, any_args=False):
        return (isinstance(e, ast.Call) and isinstance(e.func, ast.Attribute) and e.func.attr == '__init__'
                and isinstance(e.func.value, ast.Call) and isinstance(e.func.value.func, ast.Name)
                and e.func.value.func.id == 'super' and (any_args or not e.args) and not e.keywords)

    def ret_value(self, e):
        if 'frame' in self.u.hooks:
            r = self.ret_framed(e)
            if r is not None:
                return r
        # a call of a raising instance in return position is the result itself
        if isinstance(e, ast.BoolOp) and self.inst.raises and self.inst.value_type == 'Bool' and not self.has_optional_test(e):
            first, others = e.values[0], e.values[1:]
            more = others[0] if len(others) == 1 else ast.BoolOp(op=e.op, values=others)
            if isinstance(e.op, ast.Or):
                return self.branch(first, lambda tr: tr.ok('true'), lambda tr: tr.ret_value(more))
            return self.branch(first, lambda tr: tr.ret_value(more), lambda tr: tr.ok('false'))
        v = self.expr(e, allow_raise=True)
        if self.inst.ret == '?' and not getattr(v, 'raises', False) and v.typ != 'None' and '?' not in v.typ:
            self.inst.ret = v.typ                    # a lifted local definition (`local_defs`): the first `return` fixes the result type
        want = self.inst.value_type
        if getattr(self.inst, 'state', ()):
            return self.gj_ret_with_state(v)
        if getattr(v, 'raises', False):
            if not self.inst.raises:
                raise Unsupported(f'`{self.inst.qual}`: returns a call that may raise, but is declared not to raise')
            if v.typ == want:
                return self.wrap(v.text)
            if want == 'Opt ' + v.typ:
                return self.wrap(f'({v.text}).map some')
            raise Unsupported(f'`{self.inst.qual}`: returns {v.typ}, declared {want}')
        return self.wrap(self.ok(self.coerce(v, want)))

    def coerce(self, v, want):
        if v.typ == want:
            return v.text
        if want == 'Opt ' + v.typ:
            return f'some {_paren(v.text)}'
        if v.typ == 'None' and want.startswith('Opt '):
            return 'none'
        if want == 'Bool' and v.typ.startswith('Opt '):
            raise Unsupported(f'`{self.inst.qual}`: returns an Optional where a bool is declared')
        if 'gj_coerce' in self.u.hooks:
            r = self.u.hooks['gj_coerce'](self, v, want)
            if r is not None:
                return r
        raise Unsupported(f'`{self.inst.qual}`: value of type {v.typ} where {want} is declared: `{v.text}`')

    def if_stmt(self, s, rest):
        st = self.static_test(s.test)
        if st is True:
            return self.block(s.body + ([] if self.always_returns(s.body) else rest))
        if st is False:
            return self.block(s.orelse + ([] if s.orelse and self.always_returns(s.orelse) else rest))
        if self.u.hooks.get('join_ifs') and self.assign_only(s.body) and self.assign_only(s.orelse):
            r = self.join_if(s, rest)
            if r is not None:
                return r
        then_stmts = s.body + ([] if self.always_returns(s.body) else rest)
        else_stmts = (s.orelse + ([] if s.orelse and self.always_returns(s.orelse) else rest))
        return self.branch(s.test, lambda tr: tr.block(then_stmts), lambda tr: tr.block(else_stmts))

    # ---- the `local_defs` subset (SrcSweep): nested defs lifted by inference, local classes, sets of objects, joins ---------
    def ld_stmt(self, s, rest):
        if isinstance(s, ast.FunctionDef):
            # a nested `def`: lifted to a definition of its own at its first call (captured locals become parameters)
            if s.decorator_list:
                raise Unsupported(f'`{self.inst.qual}`: decorated nested function `{s.name}`')
            self.local_fns[s.name] = s
            return self.block(rest)
        if isinstance(s, ast.ClassDef):
            # a local class: a structure (fields: what `__init__` stores) with its `__lt__` / `__eq__` / `__hash__`
            if s.bases or s.keywords or s.decorator_list:
                raise Unsupported(f'`{self.inst.qual}`: local class `{s.name}` with bases / decorators')
            self.local_classes[s.name] = {'node': s, 'owner': self.inst, 'tag': None, 'fields': None, 'methods': {}}
            return self.block(rest)
        if isinstance(s, ast.Continue):
            if self.on_fall is None:
                raise Unsupported(f'`{self.inst.qual}`: `continue` outside a loop')
            return self.on_fall(self)              # the next iteration, like falling off the end of the loop body
        if isinstance(s, ast.AugAssign) and isinstance(s.target, ast.Name) and isinstance(s.op, (ast.Add, ast.Sub, ast.Mult)):
            # `x += e` is `x = x + e` (lists are values here: nothing else can see the old list)
            return self.assign(ast.Assign(targets=[ast.Name(id=s.target.id, ctx=ast.Store())],
                                          value=ast.BinOp(left=ast.Name(id=s.target.id, ctx=ast.Load()), op=s.op, right=s.value)), rest)
        if isinstance(s, ast.Expr) and isinstance(s.value, ast.Call) and isinstance(s.value.func, ast.Attribute) \
                and isinstance(s.value.func.value, ast.Name) and s.value.func.value.id in self.env \
                and s.value.func.attr in ('add', 'discard', 'sort') and not s.value.keywords:
            return self.local_class_stmt(s.value, rest)
        return None

    def assign_only(self, stmts):
        for st in stmts:
            if isinstance(st, ast.AugAssign) and isinstance(st.target, ast.Name):
                continue
            if not isinstance(st, (ast.Assign, ast.AnnAssign)):
                return False
            tgts = st.targets if isinstance(st, ast.Assign) else [st.target]
            for t in tgts:
                if not (isinstance(t, ast.Name) or isinstance(t, ast.Tuple) and all(isinstance(x, ast.Name) for x in t.elts)):
                    return False
        return True

    def join_if(self, s, rest):
        """`if c: x = e` (both arms only assign locals that exist already): `let x' := if c then e else x`, then the rest
        once — instead of the rest duplicated in both arms"""
        names = []
        for st in s.body + s.orelse:
            tgts = st.targets if isinstance(st, ast.Assign) else [st.target]
            for t in tgts:
                for m in ast.walk(t):
                    if isinstance(m, ast.Name) and m.id not in names:
                        names.append(m.id)
        if not names or any(n not in self.env or n in self.narrow for n in names) or self.has_optional_test(s.test):
            return None
        c = self.truth(self.expr(s.test))
        if self.pending:
            raise Unsupported(f'`{self.inst.qual}`: a call that may raise in the test of an assignment-only `if`')
        types = [self.env[n].typ for n in names]

        def final(tr):
            vals = [tr.env[n] for n in names]
            if [v.typ for v in vals] != types:
                raise Unsupported(f'`{self.inst.qual}`: an `if` changes the type of {names}')
            return vals[0].text if len(vals) == 1 else '(' + ', '.join(v.text for v in vals) + ')'
        arms = []
        top = self.fresh
        for stmts in (s.body, s.orelse):
            tr = self.sub()
            tr.fresh = top
            tr.on_fall = final
            arms.append(tr.block(list(stmts)))
            if tr.pending:
                raise Unsupported(f'`{self.inst.qual}`: a call that may raise inside an assignment-only `if`')
            self.fresh = max(self.fresh, tr.fresh)
        j = self.gensym('j' if len(names) > 1 else lname(names[0]))
        n = len(names)
        for i, name in enumerate(names):
            proj = j if n == 1 else j + '.2' * i + ('.1' if i < n - 1 else '')
            self.env[name] = Val(proj, types[i], path=name)
        return f'let {j} := (if {c} then\n{_indent(arms[0], 4)}\n  else\n{_indent(arms[1], 4)})\n' + self.block(rest)

    def class_of_tag(self, typ):
        for info in self.local_classes.values():
            if info['tag'] is not None and info['tag'] == typ:
                return info
        return None

    def elem_eq(self, typ):
        """the equality a set of `typ` is keyed by, as a Lean function"""
        info = self.class_of_tag(typ)
        if info is not None:
            if '__eq__' not in info['methods'] or '__hash__' not in info['methods']:
                raise Unsupported(f'a set of `{typ}`, which does not define both `__eq__` and `__hash__`')
            return info['methods']['__eq__'].lean
        if _is_data(typ):
            return '(fun a b => a == b)'
        raise Unsupported(f'a set of {typ}')

    def local_class_stmt(self, c, rest):
        """`s.add(x)` / `s.discard(x)` on a local set keyed by a local class's `__eq__`; `xs.sort()` by its `__lt__`"""
        n, attr = c.func.value.id, c.func.attr
        old = self.env[n]
        if attr == 'sort' and not c.args and old.typ.startswith('List '):
            info = self.class_of_tag(old.typ[5:])
            if info is None or '__lt__' not in info['methods']:
                raise Unsupported(f'`{self.inst.qual}`: `.sort()` of {old.typ} (no `__lt__` in sight)')
            lt = info['methods']['__lt__'].lean
            nm = self.gensym(lname(n))
            self.env[n] = Val(nm, old.typ, path=n)
            # list.sort() is stable and only asks `b < a`: the merge keeps `a` before `b` unless `b < a`
            return f'let {nm} := (({old.text}).mergeSort (fun a b => !({lt} b a)))\n' + self.block(rest)
        if attr in ('add', 'discard') and len(c.args) == 1 and old.typ.startswith('Set ') and '?' not in old.typ \
                and self.class_of_tag(old.typ[4:]) is not None:
            v = self.expr(c.args[0])
            if v.typ != old.typ[4:]:
                raise Unsupported(f'`{self.inst.qual}`: `{attr}` of {v.typ} on {old.typ}')
            eq = self.elem_eq(v.typ)
            nm = self.gensym(lname(n))
            self.env[n] = Val(nm, old.typ, path=n)
            fn = 'GV.Py.setAdd' if attr == 'add' else 'GV.Py.setDiscard'
            return f'let {nm} := ({fn} {eq} {_paren(v.text)} {_paren(old.text)})\n' + self.block(rest)
        return None

    def define_local_class(self, name, args):
        """at the first constructor call: the field types are those of the arguments; the structure and its methods
        are emitted before everything that uses them"""
        info = self.local_classes[name]
        node, owner = info['node'], info['owner']
        meths = {m.name: m for m in node.body if isinstance(m, ast.FunctionDef)}
        for m in node.body:
            if not (isinstance(m, ast.FunctionDef) or isinstance(m, ast.Expr) and isinstance(m.value, ast.Constant) or isinstance(m, ast.Pass)):
                raise Unsupported(f'local class `{name}`: `{ast.unparse(m)[:60]}` in the class body')
        if '__init__' not in meths:
            raise Unsupported(f'local class `{name}` without `__init__`')
        init = meths['__init__']
        params = [a.arg for a in init.args.args][1:]
        if init.args.vararg or init.args.kwarg or init.args.defaults or init.args.kwonlyargs or len(params) != len(args):
            raise Unsupported(f'local class `{name}`: constructor called with {len(args)} arguments, `__init__` takes {params}')
        ptypes = dict(zip(params, [a.typ for a in args]))
        fields = []
        for st in init.body:
            if isinstance(st, ast.Expr) and isinstance(st.value, ast.Constant) or isinstance(st, ast.Pass):
                continue
            ok = (isinstance(st, ast.Assign) and len(st.targets) == 1 and isinstance(st.targets[0], ast.Attribute)
                  and isinstance(st.targets[0].value, ast.Name) and st.targets[0].value.id == init.args.args[0].arg
                  and isinstance(st.value, ast.Name) and st.value.id in ptypes)
            if not ok or st.targets[0].attr in [f for f, _p in fields]:
                raise Unsupported(f'local class `{name}`: `__init__` does more than store its parameters: `{ast.unparse(st)[:60]}`')
            fields.append((st.targets[0].attr, st.value.id))
        tag = f'{owner.lean}.{lean_ident(name)}'
        info.update(tag=tag, fields=fields, ptypes=ptypes, params=params)
        for f, prm in fields:
            self.u.attr_types[(tag, f)] = ('{}.' + lname(f), ptypes[prm])
        out = [f'/-- the local class `{name}` of `{owner.qual}`: what `__init__` stores -/', f'structure {tag} where']
        out += [f'  {lname(f)} : {lean_type(ptypes[prm])}' for f, prm in fields]
        text = ['\n'.join(out)]
        for mname, m in meths.items():
            if mname == '__init__':
                continue
            want = {'__lt__': 2, '__eq__': 2, '__hash__': 1}.get(mname)
            margs = [a.arg for a in m.args.args]
            if want is None or len(margs) != want or m.args.vararg or m.args.kwarg or m.args.defaults or m.decorator_list:
                raise Unsupported(f'local class `{name}`: method `{mname}`')
            inst = Inst(f'{owner.qual}.{name}.{mname}', f'{tag}.{lean_ident(mname)}', [(a, tag) for a in margs], '?')
            tr = FnTr(self.u, inst, m)
            tr.local_classes, tr.lifted, tr.lifted_insts = self.local_classes, self.lifted, self.lifted_insts
            body = tr.function_body()
            if inst.ret == '?' or tr.aux:
                raise Unsupported(f'local class `{name}`: method `{mname}` is outside the subset')
            if mname in ('__lt__', '__eq__') and inst.ret != 'Bool':
                raise Unsupported(f'local class `{name}`: `{mname}` returns {inst.ret}')
            binders = ' '.join([f'({n} : {t})' for n, t in self.u.ctx_params] + [f'({lname(a)} : {tag})' for a in margs])
            src = [ln.replace('-/', '- /') for ln in ast.unparse(m).split('\n') if not ln.strip().startswith(('"""', "'''"))]
            text.append('\n'.join([f'/-- `{name}.{mname}`', '```'] + src + ['```', '-/',
                                   f'def {inst.lean} {binders} : {lean_type(inst.ret)} :='] + ['  ' + ln for ln in body.split('\n')]))
            info['methods'][mname] = inst
        self.lifted.append('\n\n'.join(text))
        return info

    def local_ctor(self, name, args):
        info = self.local_classes[name]
        if info['tag'] is None:
            info = self.define_local_class(name, args)
        if [a.typ for a in args] != [info['ptypes'][p] for p in info['params']]:
            raise Unsupported(f'`{name}(…)` at {[a.typ for a in args]}, first built at {[info["ptypes"][p] for p in info["params"]]}')
        by_param = dict(zip(info['params'], args))
        inner = ', '.join(f'{lname(f)} := {by_param[prm].text}' for f, prm in info['fields'])
        return Val('({ ' + inner + ' } : ' + info['tag'] + ')', info['tag'])

    def spread_args(self, nodes):
        """positional arguments with `*pair` spread (a statically sized sequence: a 2-tuple or a comprehension over one)"""
        out = []
        for a in nodes:
            if isinstance(a, ast.Starred):
                v = self.expr(a.value)
                parts = _prod_parts(v.typ)
                if not (v.typ.startswith('Prod ') and len(parts) == 2 and parts[0] == parts[1]):
                    raise Unsupported(f'`*` of {v.typ} in a call')
                out += [Val(f'{_paren(v.text)}.1', parts[0]), Val(f'{_paren(v.text)}.2', parts[1])]
            else:
                out.append(self.expr(a))
        return out

    def lift_local_fn(self, name, args):
        """a call of a nested `def`: one lifted definition per argument types, the enclosing function's locals it
        reads as leading parameters (their values at the time of the call, as Python's closures see them)"""
        fn = self.local_fns[name]
        params = [a.arg for a in fn.args.args]
        if fn.args.vararg or fn.args.kwarg or fn.args.kwonlyargs or fn.args.defaults or len(params) != len(args):
            raise Unsupported(f'`{self.inst.qual}`: nested function `{name}` called with {len(args)} arguments, takes {params}')
        stored = {m.id for m in ast.walk(fn) if isinstance(m, ast.Name) and isinstance(m.ctx, ast.Store)} | set(params)
        free = []
        for m in ast.walk(fn):
            if isinstance(m, ast.Name) and isinstance(m.ctx, ast.Load) and m.id not in stored and m.id in self.env \
                    and self.env[m.id].typ not in ('None', 'Kw') and m.id not in free:
                free.append(m.id)
        key = (name, tuple(a.typ for a in args), tuple(self.env[n].typ for n in free))
        if key not in self.lifted_insts:
            if any(k[0] == name for k in self.lifted_insts):
                suffix = '_' + str(1 + sum(1 for k in self.lifted_insts if k[0] == name))
            else:
                suffix = ''
            inst = Inst(f'{self.inst.qual}.{name}', f'{self.inst.lean}.{lean_ident(name)}{suffix}',
                        list(zip(params, [a.typ for a in args])), '?')
            self.lifted_insts[key] = None              # in progress: a recursive nested function is outside the subset
            tr = FnTr(self.u, inst, fn)
            tr.local_fns = {k: v for k, v in self.local_fns.items() if k != name}
            tr.local_classes, tr.lifted, tr.lifted_insts = self.local_classes, self.lifted, self.lifted_insts
            for n in free:
                tr.env[n] = Val(lname(n), self.env[n].typ, path=n)
            body = tr.function_body()
            if inst.ret == '?':
                raise Unsupported(f'`{inst.qual}`: no result type could be inferred')
            binders = ' '.join([f'({n} : {t})' for n, t in self.u.ctx_params] +
                               [f'({lname(n)} : {lean_type(self.env[n].typ)})' for n in free] +
                               [f'({lname(n)} : {lean_type(t)})' for n, t in inst.params])
            src = [ln.replace('-/', '- /') for ln in ast.unparse(fn).split('\n') if not ln.strip().startswith(('"""', "'''"))][:40]
            pre = []
            for a in reversed(tr.aux):
                pre += [a, '']
            doc = [f'/-- the nested function `{name}` of `{self.inst.qual}`, lifted' +
                   (' (captured: ' + ', '.join(free) + ')' if free else ''), '```'] + src + ['```', '-/']
            self.lifted.append('\n'.join(pre + doc + [f'def {inst.lean} {binders} : {lean_type(inst.ret)} :='] +
                                         ['  ' + ln for ln in body.split('\n')]))
            self.lifted_insts[key] = (inst, free)
        if self.lifted_insts[key] is None:
            raise Unsupported(f'`{self.inst.qual}`: the nested function `{name}` calls itself')
        inst, free = self.lifted_insts[key]
        ctx = [n for n, _t in self.u.ctx_params]
        txt = ' '.join([inst.lean] + ctx + [_paren(self.env[n].text) for n in free] + [_paren(a.text) for a in args])
        v = Val(f'({txt})', inst.value_type)
        v.raises = inst.raises
        return v


    def branch(self, test, then_k, else_k):
        """Lean text of `if test then … else …`, with Optional truthiness / None tests turned into matches that bind the
        narrowed value for the branch in which it is known to be present"""
        # not X
        if isinstance(test, ast.UnaryOp) and isinstance(test.op, ast.Not):
            return self.branch(test.operand, else_k, then_k)
        # A and B  ==  if A then (if B then T else E) else E
        if isinstance(test, ast.BoolOp) and isinstance(test.op, ast.And) and self.has_optional_test(test):
            first, others = test.values[0], test.values[1:]
            more = others[0] if len(others) == 1 else ast.BoolOp(op=ast.And(), values=others)
            return self.branch(first, lambda tr: tr.branch(more, then_k, else_k), else_k)
        if isinstance(test, ast.BoolOp) and isinstance(test.op, ast.Or) and self.has_optional_test(test):
            first, others = test.values[0], test.values[1:]
            more = others[0] if len(others) == 1 else ast.BoolOp(op=ast.Or(), values=others)
            return self.branch(first, then_k, lambda tr: tr.branch(more, then_k, else_k))
        if isinstance(test, ast.BoolOp) and self.u.hooks.get('wkt_text') and self.may_raise(test.values[0]):
            # `(A and B) or C` where B may raise: the operands are tested one after the other (SrcWkt)
            first, others = test.values[0], test.values[1:]
            more = others[0] if len(others) == 1 else ast.BoolOp(op=test.op, values=others)
            if isinstance(test.op, ast.And):
                return self.branch(first, lambda tr: tr.branch(more, then_k, else_k), else_k)
            return self.branch(first, then_k, lambda tr: tr.branch(more, then_k, else_k))
        if isinstance(test, ast.BoolOp) and any(self.may_raise(v) for v in test.values[1:]):
            # `A and B` / `A or B` where B may raise: B is evaluated (and can raise) only when A does not decide the test
            first, others = test.values[0], test.values[1:]
            more = others[0] if len(others) == 1 else ast.BoolOp(op=test.op, values=others)
            st = self.static_test(first) if isinstance(first, (ast.Call, ast.Compare, ast.UnaryOp, ast.Constant)) else None
            if st is not None:            # decided by the static types of this instance (as in `_expr`)
                if st is isinstance(test.op, ast.And):
                    return self.branch(more, then_k, else_k)
                return (then_k if st else else_k)(self)
            if isinstance(test.op, ast.And):
                return self.branch(first, lambda tr: tr.branch(more, then_k, else_k), else_k)
            return self.branch(first, then_k, lambda tr: tr.branch(more, then_k, else_k))
        if self.u.hooks.get('geojson_doc') and isinstance(test, ast.Compare) and len(test.ops) == 1 \
                and isinstance(test.ops[0], (ast.Is, ast.IsNot)):
            st = self.static_test(test)         # `x is None` on a value already narrowed (or declared) non-optional
            if st is not None:
                return (then_k if st else else_k)(self)
        opt = self.optional_test(test)
        if opt is not None:
            v, present_is_true = opt
            name = self.gensym('d')
            t_some, t_none = self.sub(), self.sub()
            t_some.fresh = t_none.fresh = self.fresh
            t_some.narrow[v.path] = Val(name, v.typ[4:], path=v.path)
            some_txt = (then_k if present_is_true else else_k)(t_some)
            none_txt = (else_k if present_is_true else then_k)(t_none)
            import re as _re
            if self.u.hooks.get('opt_tests_as_issome') and not _re.search(r'(?<![\w.])' + _re.escape(name) + r'(?![\w])', some_txt):
                # the narrowed value is never read: a plain test (a `match` on a call makes Lean unfold the callee)
                return self.wrap(f'if ({v.text}).isSome then\n{_indent(some_txt)}\nelse\n{_indent(none_txt)}')
            return self.wrap(f'match {v.text} with\n| some {name} =>\n{_indent(some_txt)}\n| none =>\n{_indent(none_txt)}')
        c = self.truth(self.expr(test))
        a, b = self.sub(), self.sub()
        a.fresh = b.fresh = self.fresh
        return self.wrap(f'if {c} then\n{_indent(then_k(a))}\nelse\n{_indent(else_k(b))}')

    def may_raise(self, e):
        """does evaluating the expression involve a call/subscript that may raise (translated on a scratch copy)"""
        if not self.inst.raises:
            return False
        t = self.sub()
        t.fresh = self.fresh
        try:
            t.expr(e)
        except Unsupported:
            return False
        return bool(t.pending)

    def has_optional_test(self, test):
        if isinstance(test, ast.BoolOp):
            return any(self.has_optional_test(v) for v in test.values)
        if isinstance(test, ast.UnaryOp) and isinstance(test.op, ast.Not):
            return self.has_optional_test(test.operand)
        return self.optional_test(test) is not None

    def optional_test(self, test):
        """(value, True) for `x` / `x is not None`, (value, False) for `x is None`, when x is a pure Optional access path"""
        node, positive = test, True
        if isinstance(test, ast.Compare) and len(test.ops) == 1 and isinstance(test.comparators[0], ast.Constant) \
                and test.comparators[0].value is None and isinstance(test.ops[0], (ast.Is, ast.IsNot)):
            node, positive = test.left, isinstance(test.ops[0], ast.IsNot)
        elif isinstance(test, (ast.Compare, ast.BoolOp, ast.UnaryOp, ast.Call)):
            return None
        npend, nfresh = len(self.pending), self.fresh
        try:
            v = self.expr(node)
        except Unsupported:
            return None
        if self.u.hooks.get('geojson_doc') and not (v.path is not None and v.typ.startswith('Opt ')) and len(self.pending) > npend:
            del self.pending[npend:]        # a probe only: raising calls met on the way are bound where the test is translated
            self.fresh = nfresh
        if v.path is not None and v.typ.startswith('Opt '):
            if node is test and self.has_falsy_value(v.typ[4:]):
                # bare `if x:` / `x or y` / `not x` on an Optional whose values can be falsy (0.0, 0, '', [], False) is NOT a
                # presence test: left to `truth`, which refuses it unless the unit handles it
                return None
            return v, positive
        return None

    def has_falsy_value(self, typ):
        """can a (non-None) value of this static type be falsy?  `Dt`, `TI`, records / shapes and whatever the unit lists in
        `always_truthy` can not; numbers, strings, booleans and containers can."""
        if typ in ('Dt', 'TI') or typ in self.u.hooks.get('always_truthy', ()):
            return False
        if typ in ('R', 'Td', 'Int', 'Nat', 'N', 'Str', 'Chars', 'Bool') or typ in self.u.hooks.get('falsy_types', ()) \
                or typ.split()[0] in ('List', 'Set', 'Dict', 'Opt', 'DDL'):
            return True
        lt = lean_type(typ)
        return lt in ('Int', 'Rat', 'Nat', 'Bool', 'String', 'Float', 'α', 'F', 'Char') or \
            lt.split()[0] in ('List', 'Option', 'Array')

    def static_test(self, test):
        """True / False when the test is decided by the static types of this instance, else None"""
        if isinstance(test, ast.Call) and isinstance(test.func, ast.Name) and test.func.id == 'isinstance' and len(test.args) == 2:
            v = self.expr(test.args[0])
            names = [n.id if isinstance(n, ast.Name) else ast.unparse(n) for n in
                     (test.args[1].elts if isinstance(test.args[1], ast.Tuple) else [test.args[1]])]
            mine = self.u.hooks['isinstance'](v.typ) if 'isinstance' in self.u.hooks else None
            if mine is None:
                raise Unsupported(f'`{self.inst.qual}`: isinstance on a value of type {v.typ}')
            if hasattr(mine, 'no'):
                # an *abstract* type: `mine` are the classes it is known to be an instance of, `mine.no` the ones it is known
                # not to be; a test against any other class is not decided by the instance's types
                if any(n in mine for n in names):
                    return True
                und = [n for n in names if n not in mine.no]
                if und:
                    raise Unsupported(f'`{self.inst.qual}`: isinstance({v.typ}, {"/".join(und)}) is not decided by the declared types')
                return False
            return any(n in mine for n in names)
        if isinstance(test, ast.Compare) and len(test.ops) == 1 and isinstance(test.ops[0], (ast.Is, ast.IsNot)) \
                and isinstance(test.comparators[0], ast.Constant) and test.comparators[0].value is None:
            try:
                v = self.expr(test.left)
            except Unsupported:
                return None
            if v.typ == 'None':
                return isinstance(test.ops[0], ast.Is)
            if not v.typ.startswith('Opt '):
                return isinstance(test.ops[0], ast.IsNot)
            return None
        if isinstance(test, ast.UnaryOp) and isinstance(test.op, ast.Not):
            r = self.static_test(test.operand)
            return None if r is None else (not r)
        if isinstance(test, ast.BoolOp):
            rs = [self.static_test(v) for v in test.values]
            if isinstance(test.op, ast.Or):
                if any(r is True for r in rs):
                    # sound only if the operands before the first statically-true one have no effects: they are pure here
                    return True
                if all(r is False for r in rs):
                    return False
            else:
                if any(r is False for r in rs):
                    return False
                if all(r is True for r in rs):
                    return True
            return None
        if isinstance(test, ast.Constant) and isinstance(test.value, bool):
            return test.value
        if self.u.hooks.get('geojson_doc') and isinstance(test, ast.Name) and test.id in self.env and test.id not in self.narrow \
                and self.env[test.id].typ == 'None':
            return False            # a parameter left at (or an instance declared at) None
        return None

    def assign(self, s, rest):
        if isinstance(s, ast.AnnAssign):
            targets, value = [s.target], s.value
        else:
            targets, value = s.targets, s.value
        if len(targets) != 1:
            raise Unsupported(f'`{self.inst.qual}`: chained assignment')
        tgt = targets[0]
        if isinstance(tgt, ast.Tuple) and not isinstance(value, ast.Tuple):
            v = self.expr(value)
            n = len(tgt.elts)
            if v.typ.startswith('Prod ') and n == 2:
                parts = _prod_parts(v.typ)
                tmp = self.gensym('t')
                for i, t in enumerate(tgt.elts):
                    if not isinstance(t, ast.Name):
                        raise Unsupported(f'`{self.inst.qual}`: unpacking into `{ast.unparse(t)}`')
                    self.env[t.id] = Val(f'{tmp}.{i + 1}', parts[i], path=t.id)
                    self.narrow.pop(t.id, None)
                pend, self.pending = self.pending, []          # (the raising calls of the right-hand side are bound *around* the let)
                inner = self.block(rest)
                self.pending = pend
                return self.wrap(f'let {tmp} := {v.text}\n' + inner)
            if v.typ.startswith('Pair ') and n == 2:
                tmp = self.gensym('t')
                for i, t in enumerate(tgt.elts):
                    if not isinstance(t, ast.Name):
                        raise Unsupported(f'`{self.inst.qual}`: unpacking into `{ast.unparse(t)}`')
                    self.env[t.id] = Val(f'{tmp}.{i + 1}', v.typ[5:], path=t.id)
                    self.narrow.pop(t.id, None)
                pend, self.pending = self.pending, []          # (the raising calls of the right-hand side are bound *around* the let)
                inner = self.block(rest)
                self.pending = pend
                return self.wrap(f'let {tmp} := {v.text}\n' + inner)
            if v.typ.startswith('List ') and all(isinstance(t, ast.Name) for t in tgt.elts):
                # `a, b = xs` for a list of statically unknown length: ValueError unless it has exactly n entries
                if not self.inst.raises:
                    raise Unsupported(f'`{self.inst.qual}`: unpacking a list (may raise ValueError) in an instance declared not to raise')
                names = []
                for t in tgt.elts:
                    nm = self.gensym(lname(t.id))
                    names.append(nm)
                    self.env[t.id] = Val(nm, v.typ[5:], path=t.id)
                    self.narrow.pop(t.id, None)
                pend, self.pending = self.pending, []
                inner = self.block(rest)
                self.pending = pend
                return self.wrap(f'match {v.text} with\n| [{", ".join(names)}] =>\n{_indent(inner)}\n| _ => Except.error "ERR:Value"')
            if not (v.typ.startswith('Tuple') and v.typ.split()[0] == f'Tuple{n}'):
                raise Unsupported(f'`{self.inst.qual}`: tuple assignment from a non-tuple')
            et = v.typ.split(' ', 1)[1]
            tmp = self.gensym('t')
            projs = [f'{tmp}' + '.2' * i + ('.1' if i < n - 1 else '') for i in range(n)]
            for t, pr in zip(tgt.elts, projs):
                if not isinstance(t, ast.Name):
                    raise Unsupported(f'`{self.inst.qual}`: unpacking into `{ast.unparse(t)}`')
                self.env[t.id] = Val(pr, et, path=t.id)
                self.narrow.pop(t.id, None)
            pend, self.pending = self.pending, []
            inner = self.block(rest)
            self.pending = pend
            return self.wrap(f'let {tmp} := {v.text}\n' + inner)
        if isinstance(tgt, ast.Tuple):
            if not isinstance(value, ast.Tuple) or len(value.elts) != len(tgt.elts):
                raise Unsupported(f'`{self.inst.qual}`: tuple assignment from a non-tuple')
            vals = [self.expr(e) for e in value.elts]        # right-hand sides are all evaluated first
            if self.u.hooks.get('wkt_text'):
                for i, (t, v) in enumerate(zip(tgt.elts, vals)):       # element types of `[]` / `{}` inside a tuple assignment
                    if '?' in v.typ and isinstance(t, ast.Name):
                        hint = self.u.hooks.get('local_type', lambda q, n: None)(self.inst.qual, t.id)
                        if not hint:
                            raise Unsupported(f'`{self.inst.qual}`: element type of `{t.id}` is not declared')
                        vals[i] = Val(f'({v.text} : {lean_type(hint)})', hint)
            pairs = list(zip(tgt.elts, vals))
        elif isinstance(tgt, ast.Name) and self.cells_display(tgt.id, value):
            vals = [self.expr(x) for x in value.elts]
            ets = {x.typ for x in vals}
            if len(ets) != 1:
                raise Unsupported(f'`{self.inst.qual}`: list display of several types {sorted(ets)}')
            pairs = [(tgt, Val('(' + ', '.join(x.text for x in vals) + ')', f'Cells{len(vals)} {vals[0].typ}'))]
        else:
            if 'frame' in self.u.hooks:
                self._effect_ok = self.effect_context(value)
            v = self.expr(value, allow_raise=True)
            self._effect_ok = False
            if isinstance(tgt, ast.Name) and isinstance(value, ast.Name) and v.typ.startswith(('List ', 'Set ')) \
                    and {tgt.id, value.id} & _mutated_names(self.fn):
                # locals are translated as values: a second name for a list that is later mutated in place would not follow
                raise Unsupported(f'`{self.inst.qual}`: `{ast.unparse(s)}` aliases a list that is mutated in place')
            if '?' in v.typ and isinstance(tgt, ast.Name):
                hint = self.u.hooks.get('local_type', lambda q, n: None)(self.inst.qual, tgt.id)
                if isinstance(s, ast.AnnAssign) and 'ann_type' in self.u.hooks:
                    hint = self.u.hooks['ann_type'](ast.unparse(s.annotation)) or hint     # `xs: List[T] = []`
                if not hint:
                    raise Unsupported(f'`{self.inst.qual}`: element type of `{tgt.id}` is not declared')
                v = Val(f'({v.text} : {lean_type(hint)})', hint)
            pairs = [(tgt, v)]
        if isinstance(tgt, ast.Tuple) and self.pending and all(isinstance(t, ast.Name) for t, _v in pairs) \
                and not any(getattr(v, 'raises', False) for _t, v in pairs):
            # `a, b = f(x), g(y)` with calls that may raise: they are bound first, in evaluation order, then the names
            pend, self.pending = self.pending, []
            lets = []
            for t, v in pairs:
                nm = self.gensym(lname(t.id))
                lets.append(f'let {nm} := {v.text}')
                self.env[t.id] = Val(nm, v.typ, path=t.id)
                self.narrow.pop(t.id, None)
            inner = self.block(rest)
            self.pending = pend
            return self.wrap('\n'.join(lets + [inner]))
        lets = []
        for t, v in pairs:
            if isinstance(t, ast.Name) and t.id in self.env and self.env[t.id].typ == 'R' and v.typ == 'Int':
                v = Val(f'({v.text} : Rat)', 'R')       # an int literal assigned to a float variable
            if isinstance(t, ast.Name) and t.id in self.env and (self.env[t.id].typ, v.typ) in (('R', 'Nat'), ('Int', 'Nat')) \
                    and not getattr(v, 'raises', False):
                v = Val(f'({v.text} : {lean_type(self.env[t.id].typ)})', self.env[t.id].typ)     # a non-negative int kept at the variable's type
            if isinstance(t, ast.Subscript) and isinstance(t.value, ast.Name) and t.value.id in self.env \
                    and self.env[t.value.id].typ.startswith('Cells') and not getattr(v, 'raises', False):
                # `cells[i] = v` for a literal i: the tuple with that component replaced
                old = self.env[t.value.id]
                n, et = int(old.typ.split()[0][5:]), old.typ.split(' ', 1)[1]
                i = t.slice.value if isinstance(t.slice, ast.Constant) and isinstance(t.slice.value, int) else None
                if i is None or isinstance(i, bool) or not 0 <= i < n:
                    raise Unsupported(f'`{self.inst.qual}`: assignment to `{ast.unparse(t)}`')
                if et == 'R' and v.typ in ('Int', 'Nat'):
                    v = Val(f'({v.text} : Rat)', 'R')
                if v.typ != et:
                    raise Unsupported(f'`{self.inst.qual}`: {v.typ} stored into a list of {et}')
                comps = [v.text if j == i else _cell_proj(old.text, j, n) for j in range(n)]
                nm = self.gensym(lname(t.value.id))
                if self.pending:
                    raise Unsupported(f'`{self.inst.qual}`: raising call in `{ast.unparse(t)} = …`')
                lets.append(f'let {nm} := (' + ', '.join(comps) + ')')
                self.env[t.value.id] = Val(nm, old.typ, path=t.value.id)
                continue
            if isinstance(t, ast.Name):
                if getattr(v, 'raises', False):
                    nm = self.gensym(lname(t.id))
                    self.env[t.id] = Val(nm, v.typ, path=t.id)
                    self.env[t.id].fresh_dict = getattr(v, 'fresh_dict', False)
                    self.narrow.pop(t.id, None)
                    if self.u.hooks.get('geojson_doc'):
                        pend, self.pending = self.pending, []   # raising calls among the arguments are bound before this call
                        inner = self.block(rest)
                        self.pending = pend
                        return self.wrap('\n'.join(lets + [f'match {v.text} with', '| Except.error e => Except.error e', f'| Except.ok {nm} =>', _indent(inner)]))
                    inner = self.block(rest)
                    return '\n'.join(lets + [f'match {v.text} with', '| Except.error e => Except.error e', f'| Except.ok {nm} =>', _indent(inner)])
                nm = self.gensym(lname(t.id))
                if self.pending:
                    self.env[t.id] = Val(nm, v.typ, path=t.id)
                    self.env[t.id].fresh = getattr(v, 'fresh', False)
                    self.env[t.id].fresh_dict = getattr(v, 'fresh_dict', False)
                    self.narrow.pop(t.id, None)
                    pend, self.pending = self.pending, []
                    inner = self.block(rest) if (t, v) == pairs[-1] else None
                    if inner is None:
                        raise Unsupported(f'`{self.inst.qual}`: raising call inside a tuple assignment')
                    self.pending = pend
                    return '\n'.join(lets + [self.wrap(f'let {nm} := {v.text}\n{inner}')])
                lets.append(f'let {nm} := {v.text}')
                self.env[t.id] = Val(nm, v.typ, path=t.id)
                self.env[t.id].fresh = getattr(v, 'fresh', False)
                self.env[t.id].fresh_dict = getattr(v, 'fresh_dict', False)      # (geojson_doc) a dict made here may be stored into
                # `ys = xs` / `ys = self.xs`: a second name for the same list object — growing it would change the other too
                self.env[t.id].alias = isinstance(value, (ast.Name, ast.Attribute)) and v.typ.startswith(('List ', 'Set ', 'DDL '))
                self.narrow.pop(t.id, None)
            elif isinstance(t, ast.Attribute) and isinstance(t.value, ast.Name) and t.value.id == 'self' \
                    and self.inst.qual.endswith('.__init__'):
                self.fields[t.attr] = v
            elif 'frame' in self.u.hooks and isinstance(t, (ast.Attribute, ast.Subscript)) and len(pairs) == 1:
                return self.store_framed(t, v, lets, rest)
            else:
                raise Unsupported(f'`{self.inst.qual}`: assignment to `{ast.unparse(t)}`')
        return '\n'.join(lets + [self.block(rest)])

    def aug_assign(self, s, rest):
        """`x op= v` on a number or a string (immutable values: the same as `x = x op v`), or on a cell of a fixed-length list"""
        t = s.target
        if isinstance(t, ast.Name):
            cur = self.env.get(t.id)
            if cur is None or cur.typ not in ('Nat', 'Int', 'R', 'N', 'Td', 'List Ch'):
                raise Unsupported(f'`{self.inst.qual}`: `{ast.unparse(s)}` on {cur.typ if cur else "an unbound name"}')
            load = ast.Name(id=t.id, ctx=ast.Load())
        elif isinstance(t, ast.Subscript) and isinstance(t.value, ast.Name) and t.value.id in self.env \
                and self.env[t.value.id].typ.startswith('Cells'):
            load = ast.Subscript(value=t.value, slice=t.slice, ctx=ast.Load())
        else:
            raise Unsupported(f'`{self.inst.qual}`: `{ast.unparse(s)}`')
        new = ast.Assign(targets=[t], value=ast.BinOp(left=load, op=s.op, right=s.value))
        return self.assign(ast.fix_missing_locations(ast.copy_location(new, s)), rest)

    def cells_display(self, name, value):
        """`name = [a, b, …]` where, in the whole function, `name` is only ever read or written through a literal subscript
        in range (or re-bound to a display of the same length): the list can not be aliased, resized or escape, so it is
        the tuple of its cells"""
        if not (isinstance(value, ast.List) and value.elts and not any(isinstance(x, ast.Starred) for x in value.elts)):
            return False
        if not self.u.hooks.get('cells'):
            return False
        n, allowed = len(value.elts), set()
        for node in ast.walk(self.fn):
            if isinstance(node, ast.Subscript) and isinstance(node.value, ast.Name) and node.value.id == name \
                    and isinstance(node.slice, ast.Constant) and isinstance(node.slice.value, int) \
                    and not isinstance(node.slice.value, bool) and 0 <= node.slice.value < n:
                allowed.add(id(node.value))
            if isinstance(node, ast.Assign) and len(node.targets) == 1 and isinstance(node.targets[0], ast.Name) \
                    and node.targets[0].id == name and isinstance(node.value, ast.List) and len(node.value.elts) == n \
                    and not any(isinstance(x, ast.Starred) for x in node.value.elts):
                allowed.add(id(node.targets[0]))
        return all(id(node) in allowed for node in ast.walk(self.fn) if isinstance(node, ast.Name) and node.id == name)

    def finish_init(self):
        hook = self.u.hooks.get('init')
        if not hook:
            raise Unsupported(f'`{self.inst.qual}`: constructor without a record hook')
        return self.ok(hook(self, self.fields))

    def for_stmt(self, s, rest):
        """`for x in xs: if c: return K` (early exit, nothing else in the body), then the rest"""
        if s.orelse:
            raise Unsupported(f'`{self.inst.qual}`: for/else')
        xs = self.iterable(s.iter)
        if xs.typ.startswith('Set ') and '?' not in xs.typ and self.u.hooks.get('local_defs'):
            xs = Val(xs.text, 'List ' + xs.typ[4:])        # a set is iterated as the list of its elements
        if not xs.typ.startswith('List '):
            raise Unsupported(f'`{self.inst.qual}`: loop over {xs.typ}')
        if getattr(self, 'heap', None) is not None:
            return self.pc_for_store(s, rest, xs)
        pair = isinstance(s.target, ast.Tuple) and len(s.target.elts) == 2 and all(isinstance(t, ast.Name) for t in s.target.elts) \
            and len(_prod_parts(xs.typ[5:])) == 2
        if (isinstance(s.target, ast.Name) or pair) and len(s.body) == 1 and isinstance(s.body[0], ast.If) and not s.body[0].orelse and len(s.body[0].body) == 1 \
                and isinstance(s.body[0].body[0], ast.Return) and isinstance(s.body[0].body[0].value, ast.Constant) \
                and isinstance(s.body[0].body[0].value.value, bool):
            k = s.body[0].body[0].value.value
            x = self.gensym(lname(s.target.id) if not pair else 'pair')
            inner = self.sub()
            inner.fresh = self.fresh
            if pair:
                for i, (t, pt) in enumerate(zip(s.target.elts, _prod_parts(xs.typ[5:]))):
                    inner.env[t.id] = Val(f'{x}.{i + 1}', pt, path=t.id)
            else:
                inner.env[s.target.id] = Val(x, xs.typ[5:], path=s.target.id)
            c = inner.truth(inner.expr(s.body[0].test))
            if inner.pending:
                raise Unsupported(f'`{self.inst.qual}`: a call that may raise inside a loop test')
            self.fresh = inner.fresh
            pend, self.pending = self.pending, []
            after = self.block(rest)
            self.pending = pend
            return self.wrap(f'if ({xs.text}).any (fun {x} => {c}) then {self.ok("true" if k else "false")} else\n{_indent(after)}')
        return self.for_general(s, rest, xs)

    # ---- the collection subset of the `pycoll` units (SrcTrack, SrcMulti) ---------------------------------------------
    #
    # `continue`; `xs.append(e)` where `e` holds calls that may raise; a `defaultdict(list)` as an insertion-ordered
    # association list (`DDL K V`, `d[k].append(v)` = `GV.Py.ddAppend`); lists indexed by an int (`GV.Py.getIdxI`: Python's
    # rule, IndexError outside); float `/` that raises on a zero divisor; `len` / `range` / `sum` / `min(xs)` / `max(xs)` /
    # `list(zip(*rows))`; map and dict comprehensions; conditional expressions with an arm that may raise; and instances that
    # work on a heap of objects (`Heap T`: `pc_for_store`, object-creating calls in `call`).  Lean side: Model/PyColl.lean.

    def pc_stmt(self, s, rest):
        """a statement of the collection subset, or None (then the ordinary translation applies)"""
        if isinstance(s, ast.Continue):
            if self.on_fall is None:
                raise Unsupported(f'`{self.inst.qual}`: `continue` outside a translated loop')
            return self.on_fall(self)             # the next iteration with the current state; what follows is not run
        c = s.value if isinstance(s, ast.Expr) else None
        if isinstance(c, ast.Call) and isinstance(c.func, ast.Attribute) and c.func.attr == 'append' and len(c.args) == 1 \
                and isinstance(c.func.value, ast.Name) and c.func.value.id in self.env \
                and self.env[c.func.value.id].typ.startswith('List '):
            n = c.func.value.id
            v = self.expr(c.args[0])
            old = self.env[n]
            if getattr(old, 'alias', False) or n in [p for p, _t in self.inst.params]:
                raise Unsupported(f'`{self.inst.qual}`: `{n}.append(…)` on a list that is also reachable under another name')
            if old.typ != 'List ' + v.typ:
                raise Unsupported(f'append of {v.typ} to {old.typ}')
            nm = self.gensym(lname(n))
            self.env[n] = Val(nm, old.typ, path=n)
            pend, self.pending = self.pending, []      # raising calls inside the appended value: bound first
            inner = self.block(rest)
            self.pending = pend
            return self.wrap(f'let {nm} := ({old.text} ++ [{v.text}])\n' + inner)
        if isinstance(c, ast.Call) and isinstance(c.func, ast.Attribute) and c.func.attr == 'append' and len(c.args) == 1 \
                and isinstance(c.func.value, ast.Subscript) and isinstance(c.func.value.value, ast.Name) \
                and c.func.value.value.id in self.env and self.env[c.func.value.value.id].typ.startswith('DDL '):
            # `d[k].append(v)` on a local `defaultdict(list)`
            n = c.func.value.value.id
            old = self.env[n]
            kt, vt = _prod_parts('Prod ' + old.typ[4:])
            k = self.expr(c.func.value.slice)
            v = self.expr(c.args[0])
            if (k.typ, v.typ) != (kt, vt):
                raise Unsupported(f'`{ast.unparse(s)}`: ({k.typ}, {v.typ}) into {old.typ}')
            nm = self.gensym(lname(n))
            self.env[n] = Val(nm, old.typ, path=n)
            pend, self.pending = self.pending, []
            inner = self.block(rest)
            self.pending = pend
            return self.wrap(f'let {nm} := (GV.Py.ddAppend {old.text} {_paren(k.text)} {_paren(v.text)})\n' + inner)
        return None

    def pc_expr(self, e):
        """an expression of the collection subset, or None"""
        if isinstance(e, ast.IfExp) and self.static_test(e.test) is None and not self.has_optional_test(e.test):
            if self.inst.raises:
                r = self.pc_ifexp_raising(e)
                if r is not None:
                    return r
            a, b = self.expr(e.body), self.expr(e.orelse)
            if {a.typ, b.typ} == {'R', 'Int'}:
                a, b = self.unify_num(a, b)               # `0 if c else x` next to a float: the same number
            if a.typ != b.typ:
                raise Unsupported(f'conditional expression of types {a.typ} / {b.typ}')
            return Val(f'(if {self.truth(self.expr(e.test))} then {a.text} else {b.text})', a.typ)
        if isinstance(e, ast.BinOp) and isinstance(e.op, ast.Div):
            a, b = self.unify_num(self.expr(e.left), self.expr(e.right))
            if a.typ == b.typ == 'R':
                r = Val(f'(GV.Py.divR {a.text} {b.text})', 'R')              # ZeroDivisionError on a zero divisor
                r.raises = True
                return r
            raise Unsupported(f'`{ast.unparse(e)[:60]}`: {a.typ} / {b.typ}')
        if isinstance(e, ast.Subscript) and not isinstance(e.slice, ast.Slice) and not (
                isinstance(e.slice, ast.Constant) and (isinstance(e.slice.value, str) or isinstance(e.slice.value, int) and e.slice.value >= 0)):
            v = self.expr(e.value)                    # `xs[-1]`, `xs[i]` for an int `i`: Python's index rule
            i = self.expr(e.slice) if v.typ.startswith('List ') else None
            if i is None or i.typ != 'Int':
                raise Unsupported(f'`{self.inst.qual}`: subscript `{ast.unparse(e)}` of {v.typ}')
            r = Val(f'(GV.Py.getIdxI {_paren(v.text)} {i.text})', v.typ[5:])
            r.raises = True
            return r
        if isinstance(e, ast.ListComp) and len(e.generators) == 1 and not e.generators[0].ifs:
            return self.pc_map_comp(e)             # `[f(x) for x in xs]`, `[f(x, y) for x, y in zip(xs, ys)]`
        if isinstance(e, ast.DictComp):
            return self.pc_dict_comp(e)
        if isinstance(e, ast.Call) and isinstance(e.func, ast.Name) and e.func.id not in self.env and not e.keywords:
            f = e.func
            if f.id == 'defaultdict' and len(e.args) == 1 and isinstance(e.args[0], ast.Name) and e.args[0].id == 'list':
                return Val('[]', 'DDL ?')
            if f.id == 'len' and len(e.args) == 1:
                v = self.expr(e.args[0])
                if v.typ.startswith('List '):
                    return Val(f'(GV.Py.len {v.text})', 'Int')
                raise Unsupported(f'len() of {v.typ}')
            if f.id == 'range' and len(e.args) in (1, 2):
                vals = [self.expr(a) for a in e.args]
                if all(v.typ == 'Int' for v in vals):
                    lo = vals[0].text if len(vals) == 2 else '(0 : Int)'
                    return Val(f'(GV.Py.rangeI {lo} {vals[-1].text})', 'List Int')
                raise Unsupported('range() of ' + ', '.join(v.typ for v in vals))
            if f.id == 'sum' and len(e.args) == 1:
                v = self.expr(e.args[0])
                if v.typ == 'List R':
                    return Val(f'(GV.Py.sumR {v.text})', 'R')
                raise Unsupported(f'sum() of {v.typ}')
            if f.id in ('min', 'max') and len(e.args) == 1:
                v = self.expr(e.args[0])
                if v.typ == 'List R':
                    r = Val(f'(GV.Py.{f.id}L {v.text})', 'R')       # the first extremal element; ValueError on an empty sequence
                    r.raises = True
                    return r
                raise Unsupported(f'{f.id}() of {v.typ}')
            if f.id == 'list' and len(e.args) == 1 and isinstance(e.args[0], ast.Call) and isinstance(e.args[0].func, ast.Name) \
                    and e.args[0].func.id == 'zip' and len(e.args[0].args) == 1 and isinstance(e.args[0].args[0], ast.Starred):
                v = self.expr(e.args[0].args[0].value)          # `list(zip(*rows))`: the columns
                parts = _prod_parts(v.typ[5:]) if v.typ.startswith('List Prod ') else []
                if v.typ.startswith('List Tuple4 '):
                    r = Val(f'(GV.Py.unzip4 {v.text})', 'Tuple4 List ' + v.typ.split(' ', 2)[2])
                    r.raises = True                              # unpacking the columns of an empty list: ValueError
                    return r
                if len(parts) != 2:
                    raise Unsupported(f'zip(*…) of {v.typ}')
                r = Val(f'(GV.Py.unzip2 {v.text})', f'Prod {_paren("List " + parts[0])} {_paren("List " + parts[1])}')
                r.raises = True
                return r
            if f.id == 'list' and len(e.args) == 1:
                v = self.expr(e.args[0])
                if v.typ.startswith('List '):
                    return v                                     # `list(xs)` of a list: a list is a value here
                raise Unsupported(f'list() of {v.typ}')
        return None

    def pc_map_comp(self, e):
        """`[f(x) for x in xs]` -> `xs.map`; the element expression must not raise.  In an instance that works on the heap an
        element expression that creates objects threads the heap through the list (`GV.Py.mapH`)."""
        gen = e.generators[0]
        xs = self.expr(gen.iter)
        if not xs.typ.startswith('List '):
            raise Unsupported(f'comprehension over {xs.typ}')
        tgt = gen.target
        pair = isinstance(tgt, ast.Tuple) and len(tgt.elts) == 2 and all(isinstance(t, ast.Name) for t in tgt.elts)
        if not (isinstance(tgt, ast.Name) or pair):
            raise Unsupported(f'`{self.inst.qual}`: comprehension target `{ast.unparse(tgt)}`')
        x = self.gensym(lname(tgt.id) if not pair else 'pair')
        inner = self.sub()
        inner.fresh = self.fresh
        if pair:
            parts = _prod_parts(xs.typ[5:])
            if len(parts) != 2:
                raise Unsupported(f'unpacking {xs.typ[5:]} into two names')
            for i, t in enumerate(tgt.elts):
                inner.env[t.id] = Val(f'{x}.{i + 1}', parts[i], path=t.id)
        else:
            inner.env[tgt.id] = Val(x, xs.typ[5:], path=tgt.id)
        hh = None
        if self.heap is not None:
            hh = inner.gensym('heap')
            inner.heap = hh
        v = inner.expr(e.elt, allow_raise=True)
        if any(not isinstance(n, LetName) for n, _c in inner.pending) or getattr(v, 'raises', False):
            raise Unsupported(f'`{self.inst.qual}`: a call that may raise inside `{ast.unparse(e)[:60]}`')
        if inner.pending:
            if hh is None:
                raise Unsupported(f'`{self.inst.qual}`: object updates inside `{ast.unparse(e)[:60]}`')
            body = inner.wrap(f'({inner.heap}, {v.text})')
            self.fresh = inner.fresh
            nm = self.gensym('hr')
            self.pending.append((LetName(nm), f'GV.Py.mapH (fun {hh} {x} =>\n{_indent(body, 4)}) {self.heap} {xs.text}'))
            self.heap = f'{nm}.1'
            r = Val(f'{nm}.2', 'List ' + v.typ)
            r.fresh = getattr(v, 'fresh', False)
            return r
        self.fresh = inner.fresh
        return Val(f'(({xs.text}).map (fun {x} => {v.text}))', 'List ' + v.typ)

    def pc_dict_comp(self, e):
        """`{k: v for a in xs for k, v in <pairs of a>}` / `{k: v for k, v in <pairs>}`: later pairs overwrite in place"""
        g = e.generators
        last = g[-1]
        ok = (len(g) in (1, 2) and not any(x.ifs for x in g) and isinstance(last.target, ast.Tuple) and len(last.target.elts) == 2
              and all(isinstance(t, ast.Name) for t in last.target.elts)
              and isinstance(e.key, ast.Name) and isinstance(e.value, ast.Name)
              and [e.key.id, e.value.id] == [t.id for t in last.target.elts] and e.key.id != e.value.id
              and (len(g) == 1 or isinstance(g[0].target, ast.Name)))
        if not ok:
            raise Unsupported(f'`{self.inst.qual}`: dict comprehension `{ast.unparse(e)[:80]}`')
        if len(g) == 1:
            pairs = self.expr(last.iter)
            text = pairs.text
        else:
            xs = self.expr(g[0].iter)
            if not xs.typ.startswith('List '):
                raise Unsupported(f'comprehension over {xs.typ}')
            x = self.gensym(lname(g[0].target.id))
            inner = self.sub()
            inner.fresh = self.fresh
            inner.env[g[0].target.id] = Val(x, xs.typ[5:], path=g[0].target.id)
            pairs = inner.expr(last.iter)
            if inner.pending:
                raise Unsupported(f'`{self.inst.qual}`: a call that may raise inside a dict comprehension')
            self.fresh = inner.fresh
            text = f'(({xs.text}).flatMap (fun {x} => {pairs.text}))'
        if pairs.typ != 'List Prod Str PVal':
            raise Unsupported(f'dict comprehension over {pairs.typ}')
        return Val(f'(GV.Py.dictOf {text})', 'Props')

    def pc_ifexp_raising(self, e):
        """`a if c else b` where an arm holds a call that may raise: the call is made only when its arm is chosen"""
        ta, tb = self.sub(), self.sub()
        ta.fresh = tb.fresh = self.fresh + 1000           # scratch translation: names must not collide with the caller's
        try:
            ta.expr(e.body), tb.expr(e.orelse)
        except Unsupported:
            return None
        if not (ta.pending or tb.pending):
            return None
        c = self.truth(self.expr(e.test))                 # the test is evaluated first (its own raising calls are bound outside)
        ta, tb = self.sub(), self.sub()
        ta.fresh = tb.fresh = self.fresh
        a = ta.expr(e.body)
        tb.fresh = ta.fresh
        b = tb.expr(e.orelse)
        self.fresh = tb.fresh
        if {a.typ, b.typ} == {'R', 'Int'}:
            a, b = self.unify_num(a, b)
        if a.typ != b.typ:
            raise Unsupported(f'conditional expression of types {a.typ} / {b.typ}')
        arm_a = ta.wrap(f'Except.ok {_paren(a.text)}')
        arm_b = tb.wrap(f'Except.ok {_paren(b.text)}')
        r = Val(f'(if {c} then\n{_indent(arm_a)}\nelse\n{_indent(arm_b)})', a.typ)
        r.raises = True
        return r

    def pc_for_store(self, s, rest, xs):
        """`for x in xs: x.f = e; x.g = e'` in an instance that works on the heap: every element is replaced by the updated
        record.  Only over a local list of *fresh* objects (built by this function from calls declared to return new
        objects): a store through a list whose elements may be shared is outside the subset."""
        ok = (isinstance(s.target, ast.Name) and isinstance(s.iter, ast.Name) and s.iter.id in self.env and s.body
              and all(isinstance(b, ast.Assign) and len(b.targets) == 1 and isinstance(b.targets[0], ast.Attribute)
                      and isinstance(b.targets[0].value, ast.Name) and b.targets[0].value.id == s.target.id for b in s.body))
        if not ok:
            raise Unsupported(f'`{self.inst.qual}`: loop `{ast.unparse(s)[:60]}` in an instance that works on the heap')
        if not getattr(self.env[s.iter.id], 'fresh', False):
            raise Unsupported(f'`{self.inst.qual}`: attribute stores through `{s.iter.id}`, whose elements may be shared objects')
        elem = xs.typ[5:]
        stores = self.u.hooks.get('stores', {})
        hh, x = self.gensym('heap'), self.gensym(lname(s.target.id))
        inner = self.sub()
        inner.fresh = self.fresh
        inner.heap = hh
        cur = x
        for b in s.body:
            inner.env[s.target.id] = Val(cur, elem, path=None)
            v = inner.expr(b.value)
            field = stores.get((elem, b.targets[0].attr))
            if not field or field[1] != v.typ:
                raise Unsupported(f'`{self.inst.qual}`: store `{ast.unparse(b)}` of {v.typ} into {elem}')
            cur = f'{{ {cur} with {field[0]} := {v.text} }}'
        if any(not isinstance(n, LetName) for n, _c in inner.pending):
            raise Unsupported(f'`{self.inst.qual}`: a call that may raise inside a storing loop')
        body = inner.wrap(f'({inner.heap}, {cur})')
        self.fresh = inner.fresh
        nm = self.gensym('hr')
        call = f'GV.Py.mapH (fun {hh} {x} =>\n{_indent(body, 4)}) {self.heap} {xs.text}'
        self.heap = f'{nm}.1'
        new = Val(f'{nm}.2', xs.typ, path=s.iter.id)
        new.fresh = True
        self.env[s.iter.id] = new
        return f'let {nm} := {call}\n' + self.block(rest)

    def while_stmt(self, s, rest):
        """`while c: body` (assignments only) as a *fuelled* recursion: an auxiliary definition over a `Nat` fuel and the
        assigned variables; fuel 0 and a false condition both continue with the code after the loop.  The fuel handed in at
        the call is the unit's (`hooks['fuel']`): a bound the property proofs show is never exhausted."""
        if 'frame' in self.u.hooks:
            raise Unsupported(f'`{self.inst.qual}`: a loop in a unit that threads object state')
        if s.orelse:
            raise Unsupported(f'`{self.inst.qual}`: while/else')
        assigned = set()
        for n in ast.walk(ast.Module(body=s.body, type_ignores=[])):
            if isinstance(n, (ast.Assign, ast.AugAssign, ast.AnnAssign)):
                for t in (n.targets if isinstance(n, ast.Assign) else [n.target]):
                    for m in ast.walk(t):
                        if isinstance(m, ast.Name):
                            assigned.add(m.id)
            if isinstance(n, (ast.For, ast.While, ast.Break, ast.Continue, ast.Try, ast.With, ast.Return, ast.Raise)):
                raise Unsupported(f'`{self.inst.qual}`: `{type(n).__name__}` inside a while body')
        state = [n for n in self.env if n in assigned]
        if set(state) != assigned and not self.u.hooks.get('body_locals'):
            raise Unsupported(f'`{self.inst.qual}`: while body assigns names that are not defined before the loop')
        # (with `body_locals`: a name first assigned inside the body is local to one iteration — it is not in scope at the
        #  top of the body nor after the loop, so a read that would see the previous iteration's value is rejected as unbound)
        fixed = [n for n in self.env if n not in state and self.env[n].typ not in ('None', 'Kw')]
        loop = f'{self.inst.lean}.loop{len(self.aux) + 1}'
        index = len(self.aux) + 1
        self.aux.append(None)
        slot = len(self.aux) - 1
        fuel_hook = self.u.hooks.get('fuel')
        fuel_t = fuel_hook(self.inst.qual, index) if fuel_hook else None
        if not fuel_t:
            raise Unsupported(f'`{self.inst.qual}`: no fuel declared for while loop {index}')
        fuel_call = fuel_t.format(**{n: self.env[n].text for n in self.env})
        ctx = [n for n, _t in self.u.ctx_params]
        aux = self.sub()
        aux.fresh = self.fresh
        aux.narrow = {}
        fixed_b, state_b = [], []
        for n in fixed:
            nm = aux.gensym(lname(n))
            fixed_b.append((nm, self.env[n].typ))
            aux.env[n] = Val(nm, self.env[n].typ, path=n)
            aux.env[n].alias = getattr(self.env[n], 'alias', False)      # (a second name for a list object stays one)
        for n in state:
            nm = aux.gensym(lname(n))
            state_b.append((nm, self.env[n].typ))
            aux.env[n] = Val(nm, self.env[n].typ, path=n)
            aux.env[n].alias = getattr(self.env[n], 'alias', False)      # (a second name for a list object stays one)
        fuel = aux.gensym('fuel')
        after_tr = aux.sub()
        after_tr.fresh = aux.fresh
        after_tr.on_fall = self.on_fall
        after = after_tr.block(rest)
        body_tr = aux.sub()
        body_tr.fresh = after_tr.fresh
        cond = body_tr.truth(body_tr.expr(s.test))
        if body_tr.pending:
            raise Unsupported(f'`{self.inst.qual}`: a call that may raise in a while test')

        def again(tr):
            return ' '.join([loop] + ctx + [tr.env[n].text for n in fixed] + [fuel] + [_paren(tr.env[n].text) for n in state])
        body_tr.on_fall = again
        body = body_tr.block(list(s.body))
        self.fresh = body_tr.fresh
        binders = ' '.join([f'({n} : {t})' for n, t in self.u.ctx_params] + [f'({n} : {lean_type(t)})' for n, t in fixed_b])
        sig = ' → '.join(['Nat'] + [lean_type(t) for _n, t in state_b] + [lean_type(self.inst.ret)])
        pat = ''.join(f', {n}' for n, _t in state_b)
        self.aux[slot] = '\n'.join([
            f'/-- the `while {ast.unparse(s.test)}` loop of `{self.inst.qual}` (fuelled): state ' + ', '.join(state) + ' -/',
            f'def {loop} {binders} : {sig}',
            f'  | 0{pat} =>', _indent(after, 4),
            f'  | {fuel} + 1{pat} =>',
            f'    if {cond} then', _indent(body, 6), '    else', _indent(after, 6)])
        args = [self.env[n].text for n in fixed] + [_paren(fuel_call)] + [_paren(self.env[n].text) for n in state]
        return self.wrap(' '.join([loop] + ctx + args))

    def while_value(self, s, rest):
        """`while c: body` inside the body of another loop, as a *fuelled* recursion that **returns the loop's state** (the
        variables the body assigns / appends to / pops from); the caller rebinds them and goes on with the statements after
        the loop.  In an instance that may raise the result is in `Except`: the test and the body may raise (`xs[-2]`,
        `xs.pop()`), `A and B` evaluates `B` only when `A` holds, and running out of fuel *while the test still holds* is
        the error "ERR:Fuel" — so an equality `… = Except.ok model` also says the fuel was enough.  The fuel handed in is
        the unit's (`hooks['loop_fuel'](qual, state names)`, else `hooks['fuel'](qual, index)`)."""
        if s.orelse:
            raise Unsupported(f'`{self.inst.qual}`: while/else')
        assigned = set()
        for n in ast.walk(ast.Module(body=s.body, type_ignores=[])):
            if isinstance(n, (ast.Assign, ast.AugAssign, ast.AnnAssign)):
                for t in (n.targets if isinstance(n, ast.Assign) else [n.target]):
                    for m in ast.walk(t):
                        if isinstance(m, ast.Name):
                            assigned.add(m.id)
            if isinstance(n, ast.Expr) and isinstance(n.value, ast.Call) and isinstance(n.value.func, ast.Attribute) \
                    and n.value.func.attr in ('add', 'append', 'pop') and isinstance(n.value.func.value, ast.Name):
                assigned.add(n.value.func.value.id)
            if isinstance(n, (ast.For, ast.While, ast.Break, ast.Continue, ast.Try, ast.With, ast.Return, ast.Raise)):
                raise Unsupported(f'`{self.inst.qual}`: `{type(n).__name__}` inside a nested while body')
        state = [n for n in self.env if n in assigned]
        if set(state) != assigned or not state:
            raise Unsupported(f'`{self.inst.qual}`: nested while body must assign names defined before the loop (assigns {sorted(assigned)})')
        fixed = [n for n in self.env if n not in state and self.env[n].typ not in ('None', 'Kw')]
        index = len(self.aux) + 1
        loop = f'{self.inst.lean}.loop{index}'
        self.aux.append(None)
        slot = len(self.aux) - 1
        fuel_t = None
        if 'loop_fuel' in self.u.hooks:
            fuel_t = self.u.hooks['loop_fuel'](self.inst.qual, list(state))
        if not fuel_t and 'fuel' in self.u.hooks:
            fuel_t = self.u.hooks['fuel'](self.inst.qual, index)
        if not fuel_t:
            raise Unsupported(f'`{self.inst.qual}`: no fuel declared for the nested while loop over {state}')
        fuel_call = fuel_t.format(**{n: self.env[n].text for n in self.env})
        ctx = [n for n, _t in self.u.ctx_params]
        aux = self.sub()
        aux.fresh = self.fresh
        aux.narrow = {}
        aux.pending = []
        fixed_b, state_b = [], []
        for n in fixed:
            nm = aux.gensym(lname(n))
            fixed_b.append((nm, self.env[n].typ))
            aux.env[n] = Val(nm, self.env[n].typ, path=n)
            aux.env[n].alias = getattr(self.env[n], 'alias', False)      # (a second name for a list object stays one)
        for n in state:
            nm = aux.gensym(lname(n))
            state_b.append((nm, self.env[n].typ))
            aux.env[n] = Val(nm, self.env[n].typ, path=n)
            aux.env[n].alias = getattr(self.env[n], 'alias', False)      # (a second name for a list object stays one)
        fuel = aux.gensym('fuel')
        types = [self.env[n].typ for n in state]

        def done(tr):
            for n, t in zip(state, types):
                if tr.env[n].typ != t:
                    raise Unsupported(f'`{self.inst.qual}`: `{n}` changes type in a nested while body ({t} -> {tr.env[n].typ})')
            vals = [tr.env[n].text for n in state]
            return tr.ok(vals[0] if len(vals) == 1 else '(' + ', '.join(vals) + ')')

        def again(tr):
            for n, t in zip(state, types):
                if tr.env[n].typ != t:
                    raise Unsupported(f'`{self.inst.qual}`: `{n}` changes type in a nested while body ({t} -> {tr.env[n].typ})')
            return ' '.join([loop] + ctx + [tr.env[n].text for n in fixed] + [fuel] + [_paren(tr.env[n].text) for n in state])
        zero_tr = aux.sub()
        zero_tr.fresh = aux.fresh
        if self.inst.raises:
            zero = zero_tr.branch(s.test, lambda tr: 'Except.error "ERR:Fuel"', done)
        else:
            zero = done(zero_tr)
        body_tr = aux.sub()
        body_tr.fresh = aux.fresh
        body_tr.on_fall = again

        def run_body(tr):
            tr.on_fall = again
            return tr.block(list(s.body))
        if self.inst.raises:
            succ = body_tr.branch(s.test, run_body, done)
        else:
            cond = body_tr.truth(body_tr.expr(s.test))
            inner = body_tr.sub()
            inner.fresh = body_tr.fresh
            succ = f'if {cond} then\n{_indent(run_body(inner))}\nelse\n{_indent(done(body_tr))}'
        res_t = ' × '.join(_paren(lean_type(t)) for t in types)
        res_t = f'Except String {_paren(res_t)}' if self.inst.raises else res_t
        binders = ' '.join([f'({n} : {t})' for n, t in self.u.ctx_params] + [f'({n} : {lean_type(t)})' for n, t in fixed_b])
        sig = ' → '.join(['Nat'] + [lean_type(t) for _n, t in state_b] + [res_t])
        pat = ''.join(f', {n}' for n, _t in state_b)
        self.aux[slot] = '\n'.join([
            f'/-- the nested `while {ast.unparse(s.test)}` loop of `{self.inst.qual}` (fuelled; returns its state): state ' + ', '.join(state) + ' -/',
            f'def {loop} {binders} : {sig}',
            f'  | 0{pat} =>', _indent(zero, 4),
            f'  | {fuel} + 1{pat} =>', _indent(succ, 4)])
        # --- the call: rebind the state, go on with the statements after the loop
        self.fresh = aux.fresh
        call = ' '.join([loop] + ctx + [self.env[n].text for n in fixed] + [_paren(fuel_call)] + [_paren(self.env[n].text) for n in state])
        res = self.gensym('st')
        lets = []
        if len(state) == 1:
            res = self.gensym(lname(state[0]))
            self.env[state[0]] = Val(res, types[0], path=state[0])
            self.narrow.pop(state[0], None)
        else:
            k = len(state)
            for i, (n, t) in enumerate(zip(state, types)):
                nm = self.gensym(lname(n))
                lets.append(f'let {nm} := {res}' + '.2' * i + ('.1' if i < k - 1 else ''))
                self.env[n] = Val(nm, t, path=n)
                self.narrow.pop(n, None)
        after = '\n'.join(lets + [self.block(rest)])
        if self.inst.raises:
            return f'match {call} with\n| Except.error e => Except.error e\n| Except.ok {res} =>\n{_indent(after)}'
        return f'let {res} := {call}\n{after}'

    def iterable(self, e):
        """the list of values a `for` (or `list(...)`) draws from an iterable expression"""
        if isinstance(e, ast.Call) and isinstance(e.func, ast.Name) and e.func.id == 'reversed' and len(e.args) == 1 and not e.keywords:
            v = self.iterable(e.args[0])
            if not v.typ.startswith('List '):
                raise Unsupported(f'reversed() of {v.typ}')
            return Val(f'(({v.text}).reverse)', v.typ)
        if isinstance(e, ast.Call) and isinstance(e.func, ast.Name) and e.func.id == 'list' and len(e.args) == 1 and not e.keywords:
            return self.iterable(e.args[0])
        v = self.expr(e)
        if not v.typ.startswith('List ') and 'gj_iter' in self.u.hooks:
            v = self.u.hooks['gj_iter'](self, v) or v            # (geojson_doc) iteration over a JSON value
        return v

    def for_general(self, s, rest, xs):
        """A loop with state: an auxiliary structural recursion over the list.  Its parameters are every variable in
        scope (unchanged ones first, then the *state*: the outer variables the body assigns); `[]` continues with the code
        after the loop, `item :: items` runs the body, where falling off the end is the recursive call with the current
        state and `return` leaves the function."""
        if 'frame' in self.u.hooks:
            raise Unsupported(f'`{self.inst.qual}`: a loop in a unit that threads object state')
        if self.u.hooks.get('nested_fold') and self.on_fall is not None and not any(
                isinstance(n, (ast.Return, ast.Raise)) for n in ast.walk(ast.Module(body=s.body, type_ignores=[]))):
            return self.for_fold(s, rest, xs)
        assigned = set()
        for n in ast.walk(ast.Module(body=s.body, type_ignores=[])):
            if isinstance(n, (ast.Assign, ast.AugAssign, ast.AnnAssign)):
                for t in (n.targets if isinstance(n, ast.Assign) else [n.target]):
                    for m in ast.walk(t):
                        if isinstance(m, ast.Name):
                            assigned.add(m.id)
            if isinstance(n, ast.Expr) and isinstance(n.value, ast.Call) and isinstance(n.value.func, ast.Attribute) \
                    and n.value.func.attr in ('add', 'append', 'pop') and isinstance(n.value.func.value, ast.Name):
                assigned.add(n.value.func.value.id)
            if self.u.hooks.get('pycoll') and isinstance(n, ast.Expr) and isinstance(n.value, ast.Call) \
                    and isinstance(n.value.func, ast.Attribute) and n.value.func.attr == 'append' \
                    and isinstance(n.value.func.value, ast.Subscript) and isinstance(n.value.func.value.value, ast.Name):
                assigned.add(n.value.func.value.value.id)          # `d[k].append(v)`
            if isinstance(n, ast.Continue) and self.u.hooks.get('pycoll'):
                continue                                           # the next iteration with the current state (`pc_stmt`)
            if self.u.hooks.get('local_defs') and isinstance(n, ast.Expr) and isinstance(n.value, ast.Call) \
                    and isinstance(n.value.func, ast.Attribute) and n.value.func.attr in ('discard', 'sort') \
                    and isinstance(n.value.func.value, ast.Name):
                assigned.add(n.value.func.value.id)
            if isinstance(n, ast.Continue) and self.u.hooks.get('local_defs'):
                continue                                           # the next iteration with the current state (`ld_stmt`)
            if isinstance(n, (ast.Continue, ast.Try, ast.With)) or isinstance(n, ast.Break) and not self.u.hooks.get('value_semantics'):
                raise Unsupported(f'`{self.inst.qual}`: `{type(n).__name__}` inside a loop body')
        has_break = _has_break(s.body)       # `break`: the code after the loop becomes a definition of its own (`<loop>.after`)
        targets = [s.target.id] if isinstance(s.target, ast.Name) else \
            [t.id for t in s.target.elts if isinstance(t, ast.Name)] if isinstance(s.target, ast.Tuple) else None
        if not targets or (isinstance(s.target, ast.Tuple) and len(targets) != len(s.target.elts)):
            raise Unsupported(f'`{self.inst.qual}`: loop target `{ast.unparse(s.target)}`')
        # (the iterable is evaluated once, before the loop: a name it reads may be *rebound* by the body — unit hook
        # `value_semantics` — but not mutated in place)
        inplace = {n.value.func.value.id for n in ast.walk(ast.Module(body=s.body, type_ignores=[]))
                   if isinstance(n, ast.Expr) and isinstance(n.value, ast.Call) and isinstance(n.value.func, ast.Attribute)
                   and isinstance(n.value.func.value, ast.Name)}
        if any(isinstance(n, ast.Name) and n.id in (inplace if self.u.hooks.get('value_semantics') else assigned)
               for n in ast.walk(s.iter)):
            raise Unsupported(f'`{self.inst.qual}`: the loop body changes what `{ast.unparse(s.iter)}` iterates over')
        state = [n for n in self.env if n in assigned and n not in targets]
        fixed = [n for n in self.env if n not in state and self.env[n].typ not in ('None', 'Kw')]
        elem = xs.typ[5:]
        if self.on_fall is not None and self.u.hooks.get('local_defs'):
            return self.for_nested(s, rest, xs, targets, state, fixed)
        loop = f'{self.inst.lean}.loop{len(self.aux) + 1}'
        self.aux.append(None)                 # reserve the number (nested / later loops count on)
        slot = len(self.aux) - 1
        ctx = [n for n, _t in self.u.ctx_params]
        # --- the auxiliary definition
        aux = self.sub()
        aux.fresh = self.fresh
        aux.narrow = {}
        fixed_b, state_b = [], []
        for n in fixed:
            nm = aux.gensym(lname(n))
            fixed_b.append((nm, self.env[n].typ))
            aux.env[n] = Val(nm, self.env[n].typ, path=n)
            aux.env[n].alias = getattr(self.env[n], 'alias', False)      # (a second name for a list object stays one)
        for n in state:
            nm = aux.gensym(lname(n))
            state_b.append((nm, self.env[n].typ))
            aux.env[n] = Val(nm, self.env[n].typ, path=n)
            aux.env[n].alias = getattr(self.env[n], 'alias', False)      # (a second name for a list object stays one)
        item, items = aux.gensym('item'), aux.gensym('items')
        # [] : the code after the loop
        after_tr = aux.sub()
        after_tr.fresh = aux.fresh
        after_tr.on_fall = self.on_fall
        after_tr.on_break = getattr(self, 'on_break', None)
        after = after_tr.block(rest)
        # item :: items : the body
        body_tr = aux.sub()
        body_tr.fresh = after_tr.fresh
        body_tr.on_break = None
        after_def = []
        # `prune_loop_params`: a variable in scope that neither the body nor the code after the loop reads is not handed to
        # the auxiliary definitions (an extra local in front of the loop does not change their signatures); the unchanged
        # variables are marked in the recursive calls and the marks resolved once both texts are known
        prune = bool(self.u.hooks.get('prune_loop_params'))
        mark = (lambda t: '\x01' + t + '\x02') if prune else (lambda t: t)
        if has_break:
            def leave(tr):
                return ' '.join([f'{loop}.after'] + ctx + [mark(tr.env[n].text) for n in fixed] + [_paren(tr.env[n].text) for n in state])
            after_def = [f'/-- the code after the `for {ast.unparse(s.target)} in {ast.unparse(s.iter)}` loop of `{self.inst.qual}`'
                         ' (reached when the list is exhausted and by `break`), from the state ' + (', '.join(state) or 'none') + ' -/',
                         f'def {loop}.after ' + ' '.join([f'({n} : {t})' for n, t in self.u.ctx_params] +
                                                        [mark(f'({n} : {lean_type(t)})') for n, t in fixed_b] +
                                                        [f'({n} : {lean_type(t)})' for n, t in state_b]) +
                         f' : {lean_type(self.inst.ret)} :=', _indent(after), '']
            after = leave(aux)
            body_tr.on_break = leave
        if isinstance(s.target, ast.Name):
            body_tr.env[targets[0]] = Val(item, elem, path=targets[0])
        else:
            parts = _prod_parts(elem)
            if len(parts) != len(targets):
                raise Unsupported(f'`{self.inst.qual}`: unpacking {elem} into {len(targets)} names')
            for i, (n, t) in enumerate(zip(targets, parts)):
                proj = f'{item}.{i + 1}' if len(parts) == 2 else None
                if proj is None:
                    raise Unsupported('unpacking of wider tuples')
                body_tr.env[n] = Val(proj, t, path=n)

        def next_iteration(tr):
            args = [mark(tr.env[n].text) for n in fixed] + [items] + [_paren(tr.env[n].text) for n in state]
            return ' '.join([loop] + ctx + args)
        body_tr.on_fall = next_iteration
        body = body_tr.block(list(s.body))
        self.fresh = body_tr.fresh
        binders = ' '.join([f'({n} : {t})' for n, t in self.u.ctx_params] + [mark(f'({n} : {lean_type(t)})') for n, t in fixed_b])
        if prune:
            import re as _re
            seen = _re.sub('\x01[^\x02]*\x02', '', '\n'.join(after_def + [after, body]))
            dead = [i for i, (nm, _t) in enumerate(fixed_b)
                    if not _re.search(r"(?<![\w.'])" + _re.escape(nm) + r"(?![\w'])", seen)]

            def resolve(text):
                for i in dead:
                    nm, t = fixed_b[i]
                    text = text.replace(' \x01' + nm + '\x02', '').replace(' \x01' + f'({nm} : {lean_type(t)})' + '\x02', '')
                return text.replace('\x01', '').replace('\x02', '')
            after_def, after, body, binders = [resolve(x) for x in after_def], resolve(after), resolve(body), resolve(binders)
            fixed = [n for i, n in enumerate(fixed) if i not in dead]
        sig = ' → '.join([f'List {(_parenw if self.u.hooks.get("pycoll") else _paren)(lean_type(elem))}'] +
                         [lean_type(t) for _n, t in state_b] + [lean_type(self.inst.ret)])
        pat_state = ''.join(f', {n}' for n, _t in state_b)
        self.aux[slot] = ('\n'.join(after_def + [
            f'/-- the `for {ast.unparse(s.target)} in {ast.unparse(s.iter)}` loop of `{self.inst.qual}`: state ' +
            (', '.join(state) or 'none') + ' -/',
            f'def {loop} {binders} : {sig}',
            f'  | []{pat_state} =>', _indent(after, 4),
            f'  | {item} :: {items}{pat_state} =>', _indent(body, 4)]))
        # --- the call
        args = [self.env[n].text for n in fixed] + [_paren(xs.text)] + [_paren(self.env[n].text) for n in state]
        return self.wrap(' '.join([loop] + ctx + args))

    # ---- the work-list subset (unit hook `worklist`): local sets and dicts that are mutated, loops inside loops ----------
    #
    # hooks (Lean text templates of the unit):  set_add `{x} {s}` · set_pop `{s}` (an `Option`: which element `pop()` returns)
    # · set_union `{f} {xs}` / set_union_e (members that may raise) · dict_append `{d} {k} {v}` · fuel_out (the result when a
    # `while` runs out of fuel with its condition still true).  A `for` loop becomes an auxiliary structural recursion that
    # *returns* the variables its body changes; a `while` loop a fuelled recursion whose continuation is the code after it.

    @staticmethod
    def _mut_base(node):
        """the local a mutating method call acts on: `x.add(..)`, `x.pop()`, `d[k].append(..)`"""
        if isinstance(node, ast.Call) and isinstance(node.func, ast.Attribute):
            v = node.func.value
            if isinstance(v, ast.Subscript):
                v = v.value
            if isinstance(v, ast.Name):
                return v.id, node.func.attr
        return None, None

    def _mutated(self, stmts):
        """names a block of statements may change: assignment targets and receivers of mutating calls"""
        out = set()
        for n in ast.walk(ast.Module(body=list(stmts), type_ignores=[])):
            if isinstance(n, (ast.Assign, ast.AugAssign, ast.AnnAssign)):
                for t in (n.targets if isinstance(n, ast.Assign) else [n.target]):
                    for m in ast.walk(t):
                        if isinstance(m, ast.Name):
                            out.add(m.id)
            if isinstance(n, ast.Call):
                name, attr = self._mut_base(n)
                if name is not None and name in self.env and self.env[name].typ.startswith(('Set ', 'DDict ', 'List ')) \
                        and attr not in ('items', 'keys', 'values', 'get', 'copy'):
                    out.add(name)
        return out

    @staticmethod
    def _names_in(nodes):
        return {m.id for n in nodes for m in ast.walk(n) if isinstance(m, ast.Name)}

    def _bind_let(self, name, typ, text, rest):
        """`let name' := text` followed by the rest, with the raising calls met in `text` bound around both"""
        nm = self.gensym(lname(name))
        self.env[name] = Val(nm, typ, path=name)
        self.narrow.pop(name, None)
        pend, self.pending = self.pending, []
        inner = self.block(rest)
        self.pending = pend
        return self.wrap(f'let {nm} := {text}\n{inner}')

    def ext_stmt(self, s, rest):
        """a statement of the work-list subset, or None (then the ordinary translation applies)"""
        H = self.u.hooks
        if isinstance(s, (ast.Return, ast.Raise)) and getattr(self, 'no_return', False):
            raise Unsupported(f'`{self.inst.qual}`: `{type(s).__name__.lower()}` inside a loop that is read as a state transformer')
        if isinstance(s, ast.Continue):
            if self.on_fall is None:
                raise Unsupported(f'`{self.inst.qual}`: `continue` outside a loop')
            return self.on_fall(self)              # the next iteration, with the current state
        if isinstance(s, ast.While):
            return self.while_worklist(s, rest)
        if isinstance(s, ast.For):
            b = s.body[0] if len(s.body) == 1 else None
            early = isinstance(b, ast.If) and not b.orelse and len(b.body) == 1 and isinstance(b.body[0], ast.Return)
            return None if early else self.for_state(s, rest)
        if isinstance(s, ast.Expr) and isinstance(s.value, ast.Call):
            c = s.value
            name, attr = self._mut_base(c)
            old = self.env.get(name) if name else None
            direct = isinstance(c.func.value, ast.Name) if name else False
            if old is not None and direct and attr == 'add' and old.typ.startswith('Set ') and 'set_add' in H and len(c.args) == 1 \
                    and not c.keywords:
                v = self.expr(c.args[0])
                if old.typ != 'Set ' + v.typ:
                    raise Unsupported(f'`{self.inst.qual}`: add of {v.typ} to {old.typ}')
                return self._bind_let(name, old.typ, '(' + H['set_add'].format(x=_paren(v.text), s=_paren(old.text)) + ')', rest)
            if old is not None and not direct and attr == 'append' and old.typ.startswith('DDict ') and 'dict_append' in H \
                    and len(c.args) == 1 and not c.keywords:
                kt, vt = old.typ.split()[1:3]
                k, v = self.expr(c.func.value.slice), self.expr(c.args[0])     # key first, then the appended value
                if (k.typ, v.typ) != (kt, vt):
                    raise Unsupported(f'`{self.inst.qual}`: `{ast.unparse(s)}`: key {k.typ}, value {v.typ} on {old.typ}')
                return self._bind_let(name, old.typ, '(' + H['dict_append'].format(d=_paren(old.text), k=_paren(k.text),
                                                                                   v=_paren(v.text)) + ')', rest)
            if old is not None and old.typ.startswith(('Set ', 'DDict ')):
                raise Unsupported(f'`{self.inst.qual}`: `{ast.unparse(s)[:80]}` on a local {old.typ.split()[0]}')
            return None
        if isinstance(s, (ast.Assign, ast.AnnAssign)):
            targets, value = ([s.target], s.value) if isinstance(s, ast.AnnAssign) else (s.targets, s.value)
            if len(targets) != 1 or value is None:
                return None
            tgt = targets[0]
            for part in (value.elts if isinstance(value, ast.Tuple) else [value]):
                if isinstance(part, ast.Name) and part.id in self.env and self.env[part.id].typ.startswith(('Set ', 'DDict ')):
                    raise Unsupported(f'`{self.inst.qual}`: `{ast.unparse(s)}` aliases a mutable local')
            name, attr = self._mut_base(value)
            old = self.env.get(name) if name else None
            if old is not None and attr == 'pop' and old.typ.startswith('Set ') and isinstance(value.func.value, ast.Name):
                if 'set_pop' not in H or value.args or value.keywords or not isinstance(tgt, ast.Name) or '?' in old.typ:
                    raise Unsupported(f'`{self.inst.qual}`: `{ast.unparse(s)}`')
                g, q2 = self.gensym(lname(tgt.id)), self.gensym(lname(name))
                self.env[tgt.id] = Val(g, old.typ[4:], path=tgt.id)
                self.env[name] = Val(q2, old.typ, path=name)
                inner = self.block(rest)
                # `set.pop()` removes and returns an arbitrary member; on an empty set it raises KeyError
                return '\n'.join([f'match {H["set_pop"].format(s=_paren(old.text))} with', f'| none => {self.err("KeyError")}',
                                  f'| some {g} =>', f'  let {q2} := ({old.text}).erase {g}', _indent(inner)])
            if isinstance(tgt, ast.Tuple) and isinstance(value, ast.Tuple) and len(tgt.elts) == len(value.elts) \
                    and all(isinstance(t, ast.Name) for t in tgt.elts) and all(self._is_empty_literal(v) for v in value.elts):
                # `a, b = set(), set()`: constants on the right, so the same as one assignment after the other
                return self.block([ast.Assign(targets=[t], value=v) for t, v in zip(tgt.elts, value.elts)] + rest)
        return None

    @staticmethod
    def _is_empty_literal(v):
        return (isinstance(v, ast.Call) and isinstance(v.func, ast.Name) and v.func.id in ('set', 'list', 'dict') and not v.args
                and not v.keywords) or (isinstance(v, (ast.List, ast.Dict)) and not getattr(v, 'elts', getattr(v, 'keys', None)))

    def _loop_frame(self, state, fixed):
        """a sub-translator in which the variables in scope are the binders of an auxiliary definition"""
        aux = self.sub()
        aux.fresh = self.fresh
        aux.narrow = {}
        aux.env = {n: v for n, v in aux.env.items() if n in state or n in fixed or v.typ in ('None', 'Kw')}
        fixed_b, state_b = [], []
        for n in fixed:
            nm = aux.gensym(lname(n))
            fixed_b.append((nm, self.env[n].typ))
            aux.env[n] = Val(nm, self.env[n].typ, path=n)
            aux.env[n].alias = getattr(self.env[n], 'alias', False)      # (a second name for a list object stays one)
        for n in state:
            nm = aux.gensym(lname(n))
            state_b.append((nm, self.env[n].typ))
            aux.env[n] = Val(nm, self.env[n].typ, path=n)
            aux.env[n].alias = getattr(self.env[n], 'alias', False)      # (a second name for a list object stays one)
        return aux, fixed_b, state_b

    def while_worklist(self, s, rest):
        """`while c: body` as a fuelled recursion over the (name-sorted) variables the body changes; the code after the loop is
        its continuation.  Fuel 0 with the condition still true is the unit's `fuel_out` result (else: as if the loop ended)."""
        if s.orelse:
            raise Unsupported(f'`{self.inst.qual}`: while/else')
        if self.on_fall is not None:
            raise Unsupported(f'`{self.inst.qual}`: a `while` inside another loop')
        for n in ast.walk(ast.Module(body=s.body, type_ignores=[])):
            if isinstance(n, (ast.While, ast.Break, ast.Try, ast.With, ast.Global, ast.Nonlocal, ast.Delete, ast.FunctionDef, ast.Lambda)):
                raise Unsupported(f'`{self.inst.qual}`: `{type(n).__name__}` inside a while body')
        mutated = self._mutated(s.body)
        state = sorted(n for n in self.env if n in mutated)
        used = self._names_in([s.test] + list(s.body) + list(rest))
        fixed = [n for n in self.env if n not in state and n in used and self.env[n].typ not in ('None', 'Kw')]
        if any('?' in self.env[n].typ for n in state + fixed):
            raise Unsupported(f'`{self.inst.qual}`: a local of undeclared element type enters a loop')
        index = len(self.aux) + 1
        loop = f'{self.inst.lean}.loop{index}'
        self.aux.append(None)
        slot = len(self.aux) - 1
        fuel_hook = self.u.hooks.get('fuel')
        fuel_t = fuel_hook(self.inst.qual, index) if fuel_hook else None
        if not fuel_t:
            raise Unsupported(f'`{self.inst.qual}`: no fuel declared for while loop {index}')
        fuel_call = fuel_t.format(**{n: self.env[n].text for n in self.env})
        ctx = [n for n, _t in self.u.ctx_params]
        aux, fixed_b, state_b = self._loop_frame(state, fixed)
        fuel = aux.gensym('fuel')
        after_tr = aux.sub()
        after_tr.fresh = aux.fresh
        after_tr.on_fall = None
        after = after_tr.block(rest)
        body_tr = aux.sub()
        body_tr.fresh = after_tr.fresh
        cond = body_tr.truth(body_tr.expr(s.test))
        if body_tr.pending:
            raise Unsupported(f'`{self.inst.qual}`: a call that may raise in a while test')

        def again(tr):
            return ' '.join([loop] + ctx + [tr.env[n].text for n in fixed] + [fuel] + [_paren(tr.env[n].text) for n in state])
        body_tr.on_fall = again
        body = body_tr.block(list(s.body))
        self.fresh = body_tr.fresh
        out = self.u.hooks.get('fuel_out')
        if out and not self.inst.raises:
            raise Unsupported(f'`{self.inst.qual}`: running out of fuel needs a result type that can say so')
        zero = [f'    if {cond} then', _indent(out, 6), '    else', _indent(after, 6)] if out else [_indent(after, 4)]
        binders = ' '.join([f'({n} : {t})' for n, t in self.u.ctx_params] + [f'({n} : {lean_type(t)})' for n, t in fixed_b])
        sig = ' → '.join(['Nat'] + [lean_type(t) for _n, t in state_b] + [lean_type(self.inst.ret)])
        pat = ''.join(f', {n}' for n, _t in state_b)
        self.aux[slot] = '\n'.join([
            f'/-- the `while {ast.unparse(s.test)}` loop of `{self.inst.qual}` (fuelled): state ' + ', '.join(state) + ' -/',
            f'def {loop} {binders} : {sig}',
            f'  | 0{pat} =>'] + zero + [
            f'  | {fuel} + 1{pat} =>',
            f'    if {cond} then', _indent(body, 6), '    else', _indent(after, 6)])
        args = [self.env[n].text for n in fixed] + [_paren(fuel_call)] + [_paren(self.env[n].text) for n in state]
        return self.wrap(' '.join([loop] + ctx + args))

    def for_state(self, s, rest):
        """`for x in xs: body` (no `return` / `raise` / `break` in the body) as an auxiliary structural recursion over `xs`
        that returns the (name-sorted) variables the body changes; `continue` and the end of the body are the next iteration."""
        if s.orelse:
            raise Unsupported(f'`{self.inst.qual}`: for/else')
        for n in ast.walk(ast.Module(body=s.body, type_ignores=[])):
            if isinstance(n, (ast.While, ast.Break, ast.Try, ast.With, ast.Return, ast.Raise, ast.Global, ast.Nonlocal, ast.Delete,
                              ast.FunctionDef, ast.Lambda, ast.Yield, ast.YieldFrom)):
                raise Unsupported(f'`{self.inst.qual}`: `{type(n).__name__}` inside the body of a loop with state')
        xs = self.expr(s.iter)
        if not xs.typ.startswith(('List ', 'Set ')) or '?' in xs.typ:
            raise Unsupported(f'`{self.inst.qual}`: loop over {xs.typ}')
        elem = xs.typ.split(' ', 1)[1]
        if not isinstance(s.target, ast.Name):
            raise Unsupported(f'`{self.inst.qual}`: loop target `{ast.unparse(s.target)}`')
        target = s.target.id
        mutated = self._mutated(s.body)
        if target in mutated:
            raise Unsupported(f'`{self.inst.qual}`: the loop variable `{target}` is changed in the body')
        state = sorted(n for n in self.env if n in mutated)
        if not state:
            raise Unsupported(f'`{self.inst.qual}`: a loop whose body changes nothing that is visible after it')
        used = self._names_in(s.body)
        fixed = [n for n in self.env if n not in state and n != target and n in used and self.env[n].typ not in ('None', 'Kw')]
        if any('?' in self.env[n].typ for n in state + fixed):
            raise Unsupported(f'`{self.inst.qual}`: a local of undeclared element type enters a loop')
        loop = f'{self.inst.lean}.loop{len(self.aux) + 1}'
        self.aux.append(None)
        slot = len(self.aux) - 1
        ctx = [n for n, _t in self.u.ctx_params]
        aux, fixed_b, state_b = self._loop_frame(state, fixed)
        rlean = ' × '.join(_paren(lean_type(t)) for _n, t in state_b)
        aux.inst = Inst(self.inst.qual, self.inst.lean, self.inst.params, 'LoopState')      # no `return`, nothing may raise
        aux.no_return = True
        item, items = aux.gensym('item'), aux.gensym('items')

        def result(tr):
            return '(' + ', '.join(tr.env[n].text for n in state) + ')' if len(state) > 1 else tr.env[state[0]].text

        def next_iteration(tr):
            return ' '.join([loop] + ctx + [tr.env[n].text for n in fixed] + [items] + [_paren(tr.env[n].text) for n in state])
        body_tr = aux.sub()
        body_tr.fresh = aux.fresh
        body_tr.env[target] = Val(item, elem, path=target)
        body_tr.on_fall = next_iteration
        body = body_tr.block(list(s.body))
        if body_tr.pending:
            raise Unsupported(f'`{self.inst.qual}`: a call that may raise inside the body of a loop with state')
        self.fresh = body_tr.fresh
        binders = ' '.join([f'({n} : {t})' for n, t in self.u.ctx_params] + [f'({n} : {lean_type(t)})' for n, t in fixed_b])
        sig = ' → '.join([f'List {_paren(lean_type(elem))}'] + [lean_type(t) for _n, t in state_b] + [rlean])
        pat = ''.join(f', {n}' for n, _t in state_b)
        self.aux[slot] = '\n'.join([
            f'/-- the `for {ast.unparse(s.target)} in {ast.unparse(s.iter)}` loop of `{self.inst.qual}`, as the function from the '
            'state before it to the state after it: state ' + ', '.join(state) + ' -/',
            f'def {loop} {binders} : {sig}',
            f'  | []{pat} =>', _indent(result(aux), 4),
            f'  | {item} :: {items}{pat} =>', _indent(body, 4)])
        # --- the call: bind the state after the loop, then the rest
        call = ' '.join([loop] + ctx + [self.env[n].text for n in fixed] + [_paren(xs.text)] + [_paren(self.env[n].text) for n in state])
        t = self.gensym('st')
        lets = [f'let {t} := {call}']
        k = len(state)
        for i, n in enumerate(state):
            proj = t if k == 1 else t + '.2' * i + ('.1' if i < k - 1 else '')
            nm = self.gensym(lname(n))
            if k > 1:
                lets.append(f'let {nm} := {proj}')
            else:
                lets[0] = f'let {nm} := {call}'
            self.env[n] = Val(nm, self.env[n].typ, path=n)
            self.narrow.pop(n, None)
        pend, self.pending = self.pending, []
        inner = self.block(rest)
        self.pending = pend
        return self.wrap('\n'.join(lets + [inner]))

    def ext_expr(self, e):
        """an expression of the work-list subset, or None"""
        H = self.u.hooks
        if isinstance(e, ast.Set):
            # `{a, b}`: the elements added one after the other to an empty set
            if 'set_add' not in H or any(isinstance(x, ast.Starred) for x in e.elts):
                raise Unsupported(f'`{self.inst.qual}`: set display `{ast.unparse(e)[:60]}`')
            vals = [self.expr(x) for x in e.elts]
            if any(v.typ != vals[0].typ for v in vals):
                raise Unsupported(f'`{self.inst.qual}`: set display of mixed types')
            txt = f'([] : {lean_type("Set " + vals[0].typ)})'
            for v in vals:
                txt = '(' + H['set_add'].format(x=_paren(v.text), s=txt) + ')'
            return Val(txt, 'Set ' + vals[0].typ)
        if isinstance(e, ast.SetComp):
            # `{x for m in ms for x in f(m)}`: the members' sets, added element by element in order
            g = e.generators
            if not (len(g) == 2 and not g[0].ifs and not g[1].ifs and not g[0].is_async and not g[1].is_async
                    and isinstance(g[0].target, ast.Name) and isinstance(g[1].target, ast.Name) and isinstance(e.elt, ast.Name)
                    and e.elt.id == g[1].target.id and g[0].target.id != g[1].target.id and 'set_union' in H):
                raise Unsupported(f'`{self.inst.qual}`: set comprehension other than `{{x for m in ms for x in f(m)}}`')
            ms = self.expr(g[0].iter)
            if not ms.typ.startswith('List '):
                raise Unsupported(f'`{self.inst.qual}`: set comprehension over {ms.typ}')
            m = self.gensym(lname(g[0].target.id))
            inner = self.sub()
            inner.fresh = self.fresh
            inner.env[g[0].target.id] = Val(m, ms.typ[5:], path=g[0].target.id)
            f = inner.expr(g[1].iter, allow_raise=True)
            self.fresh = inner.fresh
            if inner.pending or not f.typ.startswith('Set ') or '?' in f.typ:
                raise Unsupported(f'`{self.inst.qual}`: set comprehension over members of type {f.typ}')
            raises = getattr(f, 'raises', False)
            v = Val('(' + H['set_union_e' if raises else 'set_union'].format(f=f'(fun {m} => {f.text})', xs=_paren(ms.text)) + ')', f.typ)
            v.raises = raises
            return v
        if isinstance(e, ast.DictComp):
            # `{k: f(v) for k, v in d.items()}` over a local dict: the association list mapped in insertion order
            g = e.generators
            it = g[0].iter if len(g) == 1 else None
            if not (it is not None and not g[0].ifs and not g[0].is_async and isinstance(g[0].target, ast.Tuple) and len(g[0].target.elts) == 2
                    and all(isinstance(t, ast.Name) for t in g[0].target.elts) and isinstance(it, ast.Call) and not it.args and not it.keywords
                    and isinstance(it.func, ast.Attribute) and it.func.attr == 'items' and isinstance(it.func.value, ast.Name)
                    and g[0].target.elts[0].id != g[0].target.elts[1].id):
                raise Unsupported(f'`{self.inst.qual}`: dict comprehension other than `{{k: f(v) for k, v in d.items()}}`')
            d = self.expr(it.func.value)
            if not d.typ.startswith('DDict ') or '?' in d.typ:
                raise Unsupported(f'`{self.inst.qual}`: `.items()` of {d.typ}')
            kt, vt = d.typ.split()[1:3]
            p = self.gensym('kv')
            inner = self.sub()
            inner.fresh = self.fresh
            kn, vn = (t.id for t in g[0].target.elts)
            inner.env[kn] = Val(f'{p}.1', kt, path=kn)
            inner.env[vn] = Val(f'{p}.2', 'List ' + vt, path=vn)
            key, val = inner.expr(e.key), inner.expr(e.value)
            self.fresh = inner.fresh
            if inner.pending or key.text != f'{p}.1' or ' ' in val.typ:
                # the keys must stay the dict's own keys (distinct); a computed key could merge entries
                raise Unsupported(f'`{self.inst.qual}`: dict comprehension `{ast.unparse(e)[:80]}`')
            return Val(f'(({d.text}).map (fun {p} => ({key.text}, {val.text})))', f'Dict {kt} {val.typ}')
        if isinstance(e, ast.Call) and isinstance(e.func, ast.Name) and e.func.id == 'defaultdict' and e.func.id not in self.env:
            if len(e.args) == 1 and not e.keywords and isinstance(e.args[0], ast.Name) and e.args[0].id == 'list' and 'list' not in self.env:
                return Val('[]', 'DDict ?')
            raise Unsupported(f'`{self.inst.qual}`: `{ast.unparse(e)[:60]}`')
        if isinstance(e, ast.Call) and isinstance(e.func, ast.Name) and e.func.id in self.env and not e.keywords \
                and self.env[e.func.id].typ.startswith('Fn ') and len(e.args) == 1:
            dom, cod = self.env[e.func.id].typ.split()[1:3]          # a callable local applied to a list
            a = self.expr(e.args[0])
            if a.typ != dom and lean_type(a.typ) == lean_type(dom) and a.typ.startswith('List '):
                return Val(f'({self.env[e.func.id].text} {_paren(a.text)})', cod)
        return None

    # ---- object state (units with a 'frame' hook) -------------------------------------------------------
    # An object is a *reference* into the frame (`hooks['frame']['name']`, a record of heap + objects) that every
    # definition of the unit receives; a store `x.attr = v` / `x.attr[k] = v` / an effectful call (`x.copy()`) rebinds the
    # frame, reads go through the current one.  A method that updates objects returns (frame, reference).  An exception
    # discards the frame, so nothing may raise once an object has been stored to (`check_clean`).
    def frame(self):
        return self.env['__frame__'].text if '__frame__' in self.env else self.u.hooks['frame']['name']

    def set_frame(self, text):
        self.env['__frame__'] = Val(text, 'Kw')

    def check_clean(self, what):
        if '__dirty__' in self.env:
            raise Unsupported(f'`{self.inst.qual}`: `{what[:60]}` may raise after an object was updated (the exceptional state is not modelled)')

    def effect(self, call_text, typ):
        """bind an effectful call `call_text : frame × value`, made now, and continue in the frame it returns"""
        if not getattr(self, '_effect_ok', False):
            raise Unsupported(f'`{self.inst.qual}`: an object-creating call outside `x = <call>` / `x = a if c else <call>`')
        p = LetName(self.gensym('c'))
        self.pending.append((p, call_text))
        self.set_frame(f'{p}.1')
        return Val(f'{p}.2', typ)

    def effect_context(self, value):
        """an expression whose evaluation order is plain: a call on a name, or a conditional between such / names"""
        def simple(x):
            return isinstance(x, (ast.Name, ast.Constant)) or isinstance(x, ast.Attribute) and simple(x.value)
        if isinstance(value, ast.IfExp):
            return (simple(value.test) or isinstance(value.test, ast.UnaryOp) and simple(value.test.operand)) \
                and all(simple(b) or self.effect_context(b) for b in (value.body, value.orelse))
        return isinstance(value, ast.Call) and isinstance(value.func, ast.Attribute) and simple(value.func.value) \
            and all(simple(a) for a in value.args) and not value.keywords

    def ifexp_framed(self, e):
        """`a if c else b` where a branch creates an object: the update stays inside its branch"""
        ok = getattr(self, '_effect_ok', False)
        a_tr, b_tr = self.sub(), self.sub()
        a_tr._effect_ok = b_tr._effect_ok = ok
        a = a_tr.expr(e.body)
        b_tr.fresh = a_tr.fresh
        b = b_tr.expr(e.orelse)
        if not a_tr.pending and not b_tr.pending:
            return None
        if any(not isinstance(n, LetName) for n, _c in a_tr.pending + b_tr.pending):
            raise Unsupported(f'`{self.inst.qual}`: a call that may raise inside `{ast.unparse(e)[:60]}`')
        if a.typ != b.typ:
            raise Unsupported(f'conditional expression of types {a.typ} / {b.typ}')
        self.fresh = b_tr.fresh
        c = self.truth(self.expr(e.test))
        ta = a_tr.wrap(f'({a_tr.frame()}, {a.text})')
        tb = b_tr.wrap(f'({b_tr.frame()}, {b.text})')
        p = LetName(self.gensym('c'))
        self.pending.append((p, f'(if {c} then\n{_indent(ta)}\nelse\n{_indent(tb)})'))
        self.set_frame(f'{p}.1')
        return Val(f'{p}.2', a.typ)

    def store_framed(self, t, v, lets, rest):
        """`x.attr = v`, `x.attr[k] = v` on an object, `d[k] = v` on a local dict value"""
        fr = self.u.hooks['frame']
        if getattr(v, 'raises', False):
            name = self.gensym('r')
            self.pending.append((name, v.text))
            v = Val(name, v.typ)
        if isinstance(t, ast.Subscript) and isinstance(t.value, ast.Name) and t.value.id in self.env:
            d, k = self.env[t.value.id], self.expr(t.slice)
            tmpl = fr.get('setlocal', {}).get((d.typ, k.typ, v.typ))
            if tmpl is None:
                raise Unsupported(f'`{self.inst.qual}`: `{ast.unparse(t)} = …` on {d.typ} at {k.typ}, {v.typ}')
            nm = self.gensym(lname(t.value.id))
            bind = f'let {nm} := {tmpl.format(_paren(d.text), _paren(k.text), _paren(v.text))}'
            self.env[t.value.id] = Val(nm, d.typ, path=t.value.id)
        else:
            if isinstance(t, ast.Subscript):
                if not isinstance(t.value, ast.Attribute):
                    raise Unsupported(f'`{self.inst.qual}`: assignment to `{ast.unparse(t)}`')
                obj, attr, k = self.expr(t.value.value), t.value.attr, self.expr(t.slice)
                tmpl = fr.get('setitem', {}).get((obj.typ, attr, k.typ, v.typ))
                args = [obj, k, v]
            else:
                obj, attr = self.expr(t.value), t.attr
                tmpl = fr.get('setattr', {}).get((obj.typ, attr, v.typ))
                args = [obj, v]
            if tmpl is None:
                raise Unsupported(f'`{self.inst.qual}`: `{ast.unparse(t)} = …` at {", ".join(a.typ for a in args)}')
            if self.inst.value_type != fr['result']:
                raise Unsupported(f'`{self.inst.qual}`: stores to an object but is declared an observation')
            nm = self.gensym(fr['name'])
            bind = f'let {nm} := {tmpl.format(*[_paren(a.text) for a in args], fr=self.frame())}'
            self.set_frame(nm)
            self.env['__dirty__'] = Val('()', 'Kw')
            for path in [p for p in self.narrow if f'.{attr}' in p]:     # what was known about this attribute of any object
                del self.narrow[path]
        pend, self.pending = self.pending, []
        inner = self.block(rest)
        self.pending = pend
        return '\n'.join(lets + [self.wrap(f'{bind}\n{inner}')])

    def ret_framed(self, e):
        fr = self.u.hooks['frame']
        if self.inst.value_type == fr['result']:
            v = self.expr(e)
            if v.typ != fr['ref']:
                raise Unsupported(f'`{self.inst.qual}`: returns {v.typ} where an object is declared')
            return self.wrap(self.ok(f'({self.frame()}, {v.text})'))
        if '__frame__' in self.env:
            raise Unsupported(f'`{self.inst.qual}`: updates an object but is declared an observation')
        if self.inst.value_type == 'N' and isinstance(e, ast.Constant) and isinstance(e.value, (int, float)) \
                and not isinstance(e.value, bool) and e.value == int(e.value):
            return self.wrap(self.ok(f'(Num.ofI ({int(e.value)} : Int))'))        # `return 0.` where a float is declared
        return None

    def for_fold(self, s, rest, xs):
        """A loop *inside another loop's body* that neither returns nor raises: an auxiliary structural recursion over the
        list that returns the tuple of the state variables (the outer variables its body assigns); the enclosing body
        continues with the state re-bound to the components of the result."""
        assigned = set()
        for n in ast.walk(ast.Module(body=s.body, type_ignores=[])):
            if isinstance(n, (ast.Assign, ast.AugAssign, ast.AnnAssign)):
                for t in (n.targets if isinstance(n, ast.Assign) else [n.target]):
                    for m in ast.walk(t):
                        if isinstance(m, ast.Name):
                            assigned.add(m.id)
            if isinstance(n, ast.Expr) and isinstance(n.value, ast.Call):
                raise Unsupported(f'`{self.inst.qual}`: call statement inside a nested loop body')
            if isinstance(n, (ast.While, ast.Break, ast.Continue, ast.Try, ast.With)):
                raise Unsupported(f'`{self.inst.qual}`: `{type(n).__name__}` inside a loop body')
        if not isinstance(s.target, ast.Name):
            raise Unsupported(f'`{self.inst.qual}`: loop target `{ast.unparse(s.target)}`')
        target = s.target.id
        if target in self.env or target in assigned:
            # (after the loop Python leaves the last item in the target: an outer variable of that name would change)
            raise Unsupported(f'`{self.inst.qual}`: nested loop target `{target}` re-binds a variable')
        state = [n for n in self.env if n in assigned and n != target]
        if not state:
            raise Unsupported(f'`{self.inst.qual}`: nested loop without state')
        fixed = [n for n in self.env if n not in state and self.env[n].typ not in ('None', 'Kw')]
        elem = xs.typ[5:]
        loop = f'{self.inst.lean}.loop{len(self.aux) + 1}'
        self.aux.append(None)
        slot = len(self.aux) - 1
        ctx = [n for n, _t in self.u.ctx_params]
        aux = self.sub()
        aux.fresh = self.fresh
        aux.narrow = {}
        fixed_b, state_b = [], []
        for n in fixed:
            nm = aux.gensym(lname(n))
            fixed_b.append((nm, self.env[n].typ))
            aux.env[n] = Val(nm, self.env[n].typ, path=n)
            aux.env[n].alias = getattr(self.env[n], 'alias', False)      # (a second name for a list object stays one)
        for n in state:
            nm = aux.gensym(lname(n))
            state_b.append((nm, self.env[n].typ))
            aux.env[n] = Val(nm, self.env[n].typ, path=n)
            aux.env[n].alias = getattr(self.env[n], 'alias', False)      # (a second name for a list object stays one)
        item, items = aux.gensym('item'), aux.gensym('items')
        done = '(' + ', '.join(nm for nm, _t in state_b) + ')'
        body_tr = aux.sub()
        body_tr.fresh = aux.fresh
        body_tr.env[target] = Val(item, elem, path=target)

        def next_iteration(tr):
            for n in state:
                if tr.env[n].typ != self.env[n].typ:
                    raise Unsupported(f'`{self.inst.qual}`: `{n}` changes type in a loop ({self.env[n].typ} / {tr.env[n].typ})')
            return ' '.join([loop] + ctx + [tr.env[n].text for n in fixed] + [items] + [_paren(tr.env[n].text) for n in state])
        body_tr.on_fall = next_iteration
        body = body_tr.block(list(s.body))
        if 'Except.' in body:
            raise Unsupported(f'`{self.inst.qual}`: a call that may raise inside a nested loop body')
        self.fresh = body_tr.fresh
        binders = ' '.join([f'({n} : {t})' for n, t in self.u.ctx_params] + [f'({n} : {lean_type(t)})' for n, t in fixed_b])
        res_t = ' × '.join(_paren(lean_type(t)) for _n, t in state_b)
        sig = ' → '.join([f'List {_paren(lean_type(elem))}'] + [lean_type(t) for _n, t in state_b] + [res_t])
        pat_state = ''.join(f', {n}' for n, _t in state_b)
        self.aux[slot] = ('\n'.join([
            f'/-- the `for {ast.unparse(s.target)} in {ast.unparse(s.iter)}` loop of `{self.inst.qual}` (nested: returns its state): '
            'state ' + ', '.join(state) + ' -/',
            f'def {loop} {binders} : {sig}',
            f'  | []{pat_state} =>', _indent(done, 4),
            f'  | {item} :: {items}{pat_state} =>', _indent(body, 4)]))
        args = [self.env[n].text for n in fixed] + [_paren(xs.text)] + [_paren(self.env[n].text) for n in state]
        tmp = self.gensym('st')
        k = len(state)
        for i, n in enumerate(state):
            self.env[n] = Val(_cell_proj(tmp, i, k) if k > 1 else tmp, self.env[n].typ, path=n)
            self.narrow.pop(n, None)
        return self.wrap(f'let {tmp} := ' + ' '.join([loop] + ctx + args) + '\n' + self.block(rest))

    # ---- expressions -----------------------------------------------------------------------------------
    def ld_expr(self, e):
        """expressions of the `local_defs` subset; None: not one of them (the common translation applies)"""
        if isinstance(e, ast.Constant) and isinstance(e.value, str) and e.value in self.u.hooks.get('group_labels', {}):
            t, typ = self.u.hooks['group_labels'][e.value]      # a label the unit declares a reading for
            return Val(t, typ)
        if isinstance(e, ast.BinOp) and isinstance(e.op, ast.Div):
            a, b = self.unify_num(self.expr(e.left), self.expr(e.right))
            if a.typ == b.typ == 'R':
                return Val(f'({a.text} / {b.text})', 'R')         # exact division (Python raises on a zero divisor; Lean gives 0)
            raise Unsupported(f'`{ast.unparse(e)[:60]}`: {a.typ} / {b.typ}')
        if isinstance(e, ast.Tuple) and any(isinstance(x, ast.Starred) for x in e.elts):
            return self._expr(ast.List(elts=e.elts, ctx=ast.Load()))     # `(*a, *b)`: only ever used as a sequence
        if isinstance(e, ast.Tuple) and self.u.hooks.get('prod_tuples') and len(e.elts) == 2:
            vals = [self.expr(v) for v in e.elts]
            return Val(f'({vals[0].text}, {vals[1].text})', _mk_prod(vals[0].typ, vals[1].typ))
        if isinstance(e, ast.List) and any(isinstance(x, ast.Starred) for x in e.elts):
            parts, typ = [], None
            for el in e.elts:
                if isinstance(el, ast.Starred):
                    v = self.expr(el.value)
                    pp = _prod_parts(v.typ)
                    if v.typ.startswith('Set ') and '?' not in v.typ:
                        v = Val(v.text, 'List ' + v.typ[4:])          # the elements of a set, as a list
                    elif v.typ.startswith('Prod ') and len(pp) == 2 and pp[0] == pp[1]:
                        v = Val(f'[{_paren(v.text)}.1, {_paren(v.text)}.2]', 'List ' + pp[0])     # `*pair`
                    if not v.typ.startswith('List '):
                        raise Unsupported(f'`*` of {v.typ}')
                    parts.append(v.text)
                    t = v.typ[5:]
                else:
                    v = self.expr(el)
                    parts.append(f'[{v.text}]')
                    t = v.typ
                if typ not in (None, t):
                    raise Unsupported(f'list display of {typ} and {t}')
                typ = t
            return Val('(' + ' ++ '.join(parts) + ')', 'List ' + typ)
        if isinstance(e, ast.ListComp) and self.u.hooks.get('map_comprehensions') and len(e.generators) == 1 \
                and not e.generators[0].ifs and not getattr(e.generators[0], 'is_async', 0):
            g = e.generators
            # `[f(x) for x in xs]` / `[f(x, y) for x, y in xs]` -> `xs.map`; over a 2-tuple -> the pair of the two values
            xs = self.expr(g[0].iter)
            pp = _prod_parts(xs.typ)
            if xs.typ.startswith('Set ') and '?' not in xs.typ:
                xs = Val(xs.text, 'List ' + xs.typ[4:])
            static_pair = xs.typ.startswith('Prod ') and len(pp) == 2 and pp[0] == pp[1]
            if not (xs.typ.startswith('List ') and '?' not in xs.typ or static_pair):
                raise Unsupported(f'comprehension over {xs.typ}')
            elem = pp[0] if static_pair else xs.typ[5:]
            tgt = g[0].target
            x = self.gensym(lname(tgt.id) if isinstance(tgt, ast.Name) else 'pair')
            inner = self.sub()
            inner.fresh = self.fresh
            if isinstance(tgt, ast.Name):
                inner.env[tgt.id] = Val(x, elem, path=tgt.id)
                inner.narrow.pop(tgt.id, None)
            elif isinstance(tgt, ast.Tuple) and len(tgt.elts) == 2 and all(isinstance(t, ast.Name) for t in tgt.elts) \
                    and len(_prod_parts(elem)) == 2 and elem.startswith('Prod '):
                for i, (t, pt) in enumerate(zip(tgt.elts, _prod_parts(elem))):
                    inner.env[t.id] = Val(f'{x}.{i + 1}', pt, path=t.id)
                    inner.narrow.pop(t.id, None)
            else:
                raise Unsupported(f'comprehension target `{ast.unparse(tgt)}` over {xs.typ}')
            v = inner.expr(e.elt)
            if inner.pending:
                raise Unsupported(f'`{self.inst.qual}`: a call that may raise inside a mapping comprehension')
            self.fresh = inner.fresh
            if static_pair:
                return Val(f'(GV.Py.map2 (fun {x} => {v.text}) {_paren(xs.text)})', _mk_prod(v.typ, v.typ))
            return Val(f'(({xs.text}).map (fun {x} => {v.text}))', 'List ' + v.typ)
        if isinstance(e, ast.Call) and isinstance(e.func, ast.Name) and not e.keywords and e.func.id not in self.env:
            f = e.func
            if f.id in self.local_fns:
                return self.lift_local_fn(f.id, self.spread_args(e.args))
            if f.id in self.local_classes:
                return self.local_ctor(f.id, [self.expr(a) for a in e.args])
            if f.id not in self.u.intrinsics:
                if f.id in ('min', 'max') and len(e.args) == 1 and isinstance(e.args[0], ast.List) and e.args[0].elts \
                        and not any(isinstance(x, ast.Starred) for x in e.args[0].elts):
                    vals = [self.expr(x) for x in e.args[0].elts]            # `max([a, b, …])` of floats-as-rationals
                    if all(v.typ == 'R' for v in vals):
                        acc = vals[0].text
                        for v in vals[1:]:
                            acc = f'(GV.{f.id}R {acc} {v.text})'
                        return Val(acc, 'R')
                    raise Unsupported(f'{f.id} of a list of {[v.typ for v in vals]}')
                if f.id == 'abs' and len(e.args) == 1:
                    v = self.expr(e.args[0])
                    if v.typ == 'R':
                        return Val(f'(GV.absR {v.text})', 'R')
                    raise Unsupported(f'abs of {v.typ}')
                if f.id == 'len' and len(e.args) == 1:
                    v = self.expr(e.args[0])
                    if v.typ.startswith(('List ', 'Set ')) and '?' not in v.typ:
                        return Val(f'(({v.text}).length : Int)', 'Int')
                    raise Unsupported(f'len of {v.typ}')
                if f.id == 'set' and len(e.args) == 1:
                    g = e.args[0]
                    v = self.expr(ast.ListComp(elt=g.elt, generators=g.generators)) if isinstance(g, ast.GeneratorExp) else self.expr(g)
                    if v.typ.startswith('Set ') and '?' not in v.typ:
                        v = Val(v.text, 'List ' + v.typ[4:])
                    if not v.typ.startswith('List ') or '?' in v.typ:
                        raise Unsupported(f'set() of {v.typ}')
                    return Val(f'(GV.Py.mkSet {self.elem_eq(v.typ[5:])} {_paren(v.text)})', 'Set ' + v.typ[5:])
        return None

    def ld_compare2(self, a, op, b):
        """lexicographic order of 2-tuples, order of booleans, `==` on tuples of plain data; None: not one of them"""
        if True:
            if a.typ == b.typ and a.typ.startswith('Prod ') and isinstance(op, (ast.Lt, ast.LtE, ast.Gt, ast.GtE)) \
                    and len(_prod_parts(a.typ)) == 2:
                # Python compares tuples lexicographically: the first components decide unless they are equal
                pa = _prod_parts(a.typ)
                a1, a2 = Val(f'{_paren(a.text)}.1', pa[0]), Val(f'{_paren(a.text)}.2', pa[1])
                b1, b2 = Val(f'{_paren(b.text)}.1', pa[0]), Val(f'{_paren(b.text)}.2', pa[1])
                strict = ast.Lt() if isinstance(op, (ast.Lt, ast.LtE)) else ast.Gt()
                e1, s1, r2 = self.compare2(a1, ast.Eq(), b1), self.compare2(a1, strict, b1), self.compare2(a2, op, b2)
                return Val(f'(if {e1.text} then {r2.text} else {s1.text})', 'Bool')
            if a.typ == b.typ == 'Bool' and isinstance(op, (ast.Lt, ast.LtE, ast.Gt, ast.GtE)):
                t = {ast.Lt: '(!{0} && {1})', ast.LtE: '(!{0} || {1})', ast.Gt: '({0} && !{1})', ast.GtE: '({0} || !{1})'}[type(op)]
                return Val(t.format(a.text, b.text), 'Bool')              # False < True
            if a.typ == b.typ and a.typ.startswith('Prod ') and isinstance(op, (ast.Eq, ast.NotEq)) and _is_data(a.typ):
                return Val(f'({a.text} {"==" if isinstance(op, ast.Eq) else "!="} {b.text})', 'Bool')
        return None

    def for_nested(self, s, rest, xs, targets, state, fixed):
        """A loop (without state) inside a loop body: the auxiliary recursion returns `some v` where the body says
        `return v` and `none` when the list is exhausted; the enclosing body goes on with the code after the loop in the
        second case (so that it can still reach its own next iteration)."""
        if state:
            raise Unsupported(f'`{self.inst.qual}`: a loop nested in a loop body that assigns outer variables ({", ".join(state)})')
        if self.inst.raises or self.inst.ret.startswith('Opt ') or self.inst.ret == '?':
            raise Unsupported(f'`{self.inst.qual}`: a nested loop in a function returning {self.inst.ret}')
        if len(targets) != 1 or not isinstance(s.target, ast.Name):
            raise Unsupported(f'`{self.inst.qual}`: nested loop target `{ast.unparse(s.target)}`')
        elem = xs.typ[5:]
        loop = f'{self.inst.lean}.loop{len(self.aux) + 1}'
        self.aux.append(None)
        slot = len(self.aux) - 1
        ctx = [n for n, _t in self.u.ctx_params]
        aux = self.sub()
        aux.fresh = self.fresh
        aux.narrow = {}
        aux.inst = Inst(self.inst.qual, self.inst.lean, self.inst.params, 'Opt ' + self.inst.ret, self.inst.doc)
        fixed_b = []
        for n in fixed:
            nm = aux.gensym(lname(n))
            fixed_b.append((nm, self.env[n].typ))
            aux.env[n] = Val(nm, self.env[n].typ, path=n)
        item, items = aux.gensym('item'), aux.gensym('items')
        aux.env[targets[0]] = Val(item, elem, path=targets[0])
        aux.on_fall = lambda tr: ' '.join([loop] + ctx + [tr.env[n].text for n in fixed] + [items])
        body = aux.block(list(s.body))
        self.fresh = aux.fresh
        binders = ' '.join([f'({n} : {t})' for n, t in self.u.ctx_params] + [f'({n} : {lean_type(t)})' for n, t in fixed_b])
        self.aux[slot] = '\n'.join([
            f'/-- the `for {ast.unparse(s.target)} in {ast.unparse(s.iter)}` loop of `{self.inst.qual}` (inside a loop body): '
            '`some v` = `return v`, `none` = exhausted -/',
            f'def {loop} {binders} : List {_paren(lean_type(elem))} → {lean_type(aux.inst.ret)}',
            '  | [] =>', '    none',
            f'  | {item} :: {items} =>', _indent(body, 4)])
        call = ' '.join([loop] + ctx + [self.env[n].text for n in fixed] + [_paren(xs.text)])
        r = self.gensym('r')
        pend, self.pending = self.pending, []
        after = self.block(rest)
        self.pending = pend
        return self.wrap(f'match {call} with\n| some {r} => {self.ok(r)}\n| none =>\n{_indent(after)}')

    # ---- vertex generators of the curved shapes (unit hook `curved_gen`, unit SrcCurvedGen) --------------------------
    #
    # the sample count `k` is a `Nat` (`kwargs.get('k')`: absent and 0 are both falsy, so the `**kwargs` binder *is* that
    # number, 0 when absent); `X or D` on such a number is `if X = 0 then D else X` with `D` read as a `Nat` (a negative
    # default clamps to 0: the model's reading); `range(k, -1, -1)` is the model's `schedule k`; a counter next to a float
    # is `Num.ofN`; a call `self.m(**kwargs)` / `self.m()` of an instance declared with a `kw` binder passes the caller's
    # number / 0.

    def cv_unify(self, a, b):
        if a.typ == 'N' and b.typ == 'Nat':
            return a, Val(f'(Num.ofN {b.text})', 'N')
        if a.typ == 'Nat' and b.typ == 'N':
            return Val(f'(Num.ofN {a.text})', 'N'), b
        return a, b

    def cv_nat(self, node, v):
        """an int-valued default read as a sample count"""
        if v.typ == 'Nat':
            return v.text
        if v.typ == 'Int':
            c = _int_const(node)
            if c is not None and c >= 0:
                return f'({c} : Nat)'
            return f'(Int.toNat {v.text})'
        raise Unsupported(f'`{self.inst.qual}`: `{ast.unparse(node)[:60]}` ({v.typ}) as a sample count')

    def cv_assert(self, s, rest):
        if not self.inst.raises:
            raise Unsupported(f'`{self.inst.qual}`: `{ast.unparse(s)[:60]}` (AssertionError) in an instance declared not to raise')
        c = self.truth(self.expr(s.test))
        pend, self.pending = self.pending, []
        after = self.block(rest)
        self.pending = pend
        return self.wrap(f'if {c} then\n{_indent(after)}\nelse\n  Except.error "ERR:Other:AssertionError"')

    def cv_expr(self, e):
        if isinstance(e, ast.ListComp) and len(e.generators) == 1 and not e.generators[0].ifs and not e.generators[0].is_async \
                and isinstance(e.generators[0].target, ast.Tuple) and len(e.generators[0].target.elts) == 2 \
                and all(isinstance(t, ast.Name) for t in e.generators[0].target.elts):
            # `[f(x, y) for x, y in zip(xs, ys)]`: a map over the list of pairs
            g = e.generators[0]
            xs = self.expr(g.iter)
            parts = _prod_parts(xs.typ[5:]) if xs.typ.startswith('List Prod ') else None
            if not parts or len(parts) != 2:
                raise Unsupported(f'`{self.inst.qual}`: comprehension with a pair target over {xs.typ}')
            p = self.gensym('pair')
            inner = self.sub()
            inner.fresh = self.fresh
            for i, (t, pt) in enumerate(zip(g.target.elts, parts)):
                inner.env[t.id] = Val(f'{p}.{i + 1}', pt, path=t.id)
                inner.narrow.pop(t.id, None)
            el = inner.expr(e.elt)
            if inner.pending:
                raise Unsupported(f'`{self.inst.qual}`: a call that may raise inside a comprehension')
            self.fresh = inner.fresh
            return Val(f'(({xs.text}).map (fun {p} => {el.text}))', 'List ' + el.typ)
        if isinstance(e, ast.BoolOp) and isinstance(e.op, ast.Or) and len(e.values) == 2 and isinstance(e.values[0], ast.Call) \
                and isinstance(e.values[0].func, ast.Attribute) and isinstance(e.values[0].func.value, ast.Name) \
                and e.values[0].func.value.id in self.env and self.env[e.values[0].func.value.id].typ == 'KwK':
            a = self.expr(e.values[0])
            if a.typ != 'Nat':
                raise Unsupported(f'`{self.inst.qual}`: `{ast.unparse(e)[:60]}`: {a.typ} or …')
            b = self.cv_nat(e.values[1], self.expr(e.values[1]))
            return Val(f'(if {a.text} = 0 then {b} else {a.text})', 'Nat')
        if isinstance(e, ast.Call) and isinstance(e.func, ast.Name) and e.func.id in ('min', 'max') and e.func.id not in self.env \
                and len(e.args) == 1 and not e.keywords and not isinstance(e.args[0], ast.GeneratorExp):
            # `min(xs)` / `max(xs)` over a list of floats of the numeric class: first extremal element, ValueError when empty
            a = self.expr(e.args[0])
            if a.typ == 'List N':
                fn = 'GV.Sphere.pyMin' if e.func.id == 'min' else 'GV.Sphere.pyMax'
                r = Val(f'(match {fn} {a.text} with | some v => Except.ok v | none => Except.error "ERR:Value")', 'N')
                r.raises = True
                return r
            raise Unsupported(f'`{self.inst.qual}`: {e.func.id} of {a.typ}')
        if isinstance(e, ast.Call) and isinstance(e.func, ast.Name) and e.func.id == 'range' and 'range' not in self.env:
            if len(e.args) == 3 and not e.keywords and _int_const(e.args[1]) == -1 and _int_const(e.args[2]) == -1:
                a = self.expr(e.args[0])
                if a.typ == 'Nat':
                    return Val(f'(GV.Sphere.schedule {a.text})', 'List Nat')          # k, k-1, …, 0
            raise Unsupported(f'`{self.inst.qual}`: `{ast.unparse(e)}` (only `range(k, -1, -1)` over a sample count)')
        if isinstance(e, ast.Call) and isinstance(e.func, ast.Attribute) and isinstance(e.func.value, ast.Name) \
                and e.func.value.id == 'self' and not e.args:
            recv = self.expr(e.func.value)
            cls = self.u.class_of(recv.typ)
            inst = next((i for i in self.u.insts if cls and i.qual == f'{cls}.{e.func.attr}' and getattr(i, 'kw', None)
                         and len(i.params) == 1), None)
            if inst is not None:
                if not e.keywords:
                    kw = '(0 : Nat)'                                   # no `k`: the callee's default
                elif len(e.keywords) == 1 and e.keywords[0].arg is None and isinstance(e.keywords[0].value, ast.Name) \
                        and self.env.get(e.keywords[0].value.id) is not None and self.env[e.keywords[0].value.id].typ == 'KwK':
                    kw = self.env[e.keywords[0].value.id].text
                else:
                    raise Unsupported(f'`{self.inst.qual}`: keyword arguments in `{ast.unparse(e)[:80]}`')
                v = self.apply(inst, [recv])
                v.text = v.text[:-1] + ' ' + kw + ')'
                return v
        return None

    def truth(self, v):
        """Python truthiness as a Lean Bool"""
        if v.typ == 'Bool':
            return v.text
        if v.typ.startswith('Opt '):
            inner = v.typ[4:]
            if inner in self.u.hooks.get('always_truthy', ()):
                return f'({v.text}).isSome'
            raise Unsupported(f'truthiness of Optional[{inner}]')
        if v.typ == 'Td':
            return f'({v.text} != 0)'
        if v.typ == 'Nat':
            return f'({v.text} != (0 : Nat))'
        if v.typ == 'R':
            return f'({v.text} != 0)'          # a float is falsy exactly when it is zero (no NaN: floats are exact rationals)
        if v.typ in self.u.hooks.get('always_truthy', ()):
            return 'true'
        if v.typ.startswith('List '):
            return f'!({v.text}).isEmpty'
        if v.typ.startswith('Set ') and '?' not in v.typ:
            return f'!({v.text}).isEmpty'
        if 'gj_truth' in self.u.hooks:
            r = self.u.hooks['gj_truth'](self, v)
            if r is not None:
                return r
        raise Unsupported(f'truthiness of {v.typ}')

    def expr(self, e, allow_raise=False):
        v = self._expr(e)
        if getattr(v, 'raises', False):
            self.check_clean(ast.unparse(e))
        if getattr(v, 'raises', False) and not allow_raise:
            if not self.inst.raises:
                raise Unsupported(f'`{self.inst.qual}`: a call that may raise inside an expression: `{ast.unparse(e)}`')
            name = self.gensym('r')
            self.pending.append((name, v.text))
            return Val(name, v.typ)
        return v

    def _expr(self, e):
        if self.u.hooks.get('curved_gen'):
            ext = self.cv_expr(e)                # `kwargs.get('k') or d`, `range(k, -1, -1)`, calls with `**kwargs`: see `cv_expr`
            if ext is not None:
                return ext
        if self.u.hooks.get('geojson_doc'):
            ext = self.gj_expr(e)                # dict displays, slices, `^`, 4-tuples, raising conditional arms, …: see `gj_expr`
            if ext is not None:
                return ext
        if self.u.hooks.get('worklist'):
            ext = self.ext_expr(e)               # set displays / comprehensions, dict comprehensions: see `ext_expr`
            if ext is not None:
                return ext
        if self.u.hooks.get('pycoll'):
            ext = self.pc_expr(e)                # int-indexed lists, `/` that raises, map / dict comprehensions, …: see `pc_expr`
            if ext is not None:
                return ext
        if self.u.hooks.get('wkt_text'):
            ext = self.wk_expr(e)                # strings, sequences, map comprehensions, `{}`: see `wk_expr`
            if ext is not None:
                return ext
        if self.u.hooks.get('local_defs'):
            ext = self.ld_expr(e)                # products, `*pair`, `/`, local calls / constructors, `len`, `set(gen)`, …: see `ld_expr`
            if ext is not None:
                return ext
        if isinstance(e, ast.Name):
            if e.id in self.narrow:
                return self.narrow[e.id]
            if e.id in self.env:
                return self.env[e.id]
            if e.id in self.u.hooks.get('constants', {}):
                t, typ = self.u.hooks['constants'][e.id]
                return Val(t, typ)
            raise Unsupported(f'`{self.inst.qual}`: name `{e.id}`')
        if isinstance(e, ast.Constant):
            if e.value is None:
                return Val('()', 'None')
            if isinstance(e.value, bool):
                return Val('true' if e.value else 'false', 'Bool')
            if isinstance(e.value, int) and e.value >= 0 and self.u.hooks.get('nat_literals'):
                return Val(f'({e.value} : Nat)', 'Nat')          # a non-negative int; widened to Int / Rat where it meets one
            if isinstance(e.value, int):
                return Val(f'({e.value} : Int)', 'Int')
            if isinstance(e.value, str) and self.u.hooks.get('str_as_chars'):
                return Val('([' + ', '.join(f'Char.ofNat {ord(c)}' for c in e.value) + '] : List Char)', 'List Ch')
            if isinstance(e.value, str) and 'str_const' in self.u.hooks:
                return Val(chars_literal(e.value), 'Chars')          # a str is the list of its characters
            if isinstance(e.value, float) and e.value == int(e.value) and 'float_as_int' in self.u.hooks:
                return Val(f'({int(e.value)} : Int)', 'Int')      # 1.0, 2.0 next to the numeric class: the same number
            if isinstance(e.value, str) and 'str_lit' in self.u.hooks and e.value.isascii() and e.value.isprintable() \
                    and '"' not in e.value and '\\' not in e.value:
                return Val(f'"{e.value}"', 'Str')
            raise Unsupported(f'constant {e.value!r}')
        if isinstance(e, ast.Attribute):
            return self.attribute(e)
        if isinstance(e, ast.Compare):
            return self.compare(e)
        if isinstance(e, ast.JoinedStr) and 'str_const' in self.u.hooks:
            return self.fstring(e)
        if isinstance(e, ast.BoolOp):
            # operands decided by the static types of this instance: `True and X` is `X`, `False and X` is `False` (X not evaluated)
            keep, decided = [], None
            for v in e.values:
                st = self.static_test(v) if isinstance(v, (ast.Call, ast.Compare, ast.UnaryOp, ast.Constant)) else None
                if st is None:
                    keep.append(v)
                    continue
                if isinstance(e.op, ast.And) and st is False or isinstance(e.op, ast.Or) and st is True:
                    decided = st
                    break
            if decided is not None and not keep:
                return Val('true' if decided else 'false', 'Bool')
            if decided is None and len(keep) < len(e.values):
                if not keep:
                    return Val('true' if isinstance(e.op, ast.And) else 'false', 'Bool')
                e = keep[0] if len(keep) == 1 else ast.BoolOp(op=e.op, values=keep)
                return self._expr(e)
        if isinstance(e, ast.BoolOp) and self.has_optional_test(e):
            # `x is not None and x.f()` as a value: the same narrowing as in an `if` test
            return Val('(' + self.branch(e, lambda tr: 'true', lambda tr: 'false') + ')', 'Bool')
        if isinstance(e, ast.BoolOp) and self.u.hooks.get('operand_boolop'):
            pend, fresh = list(self.pending), self.fresh
            vals = [self.expr(v) for v in e.values]
            if vals[0].typ.startswith('List ') and all(v.typ == vals[0].typ for v in vals):
                # `xs or ys` returns an operand: the first truthy (non-empty) one, else the last; `and`: the first falsy one
                txt = vals[-1].text
                for v in reversed(vals[:-1]):
                    c = f'!({v.text}).isEmpty' if isinstance(e.op, ast.Or) else f'({v.text}).isEmpty'
                    txt = f'(if {c} then {v.text} else {txt})'
                return Val(txt, vals[0].typ)
            self.pending, self.fresh = pend, fresh
        if isinstance(e, ast.BoolOp):
            vals = [self.expr(v) for v in e.values]
            if not all(v.typ == 'Bool' for v in vals):
                # `a and b` on non-bools returns an operand; only allowed where it is consumed as a truth value
                vals = [Val(self.truth(v), 'Bool') for v in vals]
            op = ' && ' if isinstance(e.op, ast.And) else ' || '
            return Val('(' + op.join(v.text for v in vals) + ')', 'Bool')
        if isinstance(e, ast.UnaryOp) and isinstance(e.op, ast.Not):
            return Val(f'(!{self.truth(self.expr(e.operand))})', 'Bool')
        if isinstance(e, ast.UnaryOp) and isinstance(e.op, ast.USub):
            v = self.expr(e.operand)
            if v.typ in ('Int', 'Td', 'R', 'N'):
                return Val(f'(-{v.text})', v.typ)
        if isinstance(e, ast.IfExp):
            st = self.static_test(e.test)
            if st is True:
                return self.expr(e.body)
            if st is False:
                return self.expr(e.orelse)
            if 'frame' in self.u.hooks:
                r = self.ifexp_framed(e)
                if r is not None:
                    return r
            if self.has_optional_test(e.test):
                # `f(x) if x else None`: a match that binds the narrowed value; both arms brought to one type
                types = []

                def arm(node):
                    def k(tr):
                        v = tr.expr(node)
                        types.append(v.typ)
                        return '\x00' + str(len(types) - 1) + '\x01' + v.text + '\x02'
                    return k
                txt = self.branch(e.test, arm(e.body), arm(e.orelse))
                real = [t for t in types if t != 'None']
                if self.u.hooks.get('geojson_doc') and real and len({t[4:] if t.startswith('Opt ') else t for t in real}) == 1 \
                        and any(t.startswith('Opt ') for t in real):
                    real = ['Opt ' + (real[0][4:] if real[0].startswith('Opt ') else real[0])] * len(real)   # `x.z if x.z is not None else y.z`
                if not real or any(t != real[0] for t in real):
                    raise Unsupported(f'conditional expression of types {types}')
                typ = ('Opt ' + real[0]) if 'None' in types and not real[0].startswith('Opt ') else real[0]
                import re as _re

                def fix(m):
                    t, body = types[int(m.group(1))], m.group(2)
                    if t == 'None':
                        return 'none'
                    return f'some {_paren(body)}' if typ != t else body
                txt = _re.sub('\x00(\\d+)\x01(.*?)\x02', fix, txt, flags=_re.S)
                return Val(f'({txt})', typ)
            a, b = self.expr(e.body), self.expr(e.orelse)
            if a.typ != b.typ:
                raise Unsupported(f'conditional expression of types {a.typ} / {b.typ}')
            return Val(f'(if {self.truth(self.expr(e.test))} then {a.text} else {b.text})', a.typ)
        if isinstance(e, ast.BinOp) and isinstance(e.op, ast.Pow) and isinstance(e.right, ast.Constant) and e.right.value == 2:
            a = self.expr(e.left)
            if a.typ == 'N':
                return Val(f'(GV.Sphere.sqr {a.text})', 'N')          # `x ** 2` (libm pow(x, 2.0), see Model/Num.lean)
            raise Unsupported(f'`** 2` on {a.typ}')
        if isinstance(e, ast.BinOp) and isinstance(e.op, (ast.BitOr, ast.BitAnd)):
            a, b = self.expr(e.left), self.expr(e.right)
            if a.typ == b.typ == 'Nat':           # on non-negative ints `|` and `&` are the bitwise operations of Nat
                return Val(f'({a.text} {"|||" if isinstance(e.op, ast.BitOr) else "&&&"} {b.text})', 'Nat')
            raise Unsupported(f'`{ast.unparse(e)[:60]}`: {a.typ} {type(e.op).__name__} {b.typ}')
        if isinstance(e, ast.BinOp) and isinstance(e.op, (ast.Div, ast.Mod)):
            a, b = self.unify_num(self.expr(e.left), self.expr(e.right))
            if a.typ == b.typ == 'N':
                if isinstance(e.op, ast.Div):
                    return Val(f'({a.text} / {b.text})', 'N')
                return Val(f'(GV.Sphere.pymod {a.text} {b.text})', 'N')      # Python's float `%`
            if a.typ == b.typ == 'R' and isinstance(e.op, ast.Div) and isinstance(e.right, ast.Constant) \
                    and isinstance(e.right.value, (int, float)) and not isinstance(e.right.value, bool) and e.right.value != 0:
                return Val(f'({a.text} / {b.text})', 'R')           # float division by a non-zero literal (cannot raise)
            raise Unsupported(f'`{ast.unparse(e)[:60]}`: {a.typ} {type(e.op).__name__} {b.typ}')
        if isinstance(e, ast.BinOp) and isinstance(e.op, ast.BitXor):
            a, b = self.expr(e.left), self.expr(e.right)
            if a.typ == b.typ == 'Bool':
                return Val(f'(xor {a.text} {b.text})', 'Bool')           # `p ^ q` on bools
            raise Unsupported(f'`{ast.unparse(e)[:60]}`: {a.typ} ^ {b.typ}')
        if isinstance(e, ast.BinOp) and isinstance(e.op, (ast.Add, ast.Sub, ast.Mult)):
            a, b = self.expr(e.left), self.expr(e.right)
            a, b = self.unify_num(a, b)
            sym = {ast.Add: '+', ast.Sub: '-', ast.Mult: '*'}[type(e.op)]
            if a.typ == b.typ == 'Nat':
                if sym == '-':                        # the difference of two non-negative ints is an int
                    return Val(f'(({a.text} : Int) - ({b.text} : Int))', 'Int')
                return Val(f'({a.text} {sym} {b.text})', 'Nat')
            if sym == '+' and (a.typ, b.typ) == ('List Ch', 'Ch'):
                return Val(f'({a.text} ++ [{b.text}])', 'List Ch')          # str + one-character str
            if sym == '+' and (a.typ, b.typ) == ('Ch', 'List Ch'):
                return Val(f'({a.text} :: {b.text})', 'List Ch')
            if sym == '+' and (a.typ, b.typ) == ('Ch', 'Ch'):
                return Val(f'[{a.text}, {b.text}]', 'List Ch')
            if a.typ == b.typ == 'N' or a.typ == b.typ == 'R' or (a.typ == b.typ == 'Int' and sym == '*'):
                return Val(f'({a.text} {sym} {b.text})', a.typ)
            if sym == '+' and a.typ == b.typ and a.typ.startswith('List '):
                return Val(f'({a.text} ++ {b.text})', a.typ)
            if sym == '+' and a.typ == b.typ == 'Chars':
                return Val(f'({a.text} ++ {b.text})', 'Chars')
            if sym == '*' and {a.typ, b.typ} == {'Chars', 'Int'}:
                s_, n_ = (a, b) if a.typ == 'Chars' else (b, a)
                return Val(f'(GV.PyStr.rep {s_.text} {n_.text})', 'Chars')      # `s * n` (empty for n <= 0)
            table = {('Dt', '+', 'Td'): 'Dt', ('Dt', '-', 'Td'): 'Dt', ('Dt', '-', 'Dt'): 'Td', ('Td', '+', 'Td'): 'Td',
                     ('Td', '-', 'Td'): 'Td', ('Int', '+', 'Int'): 'Int', ('Int', '-', 'Int'): 'Int', ('Td', '+', 'Dt'): 'Dt'}
            t = table.get((a.typ, sym, b.typ))
            if t is None:
                raise Unsupported(f'`{ast.unparse(e)}`: {a.typ} {sym} {b.typ}')
            return Val(f'({a.text} {sym} {b.text})', t)
        if isinstance(e, ast.Tuple) and any(isinstance(v, ast.Starred) for v in e.elts) and 'tuples' in self.u.hooks:
            # `(*t, x)`: the components of `t` (bound once), then `x`
            lets, vals = [], []
            for el in e.elts:
                if isinstance(el, ast.Starred):
                    v = self.expr(el.value)
                    tmp = self.gensym('t')
                    lets.append(f'let {tmp} := {v.text}; ')
                    vals += self.components(Val(tmp, v.typ))
                else:
                    vals.append(self.expr(el))
            if len(vals) < 2:
                raise Unsupported(f'tuple `{ast.unparse(e)}`')
            typ = 'Pair ' + vals[0].typ if len(vals) == 2 and vals[0].typ == vals[1].typ else \
                'Prod ' + ' '.join(_paren(v.typ) for v in vals)
            return Val('(' + ''.join(lets) + '(' + ', '.join(v.text for v in vals) + '))', typ)
        if isinstance(e, ast.Tuple):
            vals = [self.expr(v) for v in e.elts]
            if len(vals) == 2 and vals[0].typ == vals[1].typ:
                return Val(f'({vals[0].text}, {vals[1].text})', 'Pair ' + vals[0].typ)
            if len(vals) >= 2 and self.u.hooks.get('value_semantics') and all(v.typ not in ('None', 'Kw') for v in vals):
                return Val('(' + ', '.join(v.text for v in vals) + ')', mk_prod(v.typ for v in vals))      # right-nested
            if len(vals) >= 2 and 'tuples' in self.u.hooks:
                return Val('(' + ', '.join(v.text for v in vals) + ')', 'Prod ' + ' '.join(_paren(v.typ) for v in vals))
            if len(vals) >= 3 and all(v.typ == vals[0].typ for v in vals) and ' ' not in vals[0].typ:
                return Val('(' + ', '.join(v.text for v in vals) + ')', f'Tuple{len(vals)} {vals[0].typ}')
            raise Unsupported(f'tuple `{ast.unparse(e)}`')
        if isinstance(e, ast.List) and not e.elts:
            return Val('[]', 'List ?')
        if isinstance(e, ast.List) and e.elts:
            parts, typ = [], None
            for el in e.elts:
                if isinstance(el, ast.Starred):
                    v = self.expr(el.value)
                    if not v.typ.startswith('List '):
                        raise Unsupported(f'`*` of {v.typ}')
                    parts.append(v.text)
                    t = v.typ[5:]
                else:
                    v = self.expr(el)
                    parts.append(f'[{v.text}]')
                    t = v.typ
                if typ not in (None, t):
                    raise Unsupported(f'list display of {typ} and {t}')
                typ = t
            return Val('(' + ' ++ '.join(parts) + ')', 'List ' + typ)
        if isinstance(e, ast.Subscript):
            v = self.expr(e.value)
            if v.typ == 'Props':
                k = self.expr(e.slice)
                if k.typ != 'Str':
                    raise Unsupported(f'dict lookup with a key of type {k.typ}')
                r = Val(f'(match GV.Coll.assocGet {v.text} {k.text} with | some v => Except.ok v | none => Except.error "ERR:Key")', 'PVal')
                r.raises = True                       # KeyError
                return r
            if v.typ.startswith('Prod ') and len(_prod_parts(v.typ)) > 2 and isinstance(e.slice, ast.Constant) \
                    and isinstance(e.slice.value, int) and not isinstance(e.slice.value, bool) \
                    and 0 <= e.slice.value < len(_prod_parts(v.typ)):
                return self.components(v)[e.slice.value]            # `t[i]` of a wider tuple (right-nested pairs)
            if v.typ == 'Chars':
                return self.chars_subscript(v, e)
            if 'subscript' in self.u.hooks:
                r = self.u.hooks['subscript'](self, v, e.slice)
                if r is not None:
                    return r
            if (v.typ.startswith('Pair ') or v.typ.startswith('Tuple') and ' ' in v.typ) and isinstance(e.slice, ast.Constant) \
                    and isinstance(e.slice.value, int) and not isinstance(e.slice.value, bool):
                n = 2 if v.typ.startswith('Pair ') else int(v.typ.split()[0][5:])
                if 0 <= e.slice.value < n:            # a literal index into a tuple of known width
                    i = e.slice.value
                    return Val(f'{v.text}' + '.2' * i + ('.1' if i < n - 1 else ''), v.typ.split(' ', 1)[1])
            if v.typ.startswith('Prod ') and isinstance(e.slice, ast.Constant) and e.slice.value in (0, 1):
                parts = _prod_parts(v.typ)
                return Val(f'{v.text}.{e.slice.value + 1}', parts[e.slice.value])
            if v.typ.startswith('Cells') and isinstance(e.slice, ast.Constant) and isinstance(e.slice.value, int) \
                    and not isinstance(e.slice.value, bool) and 0 <= e.slice.value < int(v.typ.split()[0][5:]):
                return Val(_cell_proj(v.text, e.slice.value, int(v.typ.split()[0][5:])), v.typ.split(' ', 1)[1])
            items = self.u.hooks.get('items', {})
            if isinstance(e.slice, ast.Constant) and isinstance(e.slice.value, str) and (v.typ, e.slice.value) in items:
                tmpl, typ = items[(v.typ, e.slice.value)]          # a TypedDict with known keys: a record field
                return Val(tmpl.format(v.text), typ)
            if v.typ.startswith('Dict ') and len(v.typ.split()) == 3:
                k = self.expr(e.slice)
                kt, vt = v.typ.split()[1:3]
                if k.typ != kt:
                    raise Unsupported(f'dict lookup with a key of type {k.typ} (keys are {kt})')
                r = Val(f'(match ({v.text}).lookup {k.text} with | some v => Except.ok v | none => Except.error "ERR:Key")', vt)
                r.raises = True                       # KeyError
                return r
            if v.typ.startswith('List ') and not isinstance(e.slice, (ast.Slice, ast.Constant, ast.UnaryOp)) \
                    and self.u.hooks.get('nat_literals'):
                k = self.expr(e.slice)
                if k.typ != 'Nat':
                    raise Unsupported(f'`{self.inst.qual}`: subscript `{ast.unparse(e)}` with an index of type {k.typ}')
                r = Val(f'(match ({v.text})[{k.text}]? with | some v => Except.ok v | none => Except.error "ERR:Index")', v.typ[5:])
                r.raises = True                       # IndexError past the end (the index is non-negative)
                return r
            if v.typ.startswith('List '):
                sl = e.slice
                if isinstance(sl, ast.Slice) and sl.upper is None and sl.step is None and isinstance(sl.lower, ast.Constant) \
                        and isinstance(sl.lower.value, int) and sl.lower.value >= 0:
                    return Val(f'(({v.text}).drop {sl.lower.value})', v.typ)
                if isinstance(sl, ast.Constant) and isinstance(sl.value, int) and sl.value >= 0:
                    r = Val(f'(GV.Py.getIdx {_paren(v.text)} {sl.value})', v.typ[5:])
                    r.raises = True                      # IndexError when the list is too short
                    return r
                if isinstance(sl, ast.Slice) and sl.step is None and _int_const(sl.upper) == -1 \
                        and (sl.lower is None or _int_const(sl.lower) == 0) and self.u.hooks.get('value_semantics'):
                    return Val(f'(({v.text}).dropLast)', v.typ)              # `xs[:-1]`, `xs[0:-1]`
                neg = (lambda x: x.operand.value if isinstance(x, ast.UnaryOp) and isinstance(x.op, ast.USub) and isinstance(x.operand, ast.Constant)
                       and isinstance(x.operand.value, int) and not isinstance(x.operand.value, bool) and x.operand.value >= 1 else None)
                if neg(sl) is not None:
                    r = Val(f'(GV.Py.negIdx {_paren(v.text)} {neg(sl)})', v.typ[5:])      # `xs[-k]`
                    r.raises = True                      # IndexError when the list is too short
                    return r
                if isinstance(sl, ast.Slice) and sl.lower is None and sl.step is None and neg(sl.upper) is not None:
                    return Val(f'(({v.text}).take (({v.text}).length - {neg(sl.upper)}))', v.typ)      # `xs[:-k]`
                if isinstance(sl, ast.Slice) and sl.lower is None and sl.upper is None and neg(sl.step) == 1:
                    return Val(f'(({v.text}).reverse)', v.typ)                                   # `xs[::-1]`
            raise Unsupported(f'`{self.inst.qual}`: subscript `{ast.unparse(e)}` of {v.typ}')
        if isinstance(e, (ast.ListComp, ast.GeneratorExp)) and self.u.hooks.get('value_semantics') and self.is_map_comp(e):
            return self.map_comp(e)
        if isinstance(e, ast.SetComp) and self.u.hooks.get('value_semantics') and self.is_map_comp(e):
            v = self.map_comp(e)                      # `{f(x) for x in xs}` is `set(f(x) for x in xs)`
            return Val(f'(GV.Obj.dedupBy {self.mem_fn(v.typ[5:])} {_paren(v.text)})', 'Set ' + v.typ[5:])
        if isinstance(e, ast.ListComp):
            return self.list_comp(e)
        if isinstance(e, ast.SetComp) and self.u.hooks.get('set_of'):
            g = e.generators
            if len(g) != 1 or g[0].ifs or not isinstance(g[0].target, ast.Name) or g[0].is_async:
                raise Unsupported(f'`{self.inst.qual}`: set comprehension other than `{{f(x) for x in xs}}`')
            xs = self.expr(g[0].iter)
            if not xs.typ.startswith('List '):
                raise Unsupported(f'comprehension over {xs.typ}')
            x = self.gensym(lname(g[0].target.id))
            inner = self.sub()
            inner.fresh = self.fresh
            inner.env[g[0].target.id] = Val(x, xs.typ[5:], path=g[0].target.id)
            elt = inner.expr(e.elt)
            if inner.pending:
                raise Unsupported(f'`{self.inst.qual}`: a call that may raise inside a set comprehension')
            self.fresh = inner.fresh
            return Val(f'({self.u.hooks["set_of"]} (({xs.text}).map (fun {x} => {elt.text})))', 'Set ' + elt.typ)
        if isinstance(e, ast.Call):
            return self.call(e)
        raise Unsupported(f'`{self.inst.qual}`: expression `{ast.unparse(e)[:80]}` ({type(e).__name__})')

    def attribute(self, e):
        path = _path(e)
        if path and path in self.u.hooks.get('constants', {}) and not (isinstance(e.value, ast.Name) and e.value.id in self.env):
            t, typ = self.u.hooks['constants'][path]
            return Val(t, typ)
        if path and path in self.narrow:
            return self.narrow[path]
        base = self.expr(e.value)
        if 'frame' in self.u.hooks and (base.typ, e.attr) in self.u.hooks['frame'].get('getattr', {}):
            tmpl, typ = self.u.hooks['frame']['getattr'][(base.typ, e.attr)]     # a read through the current object state
            return Val(tmpl.format(_paren(base.text), fr=self.frame()), typ, path=(f'{base.path}.{e.attr}' if base.path else None))
        spec = self.u.attr_types.get((base.typ, e.attr))
        if spec:
            tmpl, typ = spec
            return Val(tmpl.format(base.text), typ, path=(f'{base.path}.{e.attr}' if base.path else None))
        cls = self.u.class_of(base.typ)
        if cls and self.u.hooks.get('wkt_text') and 'resolve' in self.u.hooks:
            q = self.u.hooks['resolve'](cls, e.attr)
            if q and self.u.src.is_property(q):
                return self.apply(self.wk_find(q, (), base.typ), [base])
        if cls and (self.u.src.is_property(f'{cls}.{e.attr}') or (f'{cls}.{e.attr}', ()) in self.u.externals):
            inst = self.u.find(f'{cls}.{e.attr}', ())
            return self.apply(inst, [base])
        raise Unsupported(f'`{self.inst.qual}`: attribute `.{e.attr}` of {base.typ}')

    def compare(self, e):
        operands = [e.left] + list(e.comparators)
        vals = [self.literal_seq(x) if i > 0 and isinstance(e.ops[i - 1], (ast.In, ast.NotIn)) and isinstance(x, (ast.Tuple, ast.List))
                and x.elts and 'tuples' in self.u.hooks else self.expr(x) for i, x in enumerate(operands)]
        parts = []
        for (a, op, b) in zip(vals, e.ops, vals[1:]):
            parts.append(self.compare2(a, op, b))
        if any(getattr(p, 'raises', False) for p in parts):
            raise Unsupported('comparison that may raise')
        return Val(parts[0].text if len(parts) == 1 else '(' + ' && '.join(p.text for p in parts) + ')', 'Bool')

    def compare2(self, a, op, b):
        num = ('Dt', 'Td', 'Int')
        if self.u.hooks.get('wkt_text') and isinstance(op, (ast.Is, ast.IsNot)) and b.typ == 'None':
            if a.typ.startswith('Opt '):
                return Val(f'({a.text}).{"isNone" if isinstance(op, ast.Is) else "isSome"}', 'Bool')      # `x is None` as a value
            if a.typ not in ('None', 'Kw') and '?' not in a.typ:
                return Val('false' if isinstance(op, ast.Is) else 'true', 'Bool')       # a value already known to be present
        if self.u.hooks.get('local_defs'):
            r = self.ld_compare2(a, op, b)
            if r is not None:
                return r
        if isinstance(op, (ast.In, ast.NotIn)) and b.typ == 'Props' and a.typ == 'Str':
            r = Val(f'((GV.Coll.assocGet {b.text} {a.text}).isSome)', 'Bool')
            return r if isinstance(op, ast.In) else Val(f'(!{r.text})', 'Bool')
        if isinstance(op, (ast.In, ast.NotIn)) and b.typ.startswith('Dict ') and b.typ.split()[1:2] == [a.typ]:
            r = Val(f'((({b.text}).lookup {a.text}).isSome)', 'Bool')
            return r if isinstance(op, ast.In) else Val(f'(!{r.text})', 'Bool')
        if isinstance(op, (ast.In, ast.NotIn)) and b.typ.startswith('List ') and b.typ[5:] == a.typ:
            r = Val(f'(({b.text}).contains {a.text})', 'Bool')
            return r if isinstance(op, ast.In) else Val(f'(!{r.text})', 'Bool')
        if isinstance(op, (ast.In, ast.NotIn)) and b.typ.startswith('Set '):
            r = Val(f'(({b.text}).contains {a.text})', 'Bool')
            return r if isinstance(op, ast.In) else Val(f'(!{r.text})', 'Bool')
        if isinstance(op, (ast.In, ast.NotIn)) and (b.typ, '__contains__', (a.typ,)) in self.u.abstract:
            tmpl, typ = self.u.abstract[(b.typ, '__contains__', (a.typ,))]
            r = Val('(' + tmpl.format(_paren(b.text), _paren(a.text)) + ')', typ)
            return r if isinstance(op, ast.In) else Val(f'(!{r.text})', 'Bool')
        if isinstance(op, (ast.In, ast.NotIn)) and b.typ == 'Pair ' + a.typ and self.u.hooks.get('value_semantics') \
                and self.eq_fn(a.typ, probe=True):
            # `x in (a, b)`: a tuple is searched left to right with `is` / `==` (identical objects are equal: no NaN)
            f = self.eq_fn(a.typ)
            r = Val(f'(({f} {_paren(a.text)} ({b.text}).1) || ({f} {_paren(a.text)} ({b.text}).2))', 'Bool')
            return r if isinstance(op, ast.In) else Val(f'(!{r.text})', 'Bool')
        if isinstance(op, (ast.Is, ast.IsNot)) and a.typ == b.typ and a.typ in self.u.hooks.get('identity_types', ()):
            # `type(x) is type(y)`: class objects are compared by identity, i.e. the kinds are the same
            return Val(f'({a.text} {"==" if isinstance(op, ast.Is) else "!="} {b.text})', 'Bool')
        if isinstance(op, (ast.In, ast.NotIn)):
            cls = self.u.class_of(b.typ)
            if not cls:
                raise Unsupported(f'`in` on {b.typ}')
            inst = self.u.find(f'{cls}.__contains__', (a.typ,))
            r = self.apply(inst, [b, a])
            return r if isinstance(op, ast.In) else Val(f'(!{r.text})', 'Bool')
        a, b = self.unify_num(a, b)
        if a.typ == b.typ == 'N':
            t = {ast.Lt: '(Num.lt {0} {1})', ast.LtE: '(Num.le {0} {1})', ast.Gt: '(Num.lt {1} {0})',
                 ast.GtE: '(Num.le {1} {0})'}.get(type(op))
            if t is None and self.u.hooks.get('curved_gen') and isinstance(op, (ast.Eq, ast.NotEq)):
                # (curved_gen) float `==` through the class's order: `a <= b and b <= a` (false on NaN, true on 0.0 == -0.0)
                t = '(Num.le {0} {1} && Num.le {1} {0})' if isinstance(op, ast.Eq) else '(!(Num.le {0} {1} && Num.le {1} {0}))'
            if t is None:
                raise Unsupported(f'comparison {type(op).__name__} on the numeric class')
            return Val(t.format(_paren(a.text), _paren(b.text)), 'Bool')
        num = num + ('R', 'Nat')
        if a.typ == b.typ == 'Bool' and isinstance(op, (ast.Eq, ast.NotEq)):
            return Val(f'({a.text} {"==" if isinstance(op, ast.Eq) else "!="} {b.text})', 'Bool')
        if a.typ in num and b.typ == a.typ:
            sym = {ast.Lt: '<', ast.LtE: '≤', ast.Gt: '>', ast.GtE: '≥'}.get(type(op))
            if sym:
                return Val(f'decide ({a.text} {sym} {b.text})', 'Bool')
            if isinstance(op, ast.Eq):
                return Val(f'({a.text} == {b.text})', 'Bool')
            if isinstance(op, ast.NotEq):
                return Val(f'({a.text} != {b.text})', 'Bool')
        if isinstance(op, (ast.Eq, ast.NotEq)) and a.typ == b.typ == 'Pt':
            return Val(f'({a.text} {"==" if isinstance(op, ast.Eq) else "!="} {b.text})', 'Bool')
        if isinstance(op, (ast.Eq, ast.NotEq)):
            cls = self.u.class_of(a.typ)
            if cls and b.typ == a.typ:
                inst = self.u.find(f'{cls}.__eq__', (b.typ,))
                r = self.apply(inst, [a, b])
                return r if isinstance(op, ast.Eq) else Val(f'(!{r.text})', 'Bool')
            hook = self.u.hooks.get('eq')
            if hook:
                r = hook(self, a, b)
                if r is not None:
                    return r if isinstance(op, ast.Eq) else Val(f'(!{r.text})', 'Bool')
            if self.u.hooks.get('value_semantics') and _same_type(a.typ, b.typ) and self.eq_fn(a.typ, probe=True):
                r = Val(f'({self.eq_fn(a.typ)} {_paren(a.text)} {_paren(b.text)})', 'Bool')
                return r if isinstance(op, ast.Eq) else Val(f'(!{r.text})', 'Bool')
        raise Unsupported(f'comparison {a.typ} {type(op).__name__} {b.typ}')

    def unify_num(self, a, b):
        """an int literal next to a float-modelled-as-rational operand is that rational"""
        if self.u.hooks.get('curved_gen'):
            a, b = self.cv_unify(a, b)          # a loop counter (`Nat`) next to a float of the numeric class: `Num.ofN`
        if a.typ == 'N' and b.typ == 'Int':
            return a, Val(f'(Num.ofI {b.text})', 'N')
        if a.typ == 'Int' and b.typ == 'N':
            return Val(f'(Num.ofI {a.text})', 'N'), b
        if a.typ == 'R' and b.typ == 'Int':
            return a, Val(f'({b.text} : Rat)', 'R')
        if a.typ == 'Int' and b.typ == 'R':
            return Val(f'({a.text} : Rat)', 'R'), b
        wide = {'Int': 'Int', 'R': 'Rat'}
        if a.typ == 'Nat' and b.typ in wide:              # a non-negative int next to an int / a float
            return Val(f'({a.text} : {wide[b.typ]})', b.typ), b
        if b.typ == 'Nat' and a.typ in wide:
            return a, Val(f'({b.text} : {wide[a.typ]})', a.typ)
        return a, b


    def apply(self, inst, args):
        if len(args) != len([p for p in inst.params]):
            raise Unsupported(f'`{inst.qual}` applied to {len(args)} arguments, declared {len(inst.params)}')
        ctx = [n for n, _t in self.u.ctx_params] if inst in self.u.insts else []
        if 'frame' in self.u.hooks and ctx:
            if inst.value_type == self.u.hooks['frame']['result']:
                raise Unsupported(f'`{self.inst.qual}`: call of the updating method `{inst.qual}` from a translated method')
            ctx = [_paren(self.frame()) if n == self.u.hooks['frame']['name'] else n for n in ctx]     # the *current* object state
        txt = ' '.join([inst.lean] + ctx + [_paren(a.text) for a, (_n, t) in zip(args, inst.params) if t != 'None'])
        v = Val(f'({txt})', inst.value_type)
        v.raises = inst.raises
        return v

    def call(self, e):
        if self.u.hooks.get('wkt_text'):
            r = self.wk_call(e)                  # class hierarchies, strings, sequences: see `wk_call`
            if isinstance(r, Val):
                return r
            if r is not None:
                e = r                            # the call with its keyword arguments put in their positions
        if e.keywords and not all(k.arg is None for k in e.keywords):
            hook = self.u.hooks.get('keywords')
            if not (hook and hook(self, e)):
                raise Unsupported(f'`{self.inst.qual}`: keyword arguments in `{ast.unparse(e)[:80]}`')
        if self.u.hooks.get('geojson_doc'):
            ext = self.gj_call(e)                # sum / map / list / reversed / len / abs, nested defs, the unit's raw-call hook
            if ext is not None:
                return ext
        f = e.func
        if isinstance(f, ast.Call) and isinstance(f.func, ast.Name) and f.func.id == 'type' and len(f.args) == 1 \
                and 'type_ctor' in self.u.hooks:
            return self.u.hooks['type_ctor'](self, self.expr(f.args[0]), [self.expr(a) for a in e.args])
        if isinstance(f, ast.Name) and f.id in getattr(self, 'localfns', {}) and f.id not in self.env:
            args = self.call_args(e.args)
            inst = self.u.find(self.localfns[f.id], tuple(a.typ for a in args))
            return self.apply(inst, args)
        if isinstance(f, ast.Name) and f.id in self.u.intrinsics and f.id in self.u.hooks.get('intrinsics_first', ()):
            return self.u.intrinsics[f.id](self, self.call_args(e.args))
        if isinstance(f, ast.Name):
            if f.id in ('min', 'max') and len(e.args) == 2:
                a, b = self.expr(e.args[0]), self.expr(e.args[1])
                if a.typ == b.typ and a.typ in ('Dt', 'Td', 'Int'):
                    return Val(f'({f.id} {a.text} {b.text})', a.typ)
                if a.typ == b.typ == 'R':
                    return Val(f'(GV.{f.id}R {a.text} {b.text})', 'R')
                a, b = self.unify_num(a, b)
                if a.typ == b.typ == 'N':
                    # Python returns the first extremal argument: min(a, b) is b only if b < a
                    if f.id == 'min':
                        return Val(f'(if Num.lt {_paren(b.text)} {_paren(a.text)} then {b.text} else {a.text})', 'N')
                    return Val(f'(if Num.lt {_paren(a.text)} {_paren(b.text)} then {b.text} else {a.text})', 'N')
                raise Unsupported(f'{f.id} of {a.typ}, {b.typ}')
            if f.id in ('min', 'max') and len(e.args) == 1 and not e.keywords:
                # `min(xs)` / `min(f(x) for x in xs)`: ValueError on an empty iterable
                a = self.list_comp(e.args[0]) if isinstance(e.args[0], ast.GeneratorExp) else self.expr(e.args[0])
                if a.typ == 'List R':
                    r = Val(f'(GV.Py.{f.id}List {a.text})', 'R')
                    r.raises = True
                    return r
                raise Unsupported(f'{f.id} of {a.typ}')
            if f.id == 'zip' and len(e.args) == 1 and isinstance(e.args[0], ast.Starred):
                # `zip(*rows)` for rows of one known width: the list of columns (no columns at all for no rows)
                a = self.expr(e.args[0].value)
                if a.typ.startswith('List Pair '):
                    return Val(f'(GV.Py.zipStar2 {a.text})', 'List List ' + a.typ[10:])
                if a.typ.startswith('List Tuple4 '):
                    return Val(f'(GV.Py.zipStar4 {a.text})', 'List List ' + a.typ[12:])
                raise Unsupported(f'zip(*…) of {a.typ}')
            if f.id == 'list' and len(e.args) == 1 and not e.keywords:
                a = self.expr(e.args[0])
                if a.typ.startswith('List '):
                    return a
                raise Unsupported(f'list() of {a.typ}')
            if f.id == 'zip' and len(e.args) == 2:
                a, b = self.expr(e.args[0]), self.expr(e.args[1])
                if a.typ.startswith('List ') and b.typ.startswith('List '):
                    return Val(f'(({a.text}).zip {b.text})', f'List Prod {_paren(a.typ[5:])} {_paren(b.typ[5:])}')
                raise Unsupported(f'zip of {a.typ}, {b.typ}')
            if f.id == 'cast' and len(e.args) == 2:
                return self.expr(e.args[1])
            if f.id == 'sorted' and 'sorted' in self.u.hooks:
                return self.u.hooks['sorted'](self, e)
            if f.id == 'len' and len(e.args) == 1 and not e.keywords and 'len' not in self.env and self.u.hooks.get('nat_literals'):
                v = self.expr(e.args[0])
                if v.typ.startswith('List '):
                    return Val(f'(({v.text}).length)', 'Nat')
                raise Unsupported(f'len() of {v.typ}')
            if f.id == 'ord' and len(e.args) == 1 and not e.keywords and 'ord' not in self.env and self.u.hooks.get('nat_literals'):
                v = self.expr(e.args[0])
                if v.typ == 'Ch':
                    return Val(f'(({v.text}).toNat)', 'Nat')
                raise Unsupported(f'ord() of {v.typ}')
            if f.id == 'len' and len(e.args) == 1 and not e.keywords:
                v = self.expr(e.args[0])
                if v.typ.startswith('List '):
                    return Val(f'(Int.ofNat ({v.text}).length)', 'Int')
                raise Unsupported(f'len() of {v.typ}')
            if f.id == 'list' and not e.args and not e.keywords:
                return Val('[]', 'List ?')
            if f.id == 'list' and len(e.args) == 1 and not e.keywords:
                v = self.iterable(e.args[0])
                if v.typ.startswith('List '):
                    return v              # a copy of a list value (lists are values here)
                raise Unsupported(f'list() of {v.typ}')
            if f.id == 'bool' and len(e.args) == 1:
                return Val(self.truth(self.expr(e.args[0])), 'Bool')
            if f.id == 'float' and len(e.args) == 1:
                v = self.expr(e.args[0])
                if v.typ == 'R':
                    return v              # floats are exchanged as exact rationals
                if v.typ == 'Int':
                    return Val(f'({v.text} : Rat)', 'R')
                raise Unsupported(f'float() of {v.typ}')
            if f.id == 'hash' and len(e.args) == 1 and self.u.hooks.get('hash_keys'):
                return self.key_of_expr(e.args[0])    # the *key* of the value handed to hash() (see `key_of`)
            if f.id == 'range' and len(e.args) in (1, 2) and self.u.hooks.get('value_semantics'):
                vals = [self.expr(a) for a in e.args]
                if all(v.typ == 'Int' for v in vals):
                    lo = vals[0].text if len(vals) == 2 else '(0 : Int)'
                    return Val(f'(GV.Py.range {lo} {vals[-1].text})', 'List Int')
                raise Unsupported('range() of ' + ', '.join(v.typ for v in vals))
            if f.id in ('set', 'frozenset') and len(e.args) == 1 and self.u.hooks.get('value_semantics'):
                v = self.expr(e.args[0])
                if v.typ.startswith('List ') and '?' not in v.typ:
                    # building a set from an iterable: an element equal (hash and `==`) to one already there is dropped
                    return Val(f'(GV.Obj.dedupBy {self.mem_fn(v.typ[5:])} {_paren(v.text)})', 'Set ' + v.typ[5:])
                raise Unsupported(f'{f.id}() of {v.typ}')
            if f.id == 'tuple' and len(e.args) == 1 and self.u.hooks.get('value_semantics'):
                v = self.expr(e.args[0])
                if v.typ.startswith('List ') and '?' not in v.typ:
                    return v                          # the same sequence of items (a tuple is compared / hashed item by item)
                raise Unsupported(f'{f.id}() of {v.typ}')
            if f.id == 'type' and len(e.args) == 1 and 'type_of' in self.u.hooks:
                v = self.expr(e.args[0])
                spec = self.u.hooks['type_of'].get(v.typ)
                if spec is None:
                    raise Unsupported(f'type() of {v.typ}')
                return Val(spec[0].format(v.text), spec[1])
            if f.id == 'hash' and len(e.args) == 1:
                return self.expr(e.args[0])           # the value handed to hash()
            if f.id == 'set' and not e.args:
                return Val('[]', 'Set ?')
            if f.id in ('any', 'all') and len(e.args) == 1 and isinstance(e.args[0], ast.GeneratorExp):
                return self.any_all(f.id, e.args[0])
            if f.id == 'isinstance':
                st = self.static_test(e)
                return Val('true' if st else 'false', 'Bool')
            if f.id in self.env and self.env[f.id].typ.startswith('Fn ') and len(e.args) == 1:
                dom, cod = self.env[f.id].typ.split()[1:3]         # a callable parameter: 'Fn <arg> <result>'
                a = self.expr(e.args[0])
                if a.typ != dom:
                    raise Unsupported(f'`{f.id}` applied to {a.typ}')
                return Val(f'({self.env[f.id].text} {_paren(a.text)})', cod)
            if f.id in self.u.intrinsics:
                return self.u.intrinsics[f.id](self, [self.expr(a) for a in e.args])
            # a constructor of a modelled class
            for typ, cls in self.u.classes.items():
                if cls == f.id:
                    args = [self.expr(a) for a in e.args]
                    inst = self.u.find(f'{cls}.__init__', tuple(a.typ for a in args))
                    return self.apply_ctor(inst, args)
            if f.id in self.u.src.defs:
                args = [self.expr(a) for a in e.args]
                try:
                    inst = self.u.find(f.id, tuple(a.typ for a in args))
                except Unsupported:
                    # a non-negative int where the instance is declared at `int`
                    inst = next((i for i in self.u.insts if i.qual == f.id and len(i.params) == len(args) and all(
                        a.typ == t or (a.typ, t) == ('Nat', 'Int') for a, (_n, t) in zip(args, i.params))), None)
                    if inst is None:
                        raise
                    args = [a if a.typ == t else Val(f'({a.text} : Int)', 'Int') for a, (_n, t) in zip(args, inst.params)]
                return self.apply(inst, args)
            raise Unsupported(f'`{self.inst.qual}`: call of `{f.id}`')
        if isinstance(f, ast.Attribute) and isinstance(f.value, ast.Name) and f.value.id not in self.env \
                and f'{f.value.id}.{f.attr}' in self.u.intrinsics:
            return self.u.intrinsics[f'{f.value.id}.{f.attr}'](self, [self.expr(a) for a in e.args])
        if isinstance(f, ast.Attribute):
            recv = self.expr(f.value)
            cls = self.u.class_of(recv.typ)
            qual = f'{cls}.{f.attr}' if cls else None
            if qual and qual in self.u.intrinsics:
                return self.u.intrinsics[qual](self, [recv] + [self.expr(a) for a in e.args])
            hook = self.u.hooks.get('method')
            if hook:
                r = hook(self, recv, f.attr, e.args)
                if r is not None:
                    return r
            if self.u.hooks.get('pycoll') and recv.typ.startswith('DDL ') and f.attr == 'items' and not e.args:
                kt, vt = _prod_parts('Prod ' + recv.typ[4:])
                return Val(recv.text, f'List Prod {_parenw(kt)} {_parenw("List " + vt)}')
            if self.u.hooks.get('pycoll') and recv.typ.startswith('List ') and f.attr == 'copy' and not e.args:
                return Val(recv.text, recv.typ)           # a list is a value here
            args = [self.expr(a) for a in e.args]
            ab = self.u.abstract.get((recv.typ, f.attr, tuple(a.typ for a in args)))
            if ab and ab[1].startswith('Heap '):
                # a call that creates an object: `(heap', value)`; the value is a *fresh* object
                if getattr(self, 'heap', None) is None:
                    raise Unsupported(f'`{self.inst.qual}`: `.{f.attr}()` creates an object, but the instance is not declared to work on the heap')
                nm = self.gensym('hr')
                self.pending.append((LetName(nm), ab[0].format(*[_paren(x.text) for x in [recv] + args], h=self.heap)))
                self.heap = f'{nm}.1'
                r = Val(f'{nm}.2', ab[1][5:])
                r.fresh = True
                return r
            if ab:
                tmpl, typ = ab
                return Val('(' + tmpl.format(*[_paren(x.text) for x in [recv] + args]) + ')', typ)
            if qual and (qual in self.u.src.defs or any(k[0] == qual for k in self.u.externals)):
                inst = self.u.find(qual, tuple(a.typ for a in args))
                is_method = bool(inst.params) and inst.params[0][0] == 'self'      # a staticmethod takes no receiver
                return self.apply(inst, ([recv] if is_method else []) + args)
            raise Unsupported(f'`{self.inst.qual}`: method `.{f.attr}` of {recv.typ} at {tuple(a.typ for a in args)}')
        raise Unsupported(f'`{self.inst.qual}`: call `{ast.unparse(e)[:80]}`')

    def components(self, v):
        """the components of a tuple value `Prod A B C …` (Lean: right-nested pairs) or `Pair A`"""
        if v.typ.startswith('Pair '):
            return [Val(f'{v.text}.1', v.typ[5:]), Val(f'{v.text}.2', v.typ[5:])]
        parts = _prod_parts(v.typ)
        if not v.typ.startswith('Prod ') or len(parts) < 2:
            raise Unsupported(f'`*` / components of {v.typ}')
        n = len(parts)
        return [Val(f'{v.text}' + '.2' * i + ('.1' if i < n - 1 else ''), t) for i, t in enumerate(parts)]

    def call_args(self, args):
        """positional arguments, `*t` of a tuple value spread into its components"""
        out = []
        for a in args:
            if isinstance(a, ast.Starred):
                out += self.components(self.expr(a.value))
            else:
                out.append(self.expr(a))
        return out

    def literal_seq(self, x):
        """the right operand of `in` / `not in` written as a tuple / list display: the list of its elements"""
        vals = [self.expr(el) for el in x.elts]
        if any(v.typ != vals[0].typ for v in vals):
            raise Unsupported(f'`in` over a display of mixed types: `{ast.unparse(x)}`')
        return Val('[' + ', '.join(v.text for v in vals) + ']', 'List ' + vals[0].typ)

    def chars_subscript(self, v, e):
        """`s[i]` (IndexError past the end), `s[a:b]`, `s[a:]`, `s[:b]` of a str, for literal non-negative bounds"""
        sl = e.slice

        def lit(x):
            return isinstance(x, ast.Constant) and isinstance(x.value, int) and not isinstance(x.value, bool) and x.value >= 0
        if lit(sl):
            r = Val(f'(GV.PyStr.charAt {_paren(v.text)} {sl.value})', 'Chars')
            r.raises = True
            return r
        if isinstance(sl, ast.Slice) and sl.step is None and (sl.lower is None or lit(sl.lower)) and (sl.upper is None or lit(sl.upper)):
            lo = sl.lower.value if sl.lower is not None else 0
            t = v.text if lo == 0 else f'(({v.text}).drop {lo})'
            if sl.upper is not None:
                t = f'(({t}).take {max(sl.upper.value - lo, 0)})'
            return Val(t, 'Chars')
        raise Unsupported(f'`{self.inst.qual}`: subscript `{ast.unparse(e)}` of a str')

    def fstring(self, e):
        """f'…{x}…{y:.2f}…': the concatenation of the pieces; a format spec is an intrinsic `format:<spec>` of the unit"""
        parts = []
        for p in e.values:
            if isinstance(p, ast.Constant) and isinstance(p.value, str):
                parts.append(chars_literal(p.value))
                continue
            if not isinstance(p, ast.FormattedValue) or p.conversion != -1:
                raise Unsupported(f'`{self.inst.qual}`: f-string piece `{ast.unparse(p)[:60]}`')
            v = self.expr(p.value)
            if p.format_spec is None:
                if v.typ == 'Chars':
                    parts.append(v.text)
                elif 'str' in self.u.intrinsics:
                    parts.append(self.u.intrinsics['str'](self, [v]).text)
                else:
                    raise Unsupported(f'f-string piece of type {v.typ}')
                continue
            spec = p.format_spec
            if not (isinstance(spec, ast.JoinedStr) and len(spec.values) == 1 and isinstance(spec.values[0], ast.Constant)):
                raise Unsupported(f'`{self.inst.qual}`: computed format spec in `{ast.unparse(e)[:60]}`')
            key = 'format:' + spec.values[0].value
            if key not in self.u.intrinsics:
                raise Unsupported(f'`{self.inst.qual}`: format spec `{spec.values[0].value}`')
            parts.append(self.u.intrinsics[key](self, [v]).text)
        if not parts:
            return Val('([] : List Char)', 'Chars')
        return Val(parts[0] if len(parts) == 1 else '(' + ' ++ '.join(parts) + ')', 'Chars')

    def apply_ctor(self, inst, args):
        ctx = [n for n, _t in self.u.ctx_params] if inst in self.u.insts else []
        txt = ' '.join([inst.lean] + ctx + [_paren(a.text) for a in args])
        v = Val(f'({txt})', inst.value_type)
        v.raises = inst.raises
        return v

    def list_comp(self, e):
        """`[x for x in xs if c]` -> `xs.filter`; with a test that may raise -> `xs.filterM` in `Except`"""
        g = e.generators
        if len(g) == 2 and not g[0].ifs and not g[1].ifs and isinstance(g[0].target, ast.Name) and isinstance(g[1].target, ast.Name) \
                and isinstance(g[1].iter, ast.Name) and g[1].iter.id == g[0].target.id \
                and isinstance(e.elt, ast.Name) and e.elt.id == g[1].target.id:
            xss = self.expr(g[0].iter)            # `[x for ys in xss for x in ys]`
            if xss.typ.startswith('List List '):
                return Val(f'(({xss.text}).flatten)', xss.typ[5:])
            raise Unsupported(f'flattening of {xss.typ}')
        if self.u.hooks.get('geojson_doc') and len(g) == 1 and not g[0].ifs:
            return self.gj_map_comp(e.elt, g[0])          # `[f(x) for x in xs]` (`GV.Py.mapE` when f may raise)
        if len(g) in (1, 2) and all(isinstance(c.target, ast.Name) and not c.ifs and not c.is_async for c in g):
            # `[f(x) for x in xs]` -> `xs.map`; `[f(x, y) for x in xs for y in g(x)]` -> `xs.flatMap (fun x => (g x).map …)`
            xs = self.expr(g[0].iter)
            if not xs.typ.startswith('List '):
                raise Unsupported(f'comprehension over {xs.typ}')
            x = self.gensym(lname(g[0].target.id))
            inner = self.sub()
            inner.fresh = self.fresh
            inner.env[g[0].target.id] = Val(x, xs.typ[5:], path=g[0].target.id)
            inner.narrow.pop(g[0].target.id, None)
            if len(g) == 1:
                el = inner.expr(e.elt)
                out = Val(f'(({xs.text}).map (fun {x} => {el.text}))', 'List ' + el.typ)
            else:
                ys = inner.expr(g[1].iter)
                if not ys.typ.startswith('List '):
                    raise Unsupported(f'comprehension over {ys.typ}')
                y = inner.gensym(lname(g[1].target.id))
                inner.env[g[1].target.id] = Val(y, ys.typ[5:], path=g[1].target.id)
                el = inner.expr(e.elt)
                body = ys.text if el.text == y else f'(({ys.text}).map (fun {y} => {el.text}))'
                out = Val(f'(({xs.text}).flatMap (fun {x} => {body}))', 'List ' + el.typ)
            if inner.pending:
                raise Unsupported(f'`{self.inst.qual}`: a call that may raise inside a comprehension')
            self.fresh = inner.fresh
            return out
        if len(e.generators) != 1 or not isinstance(e.generators[0].target, ast.Name) or len(e.generators[0].ifs) != 1 \
                or not (isinstance(e.elt, ast.Name) and e.elt.id == e.generators[0].target.id):
            raise Unsupported(f'`{self.inst.qual}`: comprehension other than `[x for x in xs if c]`')
        xs = self.expr(e.generators[0].iter)
        if not xs.typ.startswith('List '):
            raise Unsupported(f'comprehension over {xs.typ}')
        x = self.gensym(lname(e.elt.id))
        inner = self.sub()
        inner.fresh = self.fresh
        inner.env[e.elt.id] = Val(x, xs.typ[5:], path=e.elt.id)
        test = e.generators[0].ifs[0]
        if inner.has_optional_test(test):
            body = inner.branch(test, lambda tr: tr.ok('true'), lambda tr: tr.ok('false'))
            raising = 'Except.error' in body
        else:
            c = inner.truth(inner.expr(test))
            raising = bool(inner.pending)
            body = inner.wrap(inner.ok(c)) if raising else c
        self.fresh = inner.fresh
        if raising and self.inst.raises:
            v = Val(f'(GV.Py.filterE (fun {x} => (show Except String Bool from\n{_indent(body, 4)})) {_paren(xs.text)})', xs.typ)
            v.raises = True
            return v
        if self.inst.raises:
            # the instance may raise but this test can not: undo the `.ok` wrapping of the branch leaves
            body = body.replace('Except.ok true', 'true').replace('Except.ok false', 'false')
        return Val(f'(({xs.text}).filter (fun {x} =>\n{_indent(body, 4)}))', xs.typ)

    # ---- unit hook `wkt_text` (SrcWkt): Python strings as Lean `String`s, finite sequences as lists, methods found through
    # the class hierarchy of a `SourceSet`.  Everything below is reached only from the three dispatch lines in `_expr`,
    # `call`, `compare2`, `attribute`, `branch` and `FnTr.__init__` that test the hook.
    def wk_find(self, qual, argtypes, recv=None):
        """the instance of `qual` at these argument types; several classes inherit one definition: the instance declared for
        this receiver type, if there is one (a classmethod's `cls` is a receiver like `self`)"""
        argtypes = tuple(argtypes)
        cands = [i for i in self.u.insts if i.qual == qual and
                 tuple(t for n, t in i.params if n not in ('self', 'cls')) == argtypes]
        for i in cands:
            if recv is not None and i.params and i.params[0][0] in ('self', 'cls') and i.params[0][1] == recv:
                return i
        if cands:
            return cands[0]
        return self.u.find(qual, argtypes)

    def wk_expr(self, e):
        if isinstance(e, ast.Constant) and isinstance(e.value, str):
            return Val(_lean_str(e.value), 'Str')
        if isinstance(e, ast.JoinedStr):
            # an f-string whose fields are strings (no conversion, no format spec): the concatenation of its parts
            parts = []
            for p in e.values:
                if isinstance(p, ast.Constant) and isinstance(p.value, str):
                    parts.append(_lean_str(p.value))
                elif isinstance(p, ast.FormattedValue) and p.conversion == -1 and p.format_spec is None:
                    v = self.expr(p.value)
                    if v.typ != 'Str':
                        raise Unsupported(f'f-string field `{ast.unparse(p.value)[:60]}` of type {v.typ}')
                    parts.append(v.text)
                else:
                    raise Unsupported(f'f-string part `{ast.unparse(p)[:60]}`')
            return Val('(' + ' ++ '.join(parts or ['""']) + ')', 'Str')
        if isinstance(e, ast.BinOp) and isinstance(e.op, ast.Add) and self.wk_type_of(e.left) == 'Str':
            a, b = self.expr(e.left), self.expr(e.right)
            if b.typ != 'Str':
                raise Unsupported(f'`{ast.unparse(e)[:60]}`: Str + {b.typ}')
            return Val(f'({a.text} ++ {b.text})', 'Str')
        if isinstance(e, ast.BoolOp) and isinstance(e.op, ast.Or) and len(e.values) == 2 \
                and (self.wk_type_of(e.values[0]) or '').startswith('List '):
            a, b = self.expr(e.values[0]), self.expr(e.values[1])
            if a.typ != b.typ:
                raise Unsupported(f'`{ast.unparse(e)[:60]}`: {a.typ} or {b.typ}')
            return Val(f'(if !({a.text}).isEmpty then {a.text} else {b.text})', a.typ)          # `xs or ys`
        if isinstance(e, ast.Dict) and not e.keys:
            return Val('[]', 'Dict ?')                 # `{}`: typed by the unit's `local_type`
        if isinstance(e, ast.ListComp) and len(e.generators) == 1 and not e.generators[0].ifs \
                and isinstance(e.generators[0].target, ast.Name):
            return self.wk_map_comp(e)               # `[f(x) for x in xs]`
        if isinstance(e, ast.Subscript) and (self.wk_type_of(e.value) or '').startswith('List '):
            sl = e.slice
            neg1 = isinstance(sl, ast.UnaryOp) and isinstance(sl.op, ast.USub) and isinstance(sl.operand, ast.Constant) \
                and sl.operand.value == 1
            rev = isinstance(sl, ast.Slice) and sl.lower is None and sl.upper is None and isinstance(sl.step, ast.UnaryOp) \
                and isinstance(sl.step.op, ast.USub) and isinstance(sl.step.operand, ast.Constant) and sl.step.operand.value == 1
            take = isinstance(sl, ast.Slice) and sl.lower is None and sl.step is None and isinstance(sl.upper, ast.Constant) \
                and isinstance(sl.upper.value, int) and not isinstance(sl.upper.value, bool) and sl.upper.value >= 0
            drop = isinstance(sl, ast.Slice) and sl.upper is None and sl.step is None and isinstance(sl.lower, ast.Constant) \
                and isinstance(sl.lower.value, int) and not isinstance(sl.lower.value, bool) and sl.lower.value >= 0
            idx = isinstance(sl, ast.Constant) and isinstance(sl.value, int) and not isinstance(sl.value, bool) and sl.value >= 0
            if not (neg1 or rev or take or drop or idx):
                return None
            v = self.expr(e.value)
            if rev:
                return Val(f'(({v.text}).reverse)', v.typ)        # xs[::-1]
            if take:
                return Val(f'(({v.text}).take {sl.upper.value})', v.typ)        # xs[:n]
            if drop:
                return Val(f'(({v.text}).drop {sl.lower.value})', v.typ)        # xs[n:]
            r = Val(f'(GV.Py.getLast {_paren(v.text)})', v.typ[5:]) if neg1 else \
                Val(f'(GV.Py.getIdx {_paren(v.text)} {sl.value})', v.typ[5:])        # xs[-1], xs[i]: IndexError
            r.raises = True
            return r
        return None

    def wk_type_of(self, e):
        """static type of an expression, translated on a scratch copy (None when it does not translate)"""
        t = self.sub()
        t.fresh = self.fresh
        try:
            return t.expr(e, allow_raise=True).typ
        except Unsupported:
            return None

    def wk_map_comp(self, e):
        """`[f(x) for x in xs]` / `(f(x) for x in xs)` -> `xs.map (fun x => f x)`; with an element that may raise -> `GV.Py.mapE`"""
        g = e.generators[0]
        xs = self.expr(g.iter)
        if not xs.typ.startswith('List '):
            raise Unsupported(f'comprehension over {xs.typ}')
        x = self.gensym(lname(g.target.id))
        inner = self.sub()
        inner.fresh = self.fresh
        inner.env[g.target.id] = Val(x, xs.typ[5:], path=g.target.id)
        inner.narrow.pop(g.target.id, None)
        v = inner.expr(e.elt, allow_raise=True)
        if inner.pending or getattr(v, 'raises', False):
            # an element that may raise: evaluated left to right, the first exception ends the comprehension
            if not self.inst.raises:
                raise Unsupported(f'`{self.inst.qual}`: a call that may raise inside `{ast.unparse(e)[:60]}`')
            body = inner.wrap(v.text if getattr(v, 'raises', False) else inner.ok(v.text))
            self.fresh = inner.fresh
            r = Val(f'(GV.Py.mapE (fun {x} => (show {lean_type("Except " + v.typ)} from\n{_indent(body, 4)})) {_paren(xs.text)})',
                    'List ' + v.typ)
            r.raises = True
            return r
        self.fresh = inner.fresh
        if v.text == x:
            return Val(xs.text, xs.typ)
        return Val(f'(({xs.text}).map (fun {x} => {v.text}))', 'List ' + v.typ)

    def wk_str_method(self, recv, attr, args):
        """`sep.join(xs)` over a list / generator of strings, `s.lower()`"""
        if attr == 'join' and len(args) == 1:
            a = args[0]
            xs = self.wk_map_comp(a) if isinstance(a, ast.GeneratorExp) and len(a.generators) == 1 and not a.generators[0].ifs \
                and isinstance(a.generators[0].target, ast.Name) else self.expr(a)
            if xs.typ != 'List Str':
                raise Unsupported(f'join over {xs.typ}')
            return Val(f'(String.intercalate {_paren(recv.text)} {_paren(xs.text)})', 'Str')
        if attr == 'lower' and not args:
            return Val(f'(({recv.text}).toLower)', 'Str')
        raise Unsupported(f'`{self.inst.qual}`: string method `.{attr}`')

    def wk_call(self, e):
        """a Val (the call is translated here), a rewritten ast.Call (keyword arguments put in their positions) or None"""
        if 'call_whole' in self.u.hooks:
            r = self.u.hooks['call_whole'](self, e)          # a call the unit reads as a whole (declared in srcunits)
            if r is not None:
                return r
        rewritten = None
        if e.keywords and 'bind_keywords' in self.u.hooks:
            rewritten = self.u.hooks['bind_keywords'](self, e)
            if rewritten is not None:
                e = rewritten
        if e.keywords and not all(k.arg is None for k in e.keywords):
            return rewritten
        f = e.func
        if isinstance(f, ast.Name) and not e.keywords and len(e.args) == 1 and f.id in ('len', 'list', 'tuple', 'reversed') \
                and f.id not in self.env:
            v = self.expr(e.args[0])
            if f.id == 'len' and (v.typ.startswith('List ') or v.typ == 'Str'):
                return Val(f'(({v.text}).length : Int)', 'Int')
            if f.id == 'list' and v.typ == 'Str':
                return Val(f'(({v.text}).toList)', 'List Chr')        # list('zm') == ['z', 'm']
            if f.id != 'len' and v.typ.startswith('List '):
                # every finite sequence (list, tuple, the iterator of `reversed`) is the list of its elements
                return Val(f'(({v.text}).reverse)', v.typ) if f.id == 'reversed' else Val(v.text, v.typ, path=v.path)
            raise Unsupported(f'{f.id}() of {v.typ}')
        if not isinstance(f, ast.Attribute):
            return rewritten
        resolve = self.u.hooks.get('resolve')
        if isinstance(f.value, ast.Call) and isinstance(f.value.func, ast.Name) and f.value.func.id == 'super' \
                and not f.value.args and 'super_method' in self.u.hooks:
            return self.u.hooks['super_method'](self, f.attr, e.args)
        if isinstance(f.value, ast.Name) and f.value.id not in self.env and f'{f.value.id}.{f.attr}' in self.u.intrinsics:
            return rewritten
        if isinstance(f.value, ast.Name) and f.value.id not in self.env and resolve \
                and f.value.id in getattr(self.u.src, 'bases', {}):
            # `Class.method(…)`: a classmethod / staticmethod reached through the class name
            qual = resolve(f.value.id, f.attr)
            if qual is None:
                raise Unsupported(f'`{self.inst.qual}`: `{f.value.id}.{f.attr}` not found')
            args = [self.expr(a) for a in e.args]
            inst = self.wk_find(qual, tuple(a.typ for a in args))
            has_cls = bool(inst.params) and inst.params[0][0] == 'cls'
            return self.apply(inst, ([Val('()', inst.params[0][1])] if has_cls else []) + args)
        recv = self.expr(f.value)
        if recv.typ == 'Str':
            return self.wk_str_method(recv, f.attr, e.args)
        cls = self.u.class_of(recv.typ)
        qual = (resolve(cls, f.attr) if resolve and cls else None) or (f'{cls}.{f.attr}' if cls else None)
        if qual and qual in self.u.intrinsics:
            return self.u.intrinsics[qual](self, [recv] + [self.expr(a) for a in e.args])
        hook = self.u.hooks.get('method')
        if hook:
            r = hook(self, recv, f.attr, e.args)
            if r is not None:
                return r
        args = [self.expr(a) for a in e.args]
        ab = self.u.abstract.get((recv.typ, f.attr, tuple(a.typ for a in args)))
        if ab:
            tmpl, typ = ab
            return Val('(' + tmpl.format(*[_paren(x.text) for x in [recv] + args]) + ')', typ)
        if qual and qual in self.u.src.defs:
            inst = self.wk_find(qual, tuple(a.typ for a in args), recv.typ)
            first = inst.params[0][0] if inst.params else None       # a staticmethod takes no receiver
            return self.apply(inst, ([recv] if first == 'self' else [Val('()', inst.params[0][1])] if first == 'cls' else []) + args)
        raise Unsupported(f'`{self.inst.qual}`: method `.{f.attr}` of {recv.typ} at {tuple(a.typ for a in args)}')

    def any_all(self, which, g):
        tgt = g.generators[0].target if len(g.generators) == 1 else None
        pair = isinstance(tgt, ast.Tuple) and len(tgt.elts) == 2 and all(isinstance(t, ast.Name) for t in tgt.elts)
        if len(g.generators) != 1 or g.generators[0].ifs or not (isinstance(tgt, ast.Name) or pair):
            raise Unsupported('generator with filters / several loops')
        xs = self.expr(g.generators[0].iter)
        if not xs.typ.startswith('List '):
            raise Unsupported(f'{which}() over {xs.typ}')
        x = self.gensym(lname(tgt.id) if not pair else 'pair')
        inner = self.sub()
        inner.fresh = self.fresh
        if pair:
            parts = _prod_parts(xs.typ[5:])
            if len(parts) != 2:
                raise Unsupported(f'unpacking {xs.typ[5:]} into two names')
            for i, t in enumerate(tgt.elts):
                inner.env[t.id] = Val(f'{x}.{i + 1}', parts[i], path=t.id)
        else:
            inner.env[tgt.id] = Val(x, xs.typ[5:], path=tgt.id)
        c = inner.truth(inner.expr(g.elt))
        if inner.pending:
            body = inner.wrap(inner.ok(c))
            self.fresh = inner.fresh
            v = Val(f'(GV.Py.{which}E (fun {x} => (show Except String Bool from\n{_indent(body, 4)})) {_paren(xs.text)})', 'Bool')
            v.raises = True
            return v
        self.fresh = inner.fresh
        return Val(f'(({xs.text}).{which} (fun {x} => {c}))', 'Bool')


    # ---- `[f(x) for x in xs]`, `(f(x, y) for x, y in pairs)` ---------------------------------------------
    def is_map_comp(self, e):
        g = e.generators
        if len(g) != 1 or g[0].ifs or g[0].is_async:
            return False
        t = g[0].target
        if isinstance(t, ast.Name):
            return not (isinstance(e.elt, ast.Name) and e.elt.id == t.id) or isinstance(e, (ast.GeneratorExp, ast.SetComp))
        return isinstance(t, ast.Tuple) and len(t.elts) == 2 and all(isinstance(x, ast.Name) for x in t.elts)

    def map_comp(self, e):
        """a comprehension / generator without a filter, consumed as the list of its items: `xs.map`"""
        g = e.generators[0]
        xs = self.expr(g.iter)
        if not xs.typ.startswith('List '):
            raise Unsupported(f'comprehension over {xs.typ}')
        elem = xs.typ[5:]
        inner = self.sub()
        inner.fresh = self.fresh
        if isinstance(g.target, ast.Name):
            x = inner.gensym(lname(g.target.id))
            inner.env[g.target.id] = Val(x, elem, path=g.target.id)
            inner.narrow.pop(g.target.id, None)
        else:
            parts = _prod_parts(elem) if elem.startswith('Prod ') else ([elem[5:]] * 2 if elem.startswith('Pair ') else [])
            if len(parts) != 2:
                raise Unsupported(f'unpacking {elem} into two names')
            x = inner.gensym('pair')
            for i, t in enumerate(g.target.elts):
                inner.env[t.id] = Val(f'{x}.{i + 1}', parts[i], path=t.id)
                inner.narrow.pop(t.id, None)
        v = inner.expr(e.elt)
        if inner.pending:
            raise Unsupported(f'`{self.inst.qual}`: a call that may raise inside a comprehension')
        self.fresh = inner.fresh
        return Val(f'(({xs.text}).map (fun {x} => {v.text}))', 'List ' + v.typ)

    # ---- `==`, set membership and hash keys, directed by the static type ---------------------------------
    #
    # `eq_fn(T)`      Lean function text for Python's `a == b` at two values of type T
    # `hasheq_fn(T)`  ... for `hash(a) == hash(b)`, read as "the keys handed to hash() are the same value" (DESIGN §3: CPython's
    #                 hash is a function of the key; the key of a frozenset is the multiset of its members' keys)
    # `mem_fn(T)`     the membership relation of a set / dict of T: hash first, then `==`
    # `key_of(v)`     the key of a value: what its `__hash__` hands to `hash()`, component by component
    _PLAIN = ('R', 'Int', 'Dt', 'Td', 'Bool')

    def _inst_fn(self, inst):
        ctx = [n for n, _t in self.u.ctx_params] if inst in self.u.insts else []
        return ' '.join([inst.lean] + ctx)

    def _parts(self, t):
        if t.startswith('Pair '):
            return [t[5:], t[5:]]
        if t.startswith('Prod '):
            return _prod_parts(t)
        return None

    def eq_fn(self, t, probe=False):
        try:
            return self._eq_fn(t)
        except Unsupported:
            if probe:
                return None
            raise

    def _eq_fn(self, t):
        ab = self.u.hooks.get('eq_abstract', {}).get(t)
        if ab:
            return ab
        if t in self._PLAIN:
            return '(fun a b => a == b)'
        cls = self.u.class_of(t)
        if cls:
            inst = self.u.find(f'{cls}.__eq__', (t,))
            if inst.raises:
                raise Unsupported(f'`==` on {t} may raise')
            return f'({self._inst_fn(inst)})'
        if t.startswith('Opt '):
            return f'(GV.Py.optEq {self._eq_fn(t[4:])})'
        if t.startswith('List '):
            return f'(GV.Obj.listEqBy {self._eq_fn(t[5:])})'
        if t.startswith('Set '):
            return f'(GV.Py.setEq {self.mem_fn(t[4:])})'
        parts = self._parts(t)
        if parts and len(parts) == 2:
            return f'(GV.Py.pairEq {self._eq_fn(parts[0])} {self._eq_fn(parts[1])})'
        raise Unsupported(f'`==` on {t}')

    def hasheq_fn(self, t):
        ab = self.u.hooks.get('hasheq_abstract', {}).get(t)
        if ab:
            return ab
        if t in self._PLAIN:
            return '(fun a b => a == b)'
        cls = self.u.class_of(t)
        if cls:
            inst = self.u.find(f'{cls}.__hash__', ())
            if inst.raises or 'Set ' in inst.value_type or inst.value_type in self.u.hooks.get('key_abstract_types', ()):
                raise Unsupported(f'hash equality on {t}')
            return f'(fun a b => {self._inst_fn(inst)} a == {self._inst_fn(inst)} b)'
        if t.startswith('Opt '):
            return f'(GV.Py.optEq {self.hasheq_fn(t[4:])})'
        if t.startswith('List '):
            return f'(GV.Obj.listEqBy {self.hasheq_fn(t[5:])})'
        if t.startswith('Set '):
            return f'(GV.Obj.msEqBy {self.hasheq_fn(t[4:])})'
        parts = self._parts(t)
        if parts and len(parts) == 2:
            return f'(GV.Py.pairEq {self.hasheq_fn(parts[0])} {self.hasheq_fn(parts[1])})'
        raise Unsupported(f'hash equality on {t}')

    def mem_fn(self, t):
        return f'(fun a b => {self.hasheq_fn(t)} a b && {self._eq_fn(t)} a b)'

    def key_of_expr(self, e):
        if isinstance(e, ast.Tuple) and len(e.elts) >= 2:
            ks = [self.key_of_expr(x) for x in e.elts]
            return Val('(' + ', '.join(k.text for k in ks) + ')', mk_prod(k.typ for k in ks))
        return self.key_of(self.expr(e))

    def key_of(self, v):
        t = v.typ
        ab = self.u.hooks.get('key_abstract', {}).get(t)
        if ab:
            return Val(f'({ab[0]} {_paren(v.text)})', ab[1])
        if t in self._PLAIN:
            return v
        cls = self.u.class_of(t)
        if cls:
            inst = self.u.find(f'{cls}.__hash__', ())
            return self.apply(inst, [v])
        if t.startswith(('Opt ', 'List ', 'Set ')):
            inner = t.split(' ', 1)[1]
            k = self.key_of(Val('k', inner))
            if k.text == 'k':
                return v
            if getattr(k, 'raises', False):
                raise Unsupported(f'`__hash__` of {inner} may raise')
            return Val(f'(({v.text}).map (fun k => {k.text}))', ('Opt ' if t.startswith('Opt ') else 'List ') + k.typ)
        parts = self._parts(t)
        if parts and len(parts) == 2:
            ks = [self.key_of(Val(f'({v.text}).{i + 1}', p)) for i, p in enumerate(parts)]
            return Val(f'({ks[0].text}, {ks[1].text})', mk_prod(k.typ for k in ks))
        raise Unsupported(f'hash key of {t}')

    # ---- the `geojson_doc` subset (SrcGeoJson, C14): dict displays, JSON values, exporters' keyword dictionaries ----------
    # (every method below is reached only through the dispatchers gated on the unit hook `geojson_doc`)
    def gj_stmt(self, s, rest):
        if isinstance(s, ast.Return) and s.value is None:
            return self.ret_value(ast.Constant(value=None))       # a bare `return` returns None
        if isinstance(s, ast.AugAssign) and isinstance(s.target, ast.Name) and isinstance(s.op, (ast.Add, ast.Sub, ast.Mult)):
            # `x += e` is `x = x + e`
            new = ast.Assign(targets=[s.target], value=ast.BinOp(left=ast.Name(id=s.target.id, ctx=ast.Load()), op=s.op, right=s.value))
            return self.assign(ast.copy_location(new, s), rest)
        if isinstance(s, ast.FunctionDef):
            return self.gj_local_def(s, rest)
        if isinstance(s, ast.Assign) and len(s.targets) == 1 and isinstance(s.targets[0], ast.Subscript) \
                and isinstance(s.targets[0].value, ast.Name) and s.targets[0].value.id in self.env \
                and self.env[s.targets[0].value.id].typ == 'JObj':
            return self.gj_assign_item(s.targets[0], self.expr(s.value, allow_raise=True), rest)
        c = s.value if isinstance(s, ast.Expr) else None
        if isinstance(c, ast.Call) and isinstance(c.func, ast.Attribute) and c.func.attr == 'append' and len(c.args) == 1 \
                and isinstance(c.func.value, ast.Name) and c.func.value.id in self.env \
                and self.env[c.func.value.id].typ.startswith('List '):
            n = c.func.value.id
            v = self.expr(c.args[0])
            old = self.env[n]
            if old.typ != 'List ' + v.typ:
                raise Unsupported(f'append of {v.typ} to {old.typ}')
            nm = self.gensym(lname(n))
            self.env[n] = Val(nm, old.typ, path=n)
            pend, self.pending = self.pending, []            # a raising call in the appended value is bound first
            inner = f'let {nm} := ({old.text} ++ [{v.text}])\n' + self.block(rest)
            self.pending = pend
            return self.wrap(inner)
        return None

    def gj_local_def(self, s, rest):
        """a nested `def` that reads nothing but its own parameters (and module-level names): an auxiliary definition
        emitted before the function, like a loop; its parameter and result types are declared by the unit
        (`hooks['gj_local_fn']`)"""
        hook = self.u.hooks.get('gj_local_fn')
        spec = hook(self.inst.qual, s.name) if hook else None
        if not spec or s.decorator_list:
            raise Unsupported(f'`{self.inst.qual}`: nested function `{s.name}` without declared types')
        params, ret = spec
        name = f'{self.inst.lean}.{s.name.lstrip("_")}'
        inst = Inst(f'{self.inst.qual}.<locals>.{s.name}', name, params, ret)
        sub = FnTr(self.u, inst, s)              # its own scope: a captured local of the enclosing function is "unknown name"
        sub.aux = self.aux
        self.aux.append(None)
        slot = len(self.aux) - 1
        body = sub.function_body()
        binders = ' '.join([f'({n} : {t})' for n, t in self.u.ctx_params] +
                           [f'({lname(n)} : {lean_type(t)})' for n, t in params if t != 'None'])
        self.aux[slot] = '\n'.join([f'/-- the nested function `{s.name}` of `{self.inst.qual}` -/',
                                    f'def {name} {binders} : {lean_type(ret)} :=', _indent(body)])
        v = Val(name, 'LocalFn')
        v.localfn = inst
        self.env[s.name] = v
        return self.block(rest)

    def gj_ret_with_state(self, v):
        """`return v` of a function that mutates some of its parameters (`Inst.state`): the result paired with the final
        values of those parameters"""
        parts = _prod_parts(self.inst.value_type)
        want = parts[0]
        states = ', '.join(self.env[n].text for n in self.inst.state)
        if getattr(v, 'raises', False):
            nm = self.gensym('r')
            return self.wrap(f'match {v.text} with\n| Except.error e => Except.error e\n| Except.ok {nm} =>\n'
                             f'  Except.ok ({self.coerce(Val(nm, v.typ), want)}, {states})')
        return self.wrap(self.ok(f'({self.coerce(v, want)}, {states})'))

    def gj_assign_item(self, t, v, rest):
        """`d[key] = value` on a *fresh* local dict (a display, `dict(…)`, `.copy()`): the dict with the key set"""
        to_j = self.u.hooks.get('gj_to_j')
        if not (to_j and isinstance(t.value, ast.Name) and t.value.id in self.env and self.env[t.value.id].typ == 'JObj'
                and getattr(self.env[t.value.id], 'fresh_dict', False)):
            raise Unsupported(f'`{self.inst.qual}`: store into `{ast.unparse(t)}` (not a fresh local dict)')
        name = t.value.id
        d = self.env[name]
        key = self.expr(t.slice)
        if key.typ != 'Str':
            raise Unsupported(f'dict store with a key of type {key.typ}')
        nm = self.gensym(lname(name))
        new = Val(nm, 'JObj', path=name)
        new.fresh_dict = True
        if getattr(v, 'raises', False):
            r = self.gensym('r')
            self.env[name] = new
            self.narrow.pop(name, None)
            inner = f'let {nm} := (GV.GeoJson.oset {d.text} {key.text} {to_j(self, Val(r, v.typ))})\n' + self.block(rest)
            return self.wrap('\n'.join([f'match {v.text} with', '| Except.error e => Except.error e', f'| Except.ok {r} =>', _indent(inner)]))
        self.env[name] = new
        self.narrow.pop(name, None)
        pend, self.pending = self.pending, []
        inner = f'let {nm} := (GV.GeoJson.oset {d.text} {key.text} {to_j(self, v)})\n' + self.block(rest)
        self.pending = pend
        return self.wrap(inner)

    def gj_bind(self, v):
        """the text of a value, binding it first if it may raise (hooks that compose several calls in evaluation order)"""
        if getattr(v, 'raises', False):
            if not self.inst.raises:
                raise Unsupported(f'`{self.inst.qual}`: a call that may raise inside an expression')
            name = self.gensym('r')
            self.pending.append((name, v.text))
            return name
        return v.text

    def gj_expr(self, e):
        """expression forms beyond the first subset; None = not one of them (the older rules apply)"""
        if isinstance(e, ast.Constant) and isinstance(e.value, str):
            return Val(_lean_str(e.value), 'Str')
        if isinstance(e, ast.Dict):
            return self.gj_dict_display(e)
        if isinstance(e, ast.BinOp) and isinstance(e.op, ast.BitXor):
            a, b = self.expr(e.left), self.expr(e.right)
            if a.typ == b.typ == 'Bool':
                return Val(f'(xor {a.text} {b.text})', 'Bool')
            raise Unsupported(f'`^` on {a.typ}, {b.typ}')
        if isinstance(e, ast.Tuple) and len(e.elts) == 4 and not any(isinstance(x, ast.Starred) for x in e.elts):
            vals = [self.expr(x) for x in e.elts]
            if all(v.typ == vals[0].typ for v in vals):
                return Val('(' + ', '.join(v.text for v in vals) + ')', 'Tuple4 ' + vals[0].typ)
            raise Unsupported(f'tuple `{ast.unparse(e)[:60]}` of mixed types')
        if isinstance(e, ast.Subscript):
            sl = e.slice
            minus1 = lambda n: isinstance(n, ast.UnaryOp) and isinstance(n.op, ast.USub) and isinstance(n.operand, ast.Constant) and n.operand.value == 1
            if isinstance(sl, ast.Slice) and sl.lower is None and sl.upper is None and sl.step is not None and minus1(sl.step):
                v = self.expr(e.value)                                   # `xs[::-1]`
                if v.typ.startswith('List '):
                    return Val(f'(({v.text}).reverse)', v.typ)
                raise Unsupported(f'`[::-1]` of {v.typ}')
            if isinstance(sl, ast.Slice) and sl.lower is None and sl.step is None and isinstance(sl.upper, ast.Constant) \
                    and isinstance(sl.upper.value, int) and sl.upper.value >= 0:
                v = self.expr(e.value)                                   # `xs[:n]`
                if v.typ.startswith('List '):
                    return Val(f'(({v.text}).take {sl.upper.value})', v.typ)
                raise Unsupported(f'`[:n]` of {v.typ}')
            if minus1(sl):
                v = self.expr(e.value)                                   # `xs[-1]`: IndexError on the empty list
                if v.typ.startswith('List '):
                    r = Val(f'(GV.Py.getLast {_paren(v.text)})', v.typ[5:])
                    r.raises = True
                    return r
                raise Unsupported(f'`[-1]` of {v.typ}')
        if isinstance(e, ast.IfExp) and self.static_test(e.test) is None and not self.has_optional_test(e.test):
            # an arm that may raise is only evaluated when it is chosen
            ta, tb = self.sub(), self.sub()
            ta.fresh = tb.fresh = self.fresh
            try:
                a, b = ta.expr(e.body), tb.expr(e.orelse)
            except Unsupported:
                return None
            if ta.pending or tb.pending:
                if not self.inst.raises:
                    raise Unsupported(f'`{self.inst.qual}`: a call that may raise inside an expression: `{ast.unparse(e)[:80]}`')
                if a.typ != b.typ:
                    raise Unsupported(f'conditional expression of types {a.typ} / {b.typ}')
                c = self.truth(self.expr(e.test))
                self.fresh = max(ta.fresh, tb.fresh)
                r = Val(f'(if {c} then\n{_indent(ta.wrap("Except.ok " + _paren(a.text)))}\nelse\n'
                        f'{_indent(tb.wrap("Except.ok " + _paren(b.text)))})', a.typ)
                r.raises = True
                return r
            return None
        if isinstance(e, ast.BoolOp) and isinstance(e.op, ast.Or) and len(e.values) == 2 \
                and all(isinstance(x, (ast.Name, ast.Attribute, ast.Dict, ast.Constant)) for x in e.values):
            r = self.gj_or_value(e)
            if r is not None:
                return r
        if isinstance(e, ast.BoolOp) and isinstance(e.op, ast.Or) and len(e.values) == 2 and isinstance(e.values[1], ast.Dict) \
                and not e.values[1].keys and 'gj_or_dict' in self.u.hooks:
            # `<call> or {}`
            return self.u.hooks['gj_or_dict'](self, self.expr(e.values[0]))
        hook = self.u.hooks.get('gj_expr')
        return hook(self, e) if hook else None

    def gj_or_value(self, e):
        """`a or b` used for its *value* (operands are not booleans): Python returns the first truthy operand, else the last"""
        try:
            a, b = self.expr(e.values[0]), self.expr(e.values[1])
        except Unsupported:
            return None
        truthy = self.u.hooks.get('always_truthy', ())
        if a.typ == 'Bool' or b.typ == 'Bool':
            return None
        if a.typ == 'None':
            return b
        if a.typ == 'Opt JObj' and b.typ == 'JObj':
            d = self.gensym('d')
            r = Val(f'(match {a.text} with | some {d} => (if !({d}).isEmpty then {d} else {b.text}) | none => {b.text})', 'JObj')
            return r
        if a.typ == 'JObj' and b.typ == 'JObj':
            return Val(f'(if !({a.text}).isEmpty then {a.text} else {b.text})', 'JObj')
        if a.typ in truthy and not a.typ.startswith('Opt '):
            return a
        if a.typ.startswith('Opt ') and a.typ[4:] in truthy and b.typ in (a.typ, a.typ[4:], 'None'):
            x = self.gensym('x')
            bt = b.text if b.typ == a.typ else ('none' if b.typ == 'None' else f'some {_paren(b.text)}')
            return Val(f'(match {a.text} with | some {x} => some {x} | none => {bt})', a.typ)
        return None

    def gj_dict_display(self, e):
        """`{'k': v, **d, …}`: a dict with string keys, in insertion order (`GV.GeoJson.Obj`); a later key overrides an earlier
        one in place, as in Python; values are brought to JSON values by the unit's `to_j`"""
        to_j = self.u.hooks.get('gj_to_j')
        if not to_j:
            raise Unsupported(f'`{self.inst.qual}`: dict display `{ast.unparse(e)[:60]}`')
        acc = None
        for k, v in zip(e.keys, e.values):
            if k is None:
                d = self.expr(v)
                if d.typ != 'JObj' and 'gj_as_dict' in self.u.hooks:
                    d = self.u.hooks['gj_as_dict'](self, d) or d
                if d.typ != 'JObj':
                    raise Unsupported(f'`**` of {d.typ} in a dict display')
                # `{**a, **b}` is the model's `oupdate a b`: a leading spread is a copy of that dict
                acc = d.text if acc is None else f'(GV.GeoJson.oupdate {acc} {d.text})'
            else:
                kk, vv = self.expr(k), self.expr(v)
                if kk.typ != 'Str':
                    raise Unsupported(f'dict key of type {kk.typ}')
                acc = f'(GV.GeoJson.oset {acc or "([] : GV.GeoJson.Obj)"} {kk.text} {to_j(self, vv)})'
        r = Val(acc or '([] : GV.GeoJson.Obj)', 'JObj')
        r.fresh_dict = True
        return r

    def gj_call(self, e):
        """calls beyond the first subset; None = not one of them"""
        f = e.func
        if isinstance(f, ast.Name) and not e.keywords:
            if f.id in self.env and getattr(self.env[f.id], 'localfn', None) is not None:
                inst = self.env[f.id].localfn
                args = [self.expr(a) for a in e.args]
                if len(args) > len(inst.params) or [a.typ for a in args] != [t for _n, t in inst.params[:len(args)]]:
                    raise Unsupported(f'`{f.id}` applied to ({", ".join(a.typ for a in args)})')
                shown = [_paren(a.text) for a, (_n, t) in zip(args, inst.params) if t != 'None']
                v = Val('(' + ' '.join([self.env[f.id].text] + [n for n, _t in self.u.ctx_params] + shown) + ')', inst.value_type)
                v.raises = inst.raises
                return v
            if f.id == 'sum' and len(e.args) == 1 and isinstance(e.args[0], (ast.GeneratorExp, ast.ListComp)) \
                    and len(e.args[0].generators) == 1 and not e.args[0].generators[0].ifs:
                xs = self.gj_map_comp(e.args[0].elt, e.args[0].generators[0])
                if getattr(xs, 'raises', False) or xs.typ != 'List R':
                    raise Unsupported(f'sum() over {xs.typ}')
                return Val(f'(({xs.text}).foldl (· + ·) 0)', 'R')          # Python's sum starts from the int 0
            if f.id == 'map' and len(e.args) == 2 and isinstance(e.args[0], ast.Lambda) and len(e.args[0].args.args) == 1 \
                    and not e.args[0].args.defaults:
                lam = e.args[0]
                gen = ast.comprehension(target=ast.Name(id=lam.args.args[0].arg, ctx=ast.Store()), iter=e.args[1], ifs=[], is_async=0)
                return self.gj_map_comp(lam.body, gen)                         # consumed as a list (iteration order is the same)
            if f.id in ('list', 'tuple') and len(e.args) == 1:
                v = self.expr(e.args[0], allow_raise=True)
                if v.typ.startswith('List '):
                    return v                                                 # a (new) list with the same elements
                raise Unsupported(f'{f.id}() of {v.typ}')
            if f.id == 'reversed' and len(e.args) == 1:
                v = self.expr(e.args[0])
                if v.typ.startswith('List '):
                    return Val(f'(({v.text}).reverse)', v.typ)            # only ever consumed as a sequence
                raise Unsupported(f'reversed() of {v.typ}')
            if f.id == 'len' and len(e.args) == 1:
                v = self.expr(e.args[0])
                if v.typ.startswith('List '):
                    return Val(f'((({v.text}).length : Nat) : Int)', 'Int')
                raise Unsupported(f'len() of {v.typ}')
            if f.id == 'abs' and len(e.args) == 1:
                v = self.expr(e.args[0])
                if v.typ == 'R':
                    return Val(f'(GV.absR {v.text})', 'R')
                raise Unsupported(f'abs() of {v.typ}')
        hook = self.u.hooks.get('gj_call')
        return hook(self, e) if hook else None

    def gj_map_comp(self, elt, gen):
        """`[f(x) for x in xs]` (also the body of `sum(…)` / `map(lambda …)`): `List.map`, or a left-to-right `mapE` in
        `Except` when `f` may raise"""
        tgt = gen.target
        pair = isinstance(tgt, ast.Tuple) and len(tgt.elts) == 2 and all(isinstance(t, ast.Name) for t in tgt.elts)
        if not (isinstance(tgt, ast.Name) or pair) or gen.ifs:
            raise Unsupported(f'`{self.inst.qual}`: comprehension target `{ast.unparse(tgt)}`')
        xs = self.expr(gen.iter)
        if not xs.typ.startswith('List ') and 'gj_iter' in self.u.hooks:
            xs = self.u.hooks['gj_iter'](self, xs) or xs            # e.g. iteration over a JSON value
        if not xs.typ.startswith('List '):
            raise Unsupported(f'comprehension over {xs.typ}')
        x = self.gensym(lname(tgt.id) if not pair else 'pair')
        inner = self.sub()
        inner.fresh = self.fresh
        if pair:
            parts = _prod_parts(xs.typ[5:])
            if len(parts) != 2:
                raise Unsupported(f'unpacking {xs.typ[5:]} into two names')
            for i, t in enumerate(tgt.elts):
                inner.env[t.id] = Val(f'{x}.{i + 1}', parts[i], path=t.id)
                inner.narrow.pop(t.id, None)
        else:
            inner.env[tgt.id] = Val(x, xs.typ[5:], path=tgt.id)
            inner.narrow.pop(tgt.id, None)
        v = inner.expr(elt)
        self.fresh = inner.fresh
        if inner.pending:
            body = inner.wrap(f'Except.ok {_paren(v.text)}')
            r = Val(f'(GV.Py.mapE (fun {x} => (show Except String {_parenw(lean_type(v.typ))} from\n{_indent(body, 4)})) {_paren(xs.text)})',
                    'List ' + v.typ)
            r.raises = True
            return r
        return Val(f'(({xs.text}).map (fun {x} => {v.text}))', 'List ' + v.typ)


def _has_break(stmts):
    """a `break` that belongs to this loop (not to a loop nested in its body)"""
    for n in stmts:
        if isinstance(n, ast.Break):
            return True
        if isinstance(n, (ast.For, ast.While)):
            if _has_break(n.orelse):
                return True
            continue
        for field in ('body', 'orelse'):
            if _has_break([m for m in getattr(n, field, []) if isinstance(m, ast.stmt)]):
                return True
    return False


def _same_type(a, b):
    """equal type tags, where a pair of two `T` may be spelled `Pair T` (a tuple display) or `Prod T T` (an item of `zip`)"""
    import re
    norm = lambda t: re.sub(r'Pair (\w+)', r'Prod \1 \1', t)
    return norm(a) == norm(b)


def _int_const(n):
    """the value of an integer literal (`1`, `-1`), else None"""
    if isinstance(n, ast.Constant) and isinstance(n.value, int) and not isinstance(n.value, bool):
        return n.value
    if isinstance(n, ast.UnaryOp) and isinstance(n.op, ast.USub) and isinstance(n.operand, ast.Constant) \
            and isinstance(n.operand.value, int) and not isinstance(n.operand.value, bool):
        return -n.operand.value
    return None


def chars_literal(s):
    """a Python str constant as a Lean `List Char` literal"""
    def ch(c):
        return f"'{c}'" if (c.isascii() and c.isprintable() and c not in "'\\") else f'(Char.ofNat {ord(c)})'
    return '([' + ', '.join(ch(c) for c in s) + '] : List Char)'


def _prod_parts(t):
    """'Prod A B' (A, B without spaces or parenthesised) -> [A, B]"""
    if not t.startswith('Prod '):
        return [t]
    rest, parts, depth, cur = t[5:], [], 0, ''
    for ch in rest:
        if ch == '(':
            depth += 1
        elif ch == ')':
            depth -= 1
        if ch == ' ' and depth == 0:
            parts.append(cur)
            cur = ''
        else:
            cur += ch
    parts.append(cur)
    return [p[1:-1] if p.startswith('(') and p.endswith(')') else p for p in parts]


def _mutated_names(fn):
    """names whose value is mutated in place somewhere in the function (method call or augmented assignment)"""
    out = set()
    for n in ast.walk(fn):
        if isinstance(n, ast.Call) and isinstance(n.func, ast.Attribute) and isinstance(n.func.value, ast.Name) \
                and n.func.attr in ('append', 'pop', 'add', 'extend', 'insert', 'remove', 'sort', 'reverse', 'clear', 'discard', 'update'):
            out.add(n.func.value.id)
        if isinstance(n, ast.AugAssign) and isinstance(n.target, ast.Name):
            out.add(n.target.id)
    return out


def _cell_proj(text, i, n):
    """component i of an n-tuple `a × (b × (c × …))`"""
    return text + '.2' * i + ('.1' if i < n - 1 else '')


def lean_ident(py):
    """Lean name of a local class / nested function / dunder method: the Python name without its leading and trailing
    underscores (a Lean name component that starts with `_` is an internal name)"""
    return lname(py.strip('_') or py)


def _mk_prod(a, b):
    w = lambda t: f'({t})' if ' ' in t else t      # noqa: E731
    return f'Prod {w(a)} {w(b)}'


def _is_data(typ):
    """plain data compared structurally by `==`: floats-as-rationals, ints, bools, points and tuples of them"""
    if typ in ('R', 'Int', 'Bool', 'Pt', 'Dt', 'Td'):
        return True
    if typ.startswith('Prod '):
        return all(_is_data(p) for p in _prod_parts(typ))
    return False


def _path(e):
    if isinstance(e, ast.Name):
        return e.id
    if isinstance(e, ast.Attribute):
        p = _path(e.value)
        return f'{p}.{e.attr}' if p else None
    return None


def _indent(s, n=2):
    return textwrap.indent(s, ' ' * n)


def _lean_str(s):
    """a Lean string literal"""
    out = []
    for ch in s:
        if ch in ('"', '\\'):
            out.append('\\' + ch)
        elif ch == '\n':
            out.append('\\n')
        elif ch == '\t':
            out.append('\\t')
        elif 32 <= ord(ch) < 127:
            out.append(ch)
        else:
            out.append('\\u{%x}' % ord(ch))
    return '"' + ''.join(out) + '"'
