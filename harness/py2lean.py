"""
py2lean — a translator from a small, statically typed subset of Python to Lean 4.

It reads the *current* source text of the anchored functions in /repo (never an imported snapshot), and
emits `lean/GeoVerif/Gen/Src*.lean`: one Lean definition per (method, argument-type) instance.  Those
definitions are what the code *says now*; `Props/*Src.lean` proves them equal to the hand-written models the
property theorems are stated over, so the theorems hold of the translated source.  When the source is
rewritten the translation changes with it and the equalities are re-checked by Lean on the next run.

Subset (decision logic): `if`/`return`/`raise`, local (tuple) assignment, comparisons incl. chains and
`in` / `not in`, `and` / `or` / `not`, conditional expressions, `min` / `max`, `+` / `-`, attribute reads,
properties, method calls resolved by the static type of the receiver, constructor calls, `isinstance`
and `is None` tests decided statically from the declared type of the instance (one instance per member of a
`Union`), truthiness of `Optional[...]`, early-exit `for` loops and `any(...)` / `all(...)` over a list.

What is *not* translated is either rejected (`Unsupported`: the source tie is reported broken and the check
escalates its search) or, for a named helper whose meaning is fixed by the harness abstraction (for instance
`_default_to_zulu`: datetimes are exchanged as UTC instants), *pinned*: the helper's AST must be the one recorded
in `PINS`, otherwise the tie is broken as well.
"""
import ast
import hashlib
import os
import textwrap


class Unsupported(Exception):
    pass


def _src_of(path):
    with open(path, encoding='utf-8') as f:
        return f.read()


def norm_dump(node):
    """AST dump of a function without its docstring (comments and layout are not part of an AST)"""
    node = ast.parse(ast.unparse(node)).body[0]
    if (node.body and isinstance(node.body[0], ast.Expr) and isinstance(getattr(node.body[0], 'value', None), ast.Constant)
            and isinstance(node.body[0].value.value, str)):
        node.body = node.body[1:] or [ast.Pass()]
    return ast.dump(node, annotate_fields=False)


def pin_of(node):
    return hashlib.sha1(norm_dump(node).encode()).hexdigest()[:16]


class Source:
    """functions and methods of one source file, by qualified name"""

    def __init__(self, path):
        self.path = path
        self.tree = ast.parse(_src_of(path))
        self.defs = {}
        for n in self.tree.body:
            if isinstance(n, ast.FunctionDef):
                self.defs[n.name] = n
            elif isinstance(n, ast.ClassDef):
                for m in n.body:
                    if isinstance(m, ast.FunctionDef):
                        self.defs[f'{n.name}.{m.name}'] = m

    def get(self, qual):
        if qual not in self.defs:
            raise Unsupported(f'{os.path.basename(self.path)}: `{qual}` not found')
        return self.defs[qual]

    def is_property(self, qual):
        f = self.defs.get(qual)
        return bool(f) and any(isinstance(d, ast.Name) and d.id in ('property', 'cached_property') or
                               isinstance(d, ast.Attribute) and d.attr in ('cached_property',) for d in f.decorator_list)

    def decorators(self, qual):
        return [ast.unparse(d) for d in self.get(qual).decorator_list]


# ----------------------------------------------------------------------------------------------------------
# instances


class Inst:
    """one Lean definition: a function/method at fixed static argument types

    qual    'Class.method' or 'function'        lean     Lean name (inside the unit's namespace)
    params  [(python name, type)]               ret      Lean result type: the value type, prefixed 'Except ' if it may raise
    binders Lean binder text of each param (defaults to `(name : type)`)
    """

    def __init__(self, qual, lean, params, ret, doc='', kw=None, state=()):
        self.qual, self.lean, self.params, self.ret, self.doc = qual, lean, list(params), ret, doc
        self.kw = kw                # (python name, type) of a `**kwargs` parameter that is a real binder of the definition
        self.state = tuple(state)   # parameters the function mutates: their final values are returned next to the result

    @property
    def raises(self):
        return self.ret.startswith('Except ')

    @property
    def value_type(self):
        return self.ret[len('Except '):] if self.raises else self.ret

    def key(self):
        return (self.qual, tuple(t for _n, t in self.params[1:])) if self.params and self.params[0][0] == 'self' \
            else (self.qual, tuple(t for _n, t in self.params))


LEAN_TYPE = {'Dt': 'Int', 'Td': 'Int', 'Int': 'Int', 'Bool': 'Bool', 'TI': 'GV.TI', 'Opt TI': 'Option GV.TI',
             'Pair Dt': 'Int × Int', 'None': 'Unit', 'R': 'Rat', 'Pt': 'GV.Pt'}


def lean_type(t):
    if t.startswith('Except '):
        return 'Except String ' + _ptype(lean_type(t[7:]))
    if t.startswith('Prod '):
        return ' × '.join(_paren(lean_type(p)) for p in _prod_parts(t))
    if t.startswith('List '):
        return 'List ' + _paren(lean_type(t[5:]))
    if t.startswith('Fn '):
        dom, cod = t.split()[1:3]
        return f'{lean_type(dom)} → {lean_type(cod)}'
    if t.startswith('Set '):
        return 'List ' + _paren(lean_type(t[4:]))
    if t.startswith('Opt ') and t not in LEAN_TYPE:
        return 'Option ' + _paren(lean_type(t[4:]))
    if t.startswith('Tuple') and ' ' in t:
        n, et = int(t.split()[0][5:]), t.split(' ', 1)[1]
        return ' × '.join([_paren(lean_type(et))] * n)
    if t in LEAN_TYPE:
        return LEAN_TYPE[t]
    return t


def _ptype(s):
    """a Lean type as an argument: parenthesised unless atomic or already enclosed (`(A) × B` is not enclosed)"""
    if ' ' not in s:
        return s
    if s.startswith('('):
        depth = 0
        for i, ch in enumerate(s):
            depth += ch == '('
            depth -= ch == ')'
            if depth == 0:
                if i == len(s) - 1:
                    return s
                break
    return f'({s})'


def _paren(s):
    return f'({s})' if ' ' in s and not s.startswith('(') else s


LEAN_RESERVED = {'end', 'at', 'from', 'in', 'then', 'else', 'do', 'let', 'fun', 'match', 'with', 'where', 'instance', 'class',
                 'structure', 'open', 'section', 'namespace', 'variable', 'theorem', 'def', 'by', 'have', 'show', 'if', 'mut',
                 'return', 'for', 'unless', 'private', 'local', 'prefix', 'infix', 'notation', 'macro', 'syntax', 'universe',
                 'type', 'Type', 'Prop', 'Sort', 'deriving', 'extends', 'import', 'export', 'mutual', 'abbrev', 'axiom', 'opaque',
                 'example', 'inductive', 'set_option', 'attribute', 'using', 'calc', 'exact', 'other'} - {'other'}


def lname(py):
    return py + "'" if py in LEAN_RESERVED else py


# ----------------------------------------------------------------------------------------------------------
# the translator proper


class Unit:
    """one generated Lean file"""

    def __init__(self, name, source, namespace, imports, insts, classes, pins=None, header='', attr_types=None,
                 intrinsics=None, hooks=None, ctx_params=(), externals=None, abstract=None):
        self.name, self.src, self.ns, self.imports = name, source, namespace, imports
        self.insts = insts
        self.by_key = {}
        for i in insts:
            self.by_key.setdefault(i.key(), i)
        self.classes = classes              # static type -> python class name, e.g. {'TI': 'TimeInterval'}
        self.pins = pins or {}              # qual -> pinned AST digest
        self.header = header
        self.attr_types = attr_types or {}  # (type, attribute) -> (lean field text template, type)
        self.intrinsics = intrinsics or {}  # qual -> function(args[(text, type)]) -> (text, type)
        self.hooks = hooks or {}
        self.ctx_params = list(ctx_params)  # [(lean name, lean type)] leading binders of every definition (e.g. the world)
        self.externals = externals or {}    # key -> Inst of another unit (its `.lean` is fully qualified)
        self.abstract = abstract or {}      # (receiver type, method, arg types) -> (lean text template, result type)
        self.notes = []

    # ---- lookups -------------------------------------------------------------------------------------
    def class_of(self, typ):
        return self.classes.get(typ)

    def find(self, qual, argtypes):
        i = self.by_key.get((qual, tuple(argtypes))) or self.externals.get((qual, tuple(argtypes)))
        if i is None:
            raise Unsupported(f'no instance declared for `{qual}` at argument types {tuple(argtypes)}')
        return i

    # ---- emission ------------------------------------------------------------------------------------
    def render(self):
        for qual, digest in self.pins.items():
            if '::' in qual:            # 'relative/file.py::qual' — a helper that lives in another file
                rel, q = qual.split('::', 1)
                node = Source(os.path.join(os.path.dirname(self.src.path), rel)).get(q)
            else:
                node = self.src.get(qual)
            got = pin_of(node)
            if got != digest:
                raise Unsupported(f'pinned helper `{qual}` changed (AST digest {got}, pinned {digest})')
        out = [f'import {m}' for m in self.imports]
        out += ['/-!', f'# GENERATED by harness/py2lean.py from `{os.path.relpath(self.src.path, os.path.dirname(os.path.dirname(self.src.path)))}`'
               ' on every run. Do not edit.', '',
               'One definition per (function, static argument types) instance of the current source text.', '-/']
        out += ['', 'set_option linter.unusedVariables false', '', f'namespace {self.ns}', '']
        if self.header:
            out += [self.header, '']
        for inst in self.insts:
            out += self.render_inst(inst) + ['']
        out += [f'end {self.ns}', '']
        return '\n'.join(out)

    def render_inst(self, inst):
        fn = self.src.get(inst.qual)
        tr = FnTr(self, inst, fn)
        body = tr.function_body()
        binders = ' '.join([f'({n} : {t})' for n, t in self.ctx_params] +
                           [f'({lname(n)} : {lean_type(t)})' for n, t in inst.params if t != 'None'] +
                           ([f'({lname(inst.kw[0])} : {lean_type(inst.kw[1])})'] if inst.kw else []))
        shown = ast.parse(ast.unparse(fn)).body[0]
        if (shown.body and isinstance(shown.body[0], ast.Expr) and isinstance(getattr(shown.body[0], 'value', None), ast.Constant)
                and isinstance(shown.body[0].value.value, str) and len(shown.body) > 1):
            shown.body = shown.body[1:]
        src_lines = ast.unparse(shown).split('\n')
        doc = [f'/-- `{inst.qual}`' + (f' — {inst.doc}' if inst.doc else '') +
               (' at ' + ', '.join(f'{n}: {t}' for n, t in inst.params[1:]) if len(inst.params) > 1 else ''), '```']
        doc += [ln.replace('-/', '- /') for ln in src_lines if not ln.strip().startswith(('"""', "'''"))][:40]
        doc += ['```', '-/']
        head = f'def {inst.lean} {binders} : {lean_type(inst.ret)} :='
        pre = []
        for a in reversed(tr.aux):            # inner loops were completed first and are used by the outer ones
            pre += a.split('\n') + ['']
        return pre + doc + [head] + ['  ' + ln for ln in body.split('\n')]


class Val:
    """a translated expression: Lean text, static type, and (for narrowing) the access path it reads"""

    def __init__(self, text, typ, path=None):
        self.text, self.typ, self.path = text, typ, path


class FnTr:
    def __init__(self, unit, inst, fn):
        self.u, self.inst, self.fn = unit, inst, fn
        self.env = {}            # python local -> Val
        self.narrow = {}         # access path -> Val (after a truthiness / `is None` test)
        self.fresh = 0
        self.pending = []        # raising calls met inside an expression: (bound name, Lean text), innermost last
        self.on_fall = None      # inside a loop body: what "falling off the end" means (next iteration)
        self.aux = []            # auxiliary recursive definitions (loops), emitted before the function
        self.fields = {}         # __init__: attribute -> Val
        for n, t in inst.params:
            self.env[n] = Val(lname(n), t, path=n)
        if fn.args.kwarg is not None:
            self.env[fn.args.kwarg.arg] = Val('()', 'Kw')          # **kwargs: only what a unit's `method` hook reads from it
            if inst.kw:                                              # … or a declared binder (a record the unit's hooks read)
                self.env[fn.args.kwarg.arg] = Val(lname(inst.kw[0]), inst.kw[1], path=inst.kw[0])
        want = [a.arg for a in fn.args.args]
        have = [n for n, _t in inst.params]
        if want[:len(have)] != have and not (fn.args.kwarg or fn.args.vararg or len(want) > len(have)):
            raise Unsupported(f'`{inst.qual}`: parameters {want} do not match the declared instance {have}')
        if have != want[:len(have)]:
            raise Unsupported(f'`{inst.qual}`: parameters {want} do not match the declared instance {have}')
        # parameters beyond the declared ones must have defaults (they keep them)
        extra = want[len(have):]
        if len(extra) > len(fn.args.defaults):
            raise Unsupported(f'`{inst.qual}`: undeclared parameters without default: {extra}')
        for n, d in zip(reversed(want), reversed(fn.args.defaults)):
            if n in extra:
                if isinstance(d, ast.Constant) and isinstance(d.value, bool):
                    self.env[n] = Val('true' if d.value else 'false', 'Bool')
                elif isinstance(d, ast.Constant) and d.value is None:
                    self.env[n] = Val('()', 'None')
                # other defaults stay unbound: using them is reported as an unsupported name

    def sub(self):
        c = FnTr.__new__(FnTr)
        c.u, c.inst, c.fn = self.u, self.inst, self.fn
        c.env, c.narrow, c.fields = dict(self.env), dict(self.narrow), dict(self.fields)
        c.fresh = self.fresh
        c.pending = []
        c.on_fall = self.on_fall
        c.aux = self.aux         # shared: loops met in any branch are emitted once, before the function
        return c

    def wrap(self, text):
        """bind the raising calls met while translating the expression(s) `text` reads, in evaluation order"""
        for name, call in reversed(self.pending):
            text = f'match {call} with\n| Except.error e => Except.error e\n| Except.ok {name} =>\n{_indent(text)}'
        self.pending = []
        return text

    def gensym(self, base):
        self.fresh += 1
        return f'{base}_{self.fresh}'

    # ---- results ---------------------------------------------------------------------------------------
    def ok(self, text):
        return f'Except.ok {_paren(text)}' if self.inst.raises else text

    def err(self, exc):
        if not self.inst.raises:
            raise Unsupported(f'`{self.inst.qual}`: reachable `raise` in an instance declared not to raise')
        name = {'ValueError': 'ERR:Value', 'TypeError': 'ERR:Type', 'KeyError': 'ERR:Key', 'IndexError': 'ERR:Index',
                'NotImplementedError': 'ERR:Other:NotImplementedError'}.get(exc, 'ERR:Other:' + exc)
        return f'Except.error "{name}"'

    # ---- statements ------------------------------------------------------------------------------------
    def function_body(self):
        body = list(self.fn.body)
        if body and isinstance(body[0], ast.Expr) and isinstance(body[0].value, ast.Constant) and isinstance(body[0].value.value, str):
            body = body[1:]
        return self.block(body)

    def always_returns(self, stmts):
        for s in stmts:
            if isinstance(s, (ast.Return, ast.Raise)):
                return True
            if isinstance(s, ast.If):
                st = self.static_test(s.test)
                if st is True and self.always_returns(s.body):
                    return True
                if st is False and self.always_returns(s.orelse):
                    return True
                if st is None and self.always_returns(s.body) and s.orelse and self.always_returns(s.orelse):
                    return True
        return False

    def block(self, stmts):
        if not stmts:
            if self.on_fall is not None:
                return self.on_fall(self)
            if self.inst.qual.endswith('.__init__'):
                return self.finish_init()
            raise Unsupported(f'`{self.inst.qual}`: control can fall off the end (returns None)')
        s, rest = stmts[0], stmts[1:]
        if isinstance(s, (ast.Pass, ast.Import, ast.ImportFrom)):
            return self.block(rest)
        if isinstance(s, ast.Expr):
            if isinstance(s.value, ast.Constant):
                return self.block(rest)
            if self.is_super_init(s.value):
                return self.block(rest)
            if self.is_super_init(s.value, any_args=True) and 'super_init' in self.u.hooks:
                vals = [self.expr(a) for a in s.value.args]
                pend, self.pending = self.pending, []
                self.u.hooks['super_init'](self, vals)
                inner = self.block(rest)
                self.pending = pend
                return self.wrap(inner)
            c = s.value
            if isinstance(c, ast.Call) and isinstance(c.func, ast.Attribute) and c.func.attr == 'add' and len(c.args) == 1 \
                    and isinstance(c.func.value, ast.Name) and c.func.value.id in self.env \
                    and self.env[c.func.value.id].typ.startswith('Set '):
                # `seen.add(x)` on a local set (modelled as the list of its elements, newest first)
                n = c.func.value.id
                v = self.expr(c.args[0])
                old = self.env[n]
                nm = self.gensym(lname(n))
                self.env[n] = Val(nm, 'Set ' + v.typ, path=n)
                return f'let {nm} := ({v.text} :: {old.text})\n' + self.block(rest)
            if isinstance(c, ast.Call) and isinstance(c.func, ast.Attribute) and c.func.attr == 'append' and len(c.args) == 1 \
                    and isinstance(c.func.value, ast.Name) and c.func.value.id in self.env \
                    and self.env[c.func.value.id].typ.startswith('List '):
                n = c.func.value.id
                v = self.expr(c.args[0])
                old = self.env[n]
                if old.typ != 'List ' + v.typ:
                    raise Unsupported(f'append of {v.typ} to {old.typ}')
                nm = self.gensym(lname(n))
                self.env[n] = Val(nm, old.typ, path=n)
                pend, self.pending = self.pending, []            # a raising call in the appended value is bound first
                inner = f'let {nm} := ({old.text} ++ [{v.text}])\n' + self.block(rest)
                self.pending = pend
                return self.wrap(inner)
            hook = self.u.hooks.get('expr_stmt')
            if hook and hook(self, s.value):
                return self.block(rest)
            raise Unsupported(f'`{self.inst.qual}`: expression statement `{ast.unparse(s)}`')
        if isinstance(s, ast.Return):
            if s.value is None:
                return self.ret_value(ast.Constant(value=None))       # a bare `return` returns None
            return self.ret_value(s.value)
        if isinstance(s, ast.Raise):
            exc = s.exc
            name = exc.func.id if isinstance(exc, ast.Call) and isinstance(exc.func, ast.Name) else (exc.id if isinstance(exc, ast.Name) else None)
            if name is None:
                raise Unsupported(f'`{self.inst.qual}`: raise of `{ast.unparse(s)}`')
            return self.err(name)
        if isinstance(s, ast.If):
            return self.if_stmt(s, rest)
        if isinstance(s, (ast.Assign, ast.AnnAssign)):
            return self.assign(s, rest)
        if isinstance(s, ast.For):
            return self.for_stmt(s, rest)
        if isinstance(s, ast.While):
            return self.while_stmt(s, rest)
        more = self.block_more(s, rest)
        if more is not None:
            return more
        raise Unsupported(f'`{self.inst.qual}`: statement `{type(s).__name__}`: {ast.unparse(s)[:80]}')

    def is_super_init(self, e, any_args=False):
        return (isinstance(e, ast.Call) and isinstance(e.func, ast.Attribute) and e.func.attr == '__init__'
                and isinstance(e.func.value, ast.Call) and isinstance(e.func.value.func, ast.Name)
                and e.func.value.func.id == 'super' and (any_args or not e.args) and not e.keywords)

    def ret_value(self, e):
        # a call of a raising instance in return position is the result itself
        if isinstance(e, ast.BoolOp) and self.inst.raises and self.inst.value_type == 'Bool' and not self.has_optional_test(e):
            first, others = e.values[0], e.values[1:]
            more = others[0] if len(others) == 1 else ast.BoolOp(op=e.op, values=others)
            if isinstance(e.op, ast.Or):
                return self.branch(first, lambda tr: tr.ok('true'), lambda tr: tr.ret_value(more))
            return self.branch(first, lambda tr: tr.ret_value(more), lambda tr: tr.ok('false'))
        v = self.expr(e, allow_raise=True)
        want = self.inst.value_type
        if self.inst.state:
            return self.ret_with_state(v)
        if getattr(v, 'raises', False):
            if not self.inst.raises:
                raise Unsupported(f'`{self.inst.qual}`: returns a call that may raise, but is declared not to raise')
            if v.typ == want:
                return self.wrap(v.text)
            if want == 'Opt ' + v.typ:
                return self.wrap(f'({v.text}).map some')
            raise Unsupported(f'`{self.inst.qual}`: returns {v.typ}, declared {want}')
        return self.wrap(self.ok(self.coerce(v, want)))

    def coerce(self, v, want):
        if v.typ == want:
            return v.text
        if want == 'Opt ' + v.typ:
            return f'some {_paren(v.text)}'
        if v.typ == 'None' and want.startswith('Opt '):
            return 'none'
        if want == 'Bool' and v.typ.startswith('Opt '):
            raise Unsupported(f'`{self.inst.qual}`: returns an Optional where a bool is declared')
        if 'coerce' in self.u.hooks:
            r = self.u.hooks['coerce'](self, v, want)
            if r is not None:
                return r
        raise Unsupported(f'`{self.inst.qual}`: value of type {v.typ} where {want} is declared: `{v.text}`')

    def if_stmt(self, s, rest):
        st = self.static_test(s.test)
        if st is True:
            return self.block(s.body + ([] if self.always_returns(s.body) else rest))
        if st is False:
            return self.block(s.orelse + ([] if s.orelse and self.always_returns(s.orelse) else rest))
        then_stmts = s.body + ([] if self.always_returns(s.body) else rest)
        else_stmts = (s.orelse + ([] if s.orelse and self.always_returns(s.orelse) else rest))
        return self.branch(s.test, lambda tr: tr.block(then_stmts), lambda tr: tr.block(else_stmts))

    def branch(self, test, then_k, else_k):
        """Lean text of `if test then … else …`, with Optional truthiness / None tests turned into matches that bind the
        narrowed value for the branch in which it is known to be present"""
        # not X
        if isinstance(test, ast.UnaryOp) and isinstance(test.op, ast.Not):
            return self.branch(test.operand, else_k, then_k)
        # A and B  ==  if A then (if B then T else E) else E
        if isinstance(test, ast.BoolOp) and isinstance(test.op, ast.And) and self.has_optional_test(test):
            first, others = test.values[0], test.values[1:]
            more = others[0] if len(others) == 1 else ast.BoolOp(op=ast.And(), values=others)
            return self.branch(first, lambda tr: tr.branch(more, then_k, else_k), else_k)
        if isinstance(test, ast.BoolOp) and isinstance(test.op, ast.Or) and self.has_optional_test(test):
            first, others = test.values[0], test.values[1:]
            more = others[0] if len(others) == 1 else ast.BoolOp(op=ast.Or(), values=others)
            return self.branch(first, then_k, lambda tr: tr.branch(more, then_k, else_k))
        if isinstance(test, ast.Compare) and len(test.ops) == 1 and isinstance(test.ops[0], (ast.Is, ast.IsNot)):
            st = self.static_test(test)         # `x is None` on a value already narrowed (or declared) non-optional
            if st is not None:
                return (then_k if st else else_k)(self)
        opt = self.optional_test(test)
        if opt is not None and not isinstance(test, ast.Compare) and opt[0].typ[4:] not in self.u.hooks.get('always_truthy', ()) \
                and 'truth' in self.u.hooks:
            # plain truthiness of an Optional whose value can itself be falsy (`if self.z:` with z = 0.0)
            v, _pos = opt
            name = self.gensym('d')
            c = self.truth(Val(name, v.typ[4:]))
            t_some, t_falsy, t_none = self.sub(), self.sub(), self.sub()
            t_some.fresh = t_falsy.fresh = t_none.fresh = self.fresh
            t_some.narrow[v.path] = t_falsy.narrow[v.path] = Val(name, v.typ[4:], path=v.path)
            some_txt = f'if {c} then\n{_indent(then_k(t_some))}\nelse\n{_indent(else_k(t_falsy))}'
            return self.wrap(f'match {v.text} with\n| some {name} =>\n{_indent(some_txt)}\n| none =>\n{_indent(else_k(t_none))}')
        if opt is not None:
            v, present_is_true = opt
            name = self.gensym('d')
            t_some, t_none = self.sub(), self.sub()
            t_some.fresh = t_none.fresh = self.fresh
            t_some.narrow[v.path] = Val(name, v.typ[4:], path=v.path)
            some_txt = (then_k if present_is_true else else_k)(t_some)
            none_txt = (else_k if present_is_true else then_k)(t_none)
            return self.wrap(f'match {v.text} with\n| some {name} =>\n{_indent(some_txt)}\n| none =>\n{_indent(none_txt)}')
        c = self.truth(self.expr(test))
        a, b = self.sub(), self.sub()
        a.fresh = b.fresh = self.fresh
        return self.wrap(f'if {c} then\n{_indent(then_k(a))}\nelse\n{_indent(else_k(b))}')

    def has_optional_test(self, test):
        if isinstance(test, ast.BoolOp):
            return any(self.has_optional_test(v) for v in test.values)
        if isinstance(test, ast.UnaryOp) and isinstance(test.op, ast.Not):
            return self.has_optional_test(test.operand)
        return self.optional_test(test) is not None

    def optional_test(self, test):
        """(value, True) for `x` / `x is not None`, (value, False) for `x is None`, when x is a pure Optional access path"""
        node, positive = test, True
        if isinstance(test, ast.Compare) and len(test.ops) == 1 and isinstance(test.comparators[0], ast.Constant) \
                and test.comparators[0].value is None and isinstance(test.ops[0], (ast.Is, ast.IsNot)):
            node, positive = test.left, isinstance(test.ops[0], ast.IsNot)
        elif isinstance(test, (ast.Compare, ast.BoolOp, ast.UnaryOp, ast.Call)):
            return None
        npend, nfresh = len(self.pending), self.fresh
        try:
            v = self.expr(node)
        except Unsupported:
            return None
        if v.path is not None and v.typ.startswith('Opt '):
            return v, positive
        del self.pending[npend:]        # a probe only: raising calls met on the way are bound where the test is translated
        self.fresh = nfresh if len(self.pending) == npend else self.fresh
        return None

    def static_test(self, test):
        """True / False when the test is decided by the static types of this instance, else None"""
        if isinstance(test, ast.Call) and isinstance(test.func, ast.Name) and test.func.id == 'isinstance' and len(test.args) == 2:
            v = self.expr(test.args[0])
            names = [n.id if isinstance(n, ast.Name) else ast.unparse(n) for n in
                     (test.args[1].elts if isinstance(test.args[1], ast.Tuple) else [test.args[1]])]
            mine = self.u.hooks['isinstance'](v.typ) if 'isinstance' in self.u.hooks else None
            if mine is None:
                raise Unsupported(f'`{self.inst.qual}`: isinstance on a value of type {v.typ}')
            return any(n in mine for n in names)
        if isinstance(test, ast.Compare) and len(test.ops) == 1 and isinstance(test.ops[0], (ast.Is, ast.IsNot)) \
                and isinstance(test.comparators[0], ast.Constant) and test.comparators[0].value is None:
            try:
                v = self.expr(test.left)
            except Unsupported:
                return None
            if v.typ == 'None':
                return isinstance(test.ops[0], ast.Is)
            if not v.typ.startswith('Opt '):
                return isinstance(test.ops[0], ast.IsNot)
            return None
        if isinstance(test, ast.UnaryOp) and isinstance(test.op, ast.Not):
            r = self.static_test(test.operand)
            return None if r is None else (not r)
        if isinstance(test, ast.BoolOp):
            rs = [self.static_test(v) for v in test.values]
            if isinstance(test.op, ast.Or):
                if any(r is True for r in rs):
                    # sound only if the operands before the first statically-true one have no effects: they are pure here
                    return True
                if all(r is False for r in rs):
                    return False
            else:
                if any(r is False for r in rs):
                    return False
                if all(r is True for r in rs):
                    return True
            return None
        if isinstance(test, ast.Constant) and isinstance(test.value, bool):
            return test.value
        if isinstance(test, ast.Name) and test.id in self.env and test.id not in self.narrow and self.env[test.id].typ == 'None':
            return False            # a parameter left at (or an instance declared at) None
        return None

    def assign(self, s, rest):
        if isinstance(s, ast.AnnAssign):
            targets, value = [s.target], s.value
        else:
            targets, value = s.targets, s.value
        if len(targets) != 1:
            raise Unsupported(f'`{self.inst.qual}`: chained assignment')
        tgt = targets[0]
        if isinstance(tgt, ast.Tuple) and not isinstance(value, ast.Tuple):
            v = self.expr(value)
            n = len(tgt.elts)
            if v.typ.startswith('Prod ') and n == 2:
                parts = _prod_parts(v.typ)
                tmp = self.gensym('t')
                for i, t in enumerate(tgt.elts):
                    if not isinstance(t, ast.Name):
                        raise Unsupported(f'`{self.inst.qual}`: unpacking into `{ast.unparse(t)}`')
                    self.env[t.id] = Val(f'{tmp}.{i + 1}', parts[i], path=t.id)
                    self.narrow.pop(t.id, None)
                return self.wrap(f'let {tmp} := {v.text}\n' + self.block(rest))
            if not (v.typ.startswith('Tuple') and v.typ.split()[0] == f'Tuple{n}'):
                raise Unsupported(f'`{self.inst.qual}`: tuple assignment from a non-tuple')
            et = v.typ.split(' ', 1)[1]
            tmp = self.gensym('t')
            projs = [f'{tmp}' + '.2' * i + ('.1' if i < n - 1 else '') for i in range(n)]
            for t, pr in zip(tgt.elts, projs):
                if not isinstance(t, ast.Name):
                    raise Unsupported(f'`{self.inst.qual}`: unpacking into `{ast.unparse(t)}`')
                self.env[t.id] = Val(pr, et, path=t.id)
                self.narrow.pop(t.id, None)
            return self.wrap(f'let {tmp} := {v.text}\n' + self.block(rest))
        if isinstance(tgt, ast.Tuple):
            if not isinstance(value, ast.Tuple) or len(value.elts) != len(tgt.elts):
                raise Unsupported(f'`{self.inst.qual}`: tuple assignment from a non-tuple')
            vals = [self.expr(e) for e in value.elts]        # right-hand sides are all evaluated first
            pairs = list(zip(tgt.elts, vals))
        else:
            v = self.expr(value, allow_raise=True)
            if '?' in v.typ and isinstance(tgt, ast.Name):
                hint = self.u.hooks.get('local_type', lambda q, n: None)(self.inst.qual, tgt.id)
                if not hint:
                    raise Unsupported(f'`{self.inst.qual}`: element type of `{tgt.id}` is not declared')
                v = Val(f'({v.text} : {lean_type(hint)})', hint)
            pairs = [(tgt, v)]
        lets = []
        for t, v in pairs:
            if isinstance(t, ast.Name) and t.id in self.env and self.env[t.id].typ == 'R' and v.typ == 'Int':
                v = Val(f'({v.text} : Rat)', 'R')       # an int literal assigned to a float variable
            if isinstance(t, ast.Name):
                if getattr(v, 'raises', False):
                    nm = self.gensym(lname(t.id))
                    self.env[t.id] = Val(nm, v.typ, path=t.id)
                    self.env[t.id].fresh_dict = getattr(v, 'fresh_dict', False)
                    self.narrow.pop(t.id, None)
                    pend, self.pending = self.pending, []       # raising calls among the arguments are bound before this call
                    inner = self.block(rest)
                    self.pending = pend
                    return self.wrap('\n'.join(lets + [f'match {v.text} with', '| Except.error e => Except.error e', f'| Except.ok {nm} =>', _indent(inner)]))
                nm = self.gensym(lname(t.id))
                if self.pending:
                    self.env[t.id] = Val(nm, v.typ, path=t.id)
                    self.env[t.id].fresh_dict = getattr(v, 'fresh_dict', False)
                    self.narrow.pop(t.id, None)
                    if (t, v) != pairs[-1]:
                        lets.append(f'let {nm} := {v.text}')       # `a, b = xs[0], y`: bound below, inside the wrap
                        continue
                    pend, self.pending = self.pending, []
                    inner = self.block(rest)
                    self.pending = pend
                    return self.wrap('\n'.join(lets + [f'let {nm} := {v.text}\n{inner}']))
                lets.append(f'let {nm} := {v.text}')
                self.env[t.id] = Val(nm, v.typ, path=t.id)
                self.env[t.id].fresh_dict = getattr(v, 'fresh_dict', False)       # a dict made here may be stored into
                self.narrow.pop(t.id, None)
            elif isinstance(t, ast.Attribute) and isinstance(t.value, ast.Name) and t.value.id == 'self' \
                    and self.inst.qual.endswith('.__init__'):
                self.fields[t.attr] = v
            elif isinstance(t, ast.Subscript) and (t, v) == pairs[-1]:
                return '\n'.join(lets + [self.assign_item(t, v, rest)])
            else:
                raise Unsupported(f'`{self.inst.qual}`: assignment to `{ast.unparse(t)}`')
        return '\n'.join(lets + [self.block(rest)])

    def finish_init(self):
        hook = self.u.hooks.get('init')
        if not hook:
            raise Unsupported(f'`{self.inst.qual}`: constructor without a record hook')
        return self.ok(hook(self, self.fields))

    def for_stmt(self, s, rest):
        """`for x in xs: if c: return K` (early exit, nothing else in the body), then the rest"""
        if s.orelse:
            raise Unsupported(f'`{self.inst.qual}`: for/else')
        xs = self.expr(s.iter)
        if not xs.typ.startswith('List ') and 'iter' in self.u.hooks:
            xs = self.u.hooks['iter'](self, xs) or xs
        if not xs.typ.startswith('List '):
            raise Unsupported(f'`{self.inst.qual}`: loop over {xs.typ}')
        pair = isinstance(s.target, ast.Tuple) and len(s.target.elts) == 2 and all(isinstance(t, ast.Name) for t in s.target.elts) \
            and len(_prod_parts(xs.typ[5:])) == 2
        if (isinstance(s.target, ast.Name) or pair) and len(s.body) == 1 and isinstance(s.body[0], ast.If) and not s.body[0].orelse and len(s.body[0].body) == 1 \
                and isinstance(s.body[0].body[0], ast.Return) and isinstance(s.body[0].body[0].value, ast.Constant) \
                and isinstance(s.body[0].body[0].value.value, bool):
            k = s.body[0].body[0].value.value
            x = self.gensym(lname(s.target.id) if not pair else 'pair')
            inner = self.sub()
            inner.fresh = self.fresh
            if pair:
                for i, (t, pt) in enumerate(zip(s.target.elts, _prod_parts(xs.typ[5:]))):
                    inner.env[t.id] = Val(f'{x}.{i + 1}', pt, path=t.id)
            else:
                inner.env[s.target.id] = Val(x, xs.typ[5:], path=s.target.id)
            c = inner.truth(inner.expr(s.body[0].test))
            if inner.pending:
                raise Unsupported(f'`{self.inst.qual}`: a call that may raise inside a loop test')
            self.fresh = inner.fresh
            pend, self.pending = self.pending, []
            after = self.block(rest)
            self.pending = pend
            return self.wrap(f'if ({xs.text}).any (fun {x} => {c}) then {self.ok("true" if k else "false")} else\n{_indent(after)}')
        return self.for_general(s, rest, xs)

    def while_stmt(self, s, rest):
        """`while c: body` (assignments only) as a *fuelled* recursion: an auxiliary definition over a `Nat` fuel and the
        assigned variables; fuel 0 and a false condition both continue with the code after the loop.  The fuel handed in at
        the call is the unit's (`hooks['fuel']`): a bound the property proofs show is never exhausted."""
        if s.orelse:
            raise Unsupported(f'`{self.inst.qual}`: while/else')
        assigned = set()
        for n in ast.walk(ast.Module(body=s.body, type_ignores=[])):
            if isinstance(n, (ast.Assign, ast.AugAssign, ast.AnnAssign)):
                for t in (n.targets if isinstance(n, ast.Assign) else [n.target]):
                    for m in ast.walk(t):
                        if isinstance(m, ast.Name):
                            assigned.add(m.id)
            if isinstance(n, (ast.For, ast.While, ast.Break, ast.Continue, ast.Try, ast.With, ast.Return, ast.Raise)):
                raise Unsupported(f'`{self.inst.qual}`: `{type(n).__name__}` inside a while body')
        state = [n for n in self.env if n in assigned]
        if set(state) != assigned:
            raise Unsupported(f'`{self.inst.qual}`: while body assigns names that are not defined before the loop')
        fixed = [n for n in self.env if n not in state and self.env[n].typ not in ('None', 'Kw')]
        loop = f'{self.inst.lean}.loop{len(self.aux) + 1}'
        index = len(self.aux) + 1
        self.aux.append(None)
        slot = len(self.aux) - 1
        fuel_hook = self.u.hooks.get('fuel')
        fuel_t = fuel_hook(self.inst.qual, index) if fuel_hook else None
        if not fuel_t:
            raise Unsupported(f'`{self.inst.qual}`: no fuel declared for while loop {index}')
        fuel_call = fuel_t.format(**{n: self.env[n].text for n in self.env})
        ctx = [n for n, _t in self.u.ctx_params]
        aux = self.sub()
        aux.fresh = self.fresh
        aux.narrow = {}
        fixed_b, state_b = [], []
        for n in fixed:
            nm = aux.gensym(lname(n))
            fixed_b.append((nm, self.env[n].typ))
            aux.env[n] = Val(nm, self.env[n].typ, path=n)
        for n in state:
            nm = aux.gensym(lname(n))
            state_b.append((nm, self.env[n].typ))
            aux.env[n] = Val(nm, self.env[n].typ, path=n)
        fuel = aux.gensym('fuel')
        after_tr = aux.sub()
        after_tr.fresh = aux.fresh
        after_tr.on_fall = self.on_fall
        after = after_tr.block(rest)
        body_tr = aux.sub()
        body_tr.fresh = after_tr.fresh
        cond = body_tr.truth(body_tr.expr(s.test))
        if body_tr.pending:
            raise Unsupported(f'`{self.inst.qual}`: a call that may raise in a while test')

        def again(tr):
            return ' '.join([loop] + ctx + [tr.env[n].text for n in fixed] + [fuel] + [_paren(tr.env[n].text) for n in state])
        body_tr.on_fall = again
        body = body_tr.block(list(s.body))
        self.fresh = body_tr.fresh
        binders = ' '.join([f'({n} : {t})' for n, t in self.u.ctx_params] + [f'({n} : {lean_type(t)})' for n, t in fixed_b])
        sig = ' → '.join(['Nat'] + [lean_type(t) for _n, t in state_b] + [lean_type(self.inst.ret)])
        pat = ''.join(f', {n}' for n, _t in state_b)
        self.aux[slot] = '\n'.join([
            f'/-- the `while {ast.unparse(s.test)}` loop of `{self.inst.qual}` (fuelled): state ' + ', '.join(state) + ' -/',
            f'def {loop} {binders} : {sig}',
            f'  | 0{pat} =>', _indent(after, 4),
            f'  | {fuel} + 1{pat} =>',
            f'    if {cond} then', _indent(body, 6), '    else', _indent(after, 6)])
        args = [self.env[n].text for n in fixed] + [_paren(fuel_call)] + [_paren(self.env[n].text) for n in state]
        return self.wrap(' '.join([loop] + ctx + args))

    def for_general(self, s, rest, xs):
        """A loop with state: an auxiliary structural recursion over the list.  Its parameters are every variable in
        scope (unchanged ones first, then the *state*: the outer variables the body assigns); `[]` continues with the code
        after the loop, `item :: items` runs the body, where falling off the end is the recursive call with the current
        state and `return` leaves the function."""
        assigned = set()
        for n in ast.walk(ast.Module(body=s.body, type_ignores=[])):
            if isinstance(n, (ast.Assign, ast.AugAssign, ast.AnnAssign)):
                for t in (n.targets if isinstance(n, ast.Assign) else [n.target]):
                    for m in ast.walk(t):
                        if isinstance(m, ast.Name):
                            assigned.add(m.id)
            if isinstance(n, ast.Expr) and isinstance(n.value, ast.Call) and isinstance(n.value.func, ast.Attribute) \
                    and n.value.func.attr in ('add', 'append') and isinstance(n.value.func.value, ast.Name):
                assigned.add(n.value.func.value.id)
            if isinstance(n, (ast.While, ast.Break, ast.Continue, ast.Try, ast.With)):
                raise Unsupported(f'`{self.inst.qual}`: `{type(n).__name__}` inside a loop body')
        targets = [s.target.id] if isinstance(s.target, ast.Name) else \
            [t.id for t in s.target.elts if isinstance(t, ast.Name)] if isinstance(s.target, ast.Tuple) else None
        if not targets or (isinstance(s.target, ast.Tuple) and len(targets) != len(s.target.elts)):
            raise Unsupported(f'`{self.inst.qual}`: loop target `{ast.unparse(s.target)}`')
        state = [n for n in self.env if n in assigned and n not in targets]
        fixed = [n for n in self.env if n not in state and self.env[n].typ not in ('None', 'Kw')]
        elem = xs.typ[5:]
        loop = f'{self.inst.lean}.loop{len(self.aux) + 1}'
        self.aux.append(None)                 # reserve the number (nested / later loops count on)
        slot = len(self.aux) - 1
        ctx = [n for n, _t in self.u.ctx_params]
        # --- the auxiliary definition
        aux = self.sub()
        aux.fresh = self.fresh
        aux.narrow = {}
        fixed_b, state_b = [], []
        for n in fixed:
            nm = aux.gensym(lname(n))
            fixed_b.append((nm, self.env[n].typ))
            aux.env[n] = Val(nm, self.env[n].typ, path=n)
        for n in state:
            nm = aux.gensym(lname(n))
            state_b.append((nm, self.env[n].typ))
            aux.env[n] = Val(nm, self.env[n].typ, path=n)
        item, items = aux.gensym('item'), aux.gensym('items')
        # [] : the code after the loop
        after_tr = aux.sub()
        after_tr.fresh = aux.fresh
        after_tr.on_fall = self.on_fall
        after = after_tr.block(rest)
        # item :: items : the body
        body_tr = aux.sub()
        body_tr.fresh = after_tr.fresh
        if isinstance(s.target, ast.Name):
            body_tr.env[targets[0]] = Val(item, elem, path=targets[0])
        else:
            parts = _prod_parts(elem)
            if len(parts) != len(targets):
                raise Unsupported(f'`{self.inst.qual}`: unpacking {elem} into {len(targets)} names')
            for i, (n, t) in enumerate(zip(targets, parts)):
                proj = f'{item}.{i + 1}' if len(parts) == 2 else None
                if proj is None:
                    raise Unsupported('unpacking of wider tuples')
                body_tr.env[n] = Val(proj, t, path=n)

        def next_iteration(tr):
            args = [tr.env[n].text for n in fixed] + [items] + [_paren(tr.env[n].text) for n in state]
            return ' '.join([loop] + ctx + args)
        body_tr.on_fall = next_iteration
        body = body_tr.block(list(s.body))
        self.fresh = body_tr.fresh
        binders = ' '.join([f'({n} : {t})' for n, t in self.u.ctx_params] + [f'({n} : {lean_type(t)})' for n, t in fixed_b])
        sig = ' → '.join([f'List {_paren(lean_type(elem))}'] + [lean_type(t) for _n, t in state_b] + [lean_type(self.inst.ret)])
        pat_state = ''.join(f', {n}' for n, _t in state_b)
        self.aux[slot] = ('\n'.join([
            f'/-- the `for {ast.unparse(s.target)} in {ast.unparse(s.iter)}` loop of `{self.inst.qual}`: state ' +
            (', '.join(state) or 'none') + ' -/',
            f'def {loop} {binders} : {sig}',
            f'  | []{pat_state} =>', _indent(after, 4),
            f'  | {item} :: {items}{pat_state} =>', _indent(body, 4)]))
        # --- the call
        args = [self.env[n].text for n in fixed] + [_paren(xs.text)] + [_paren(self.env[n].text) for n in state]
        return self.wrap(' '.join([loop] + ctx + args))

    # ---- expressions -----------------------------------------------------------------------------------
    def truth(self, v):
        """Python truthiness as a Lean Bool"""
        if v.typ == 'Bool':
            return v.text
        if v.typ.startswith('Opt '):
            inner = v.typ[4:]
            if inner in self.u.hooks.get('always_truthy', ()):
                return f'({v.text}).isSome'
            raise Unsupported(f'truthiness of Optional[{inner}]')
        if v.typ == 'Td':
            return f'({v.text} != 0)'
        if v.typ in self.u.hooks.get('always_truthy', ()):
            return 'true'
        if v.typ.startswith('List '):
            return f'!({v.text}).isEmpty'
        if 'truth' in self.u.hooks:
            r = self.u.hooks['truth'](self, v)
            if r is not None:
                return r
        raise Unsupported(f'truthiness of {v.typ}')

    def expr(self, e, allow_raise=False):
        v = self._expr(e)
        if getattr(v, 'raises', False) and not allow_raise:
            if not self.inst.raises:
                raise Unsupported(f'`{self.inst.qual}`: a call that may raise inside an expression: `{ast.unparse(e)}`')
            name = self.gensym('r')
            self.pending.append((name, v.text))
            return Val(name, v.typ)
        return v

    def _expr(self, e):
        more = self.expr_more(e)
        if more is not None:
            return more
        if isinstance(e, ast.Name):
            if e.id in self.narrow:
                return self.narrow[e.id]
            if e.id in self.env:
                return self.env[e.id]
            if e.id in self.u.hooks.get('constants', {}):
                t, typ = self.u.hooks['constants'][e.id]
                return Val(t, typ)
            raise Unsupported(f'`{self.inst.qual}`: name `{e.id}`')
        if isinstance(e, ast.Constant):
            if e.value is None:
                return Val('()', 'None')
            if isinstance(e.value, bool):
                return Val('true' if e.value else 'false', 'Bool')
            if isinstance(e.value, int):
                return Val(f'({e.value} : Int)', 'Int')
            if isinstance(e.value, float) and e.value == int(e.value) and 'float_as_int' in self.u.hooks:
                return Val(f'({int(e.value)} : Int)', 'Int')      # 1.0, 2.0 next to the numeric class: the same number
            raise Unsupported(f'constant {e.value!r}')
        if isinstance(e, ast.Attribute):
            return self.attribute(e)
        if isinstance(e, ast.Compare):
            return self.compare(e)
        if isinstance(e, ast.BoolOp):
            # operands decided by the static types of this instance: `True and X` is `X`, `False and X` is `False` (X not evaluated)
            keep, decided = [], None
            for v in e.values:
                st = self.static_test(v) if isinstance(v, (ast.Call, ast.Compare, ast.UnaryOp, ast.Constant)) else None
                if st is None:
                    keep.append(v)
                    continue
                if isinstance(e.op, ast.And) and st is False or isinstance(e.op, ast.Or) and st is True:
                    decided = st
                    break
            if decided is not None and not keep:
                return Val('true' if decided else 'false', 'Bool')
            if decided is None and len(keep) < len(e.values):
                if not keep:
                    return Val('true' if isinstance(e.op, ast.And) else 'false', 'Bool')
                e = keep[0] if len(keep) == 1 else ast.BoolOp(op=e.op, values=keep)
                return self._expr(e)
        if isinstance(e, ast.BoolOp) and self.has_optional_test(e):
            # `x is not None and x.f()` as a value: the same narrowing as in an `if` test
            return Val('(' + self.branch(e, lambda tr: 'true', lambda tr: 'false') + ')', 'Bool')
        if isinstance(e, ast.BoolOp):
            vals = [self.expr(v) for v in e.values]
            if not all(v.typ == 'Bool' for v in vals):
                # `a and b` on non-bools returns an operand; only allowed where it is consumed as a truth value
                vals = [Val(self.truth(v), 'Bool') for v in vals]
            op = ' && ' if isinstance(e.op, ast.And) else ' || '
            return Val('(' + op.join(v.text for v in vals) + ')', 'Bool')
        if isinstance(e, ast.UnaryOp) and isinstance(e.op, ast.Not):
            return Val(f'(!{self.truth(self.expr(e.operand))})', 'Bool')
        if isinstance(e, ast.UnaryOp) and isinstance(e.op, ast.USub):
            v = self.expr(e.operand)
            if v.typ in ('Int', 'Td', 'R', 'N'):
                return Val(f'(-{v.text})', v.typ)
        if isinstance(e, ast.IfExp):
            st = self.static_test(e.test)
            if st is True:
                return self.expr(e.body)
            if st is False:
                return self.expr(e.orelse)
            if self.has_optional_test(e.test):
                # `f(x) if x else None`: a match that binds the narrowed value; both arms brought to one type
                types = []

                def arm(node):
                    def k(tr):
                        v = tr.expr(node)
                        types.append(v.typ)
                        return '\x00' + str(len(types) - 1) + '\x01' + v.text + '\x02'
                    return k
                txt = self.branch(e.test, arm(e.body), arm(e.orelse))
                real = [t for t in types if t != 'None']
                base = [t[4:] if t.startswith('Opt ') else t for t in real]       # `x.z if x.z is not None else y.z`: T / Optional[T]
                if not real or any(t != base[0] for t in base):
                    raise Unsupported(f'conditional expression of types {types}')
                typ = ('Opt ' + base[0]) if 'None' in types or any(t.startswith('Opt ') for t in real) else real[0]
                import re as _re

                def fix(m):
                    t, body = types[int(m.group(1))], m.group(2)
                    if t == 'None':
                        return 'none'
                    return f'some {_paren(body)}' if typ != t else body
                txt = _re.sub('\x00(\\d+)\x01(.*?)\x02', fix, txt, flags=_re.S)
                return Val(f'({txt})', typ)
            a, b = self.expr(e.body), self.expr(e.orelse)
            if a.typ != b.typ:
                raise Unsupported(f'conditional expression of types {a.typ} / {b.typ}')
            return Val(f'(if {self.truth(self.expr(e.test))} then {a.text} else {b.text})', a.typ)
        if isinstance(e, ast.BinOp) and isinstance(e.op, ast.Pow) and isinstance(e.right, ast.Constant) and e.right.value == 2:
            a = self.expr(e.left)
            if a.typ == 'N':
                return Val(f'(GV.Sphere.sqr {a.text})', 'N')          # `x ** 2` (libm pow(x, 2.0), see Model/Num.lean)
            raise Unsupported(f'`** 2` on {a.typ}')
        if isinstance(e, ast.BinOp) and isinstance(e.op, (ast.Div, ast.Mod)):
            a, b = self.unify_num(self.expr(e.left), self.expr(e.right))
            if a.typ == b.typ == 'N':
                if isinstance(e.op, ast.Div):
                    return Val(f'({a.text} / {b.text})', 'N')
                return Val(f'(GV.Sphere.pymod {a.text} {b.text})', 'N')      # Python's float `%`
            raise Unsupported(f'`{ast.unparse(e)[:60]}`: {a.typ} {type(e.op).__name__} {b.typ}')
        if isinstance(e, ast.BinOp) and isinstance(e.op, (ast.Add, ast.Sub, ast.Mult)):
            a, b = self.expr(e.left), self.expr(e.right)
            a, b = self.unify_num(a, b)
            sym = {ast.Add: '+', ast.Sub: '-', ast.Mult: '*'}[type(e.op)]
            if a.typ == b.typ == 'N' or a.typ == b.typ == 'R' or (a.typ == b.typ == 'Int' and sym == '*'):
                return Val(f'({a.text} {sym} {b.text})', a.typ)
            if sym == '+' and a.typ == b.typ and a.typ.startswith('List '):
                return Val(f'({a.text} ++ {b.text})', a.typ)
            table = {('Dt', '+', 'Td'): 'Dt', ('Dt', '-', 'Td'): 'Dt', ('Dt', '-', 'Dt'): 'Td', ('Td', '+', 'Td'): 'Td',
                     ('Td', '-', 'Td'): 'Td', ('Int', '+', 'Int'): 'Int', ('Int', '-', 'Int'): 'Int', ('Td', '+', 'Dt'): 'Dt'}
            t = table.get((a.typ, sym, b.typ))
            if t is None:
                raise Unsupported(f'`{ast.unparse(e)}`: {a.typ} {sym} {b.typ}')
            return Val(f'({a.text} {sym} {b.text})', t)
        if isinstance(e, ast.Tuple):
            vals = [self.expr(v) for v in e.elts]
            if len(vals) == 2 and vals[0].typ == vals[1].typ:
                return Val(f'({vals[0].text}, {vals[1].text})', 'Pair ' + vals[0].typ)
            raise Unsupported(f'tuple `{ast.unparse(e)}`')
        if isinstance(e, ast.List) and not e.elts:
            return Val('[]', 'List ?')
        if isinstance(e, ast.List) and e.elts:
            parts, typ = [], None
            for el in e.elts:
                if isinstance(el, ast.Starred):
                    v = self.expr(el.value)
                    if not v.typ.startswith('List '):
                        raise Unsupported(f'`*` of {v.typ}')
                    parts.append(v.text)
                    t = v.typ[5:]
                else:
                    v = self.expr(el)
                    parts.append(f'[{v.text}]')
                    t = v.typ
                if typ not in (None, t):
                    raise Unsupported(f'list display of {typ} and {t}')
                typ = t
            return Val('(' + ' ++ '.join(parts) + ')', 'List ' + typ)
        if isinstance(e, ast.Subscript):
            v = self.expr(e.value)
            if v.typ == 'Props':
                k = self.expr(e.slice)
                if k.typ != 'Str':
                    raise Unsupported(f'dict lookup with a key of type {k.typ}')
                r = Val(f'(match GV.Coll.assocGet {v.text} {k.text} with | some v => Except.ok v | none => Except.error "ERR:Key")', 'PVal')
                r.raises = True                       # KeyError
                return r
            if v.typ.startswith('Prod ') and isinstance(e.slice, ast.Constant) and e.slice.value in (0, 1):
                parts = _prod_parts(v.typ)
                return Val(f'{v.text}.{e.slice.value + 1}', parts[e.slice.value])
            if v.typ.startswith('List '):
                sl = e.slice
                if isinstance(sl, ast.Slice) and sl.upper is None and sl.step is None and isinstance(sl.lower, ast.Constant) \
                        and isinstance(sl.lower.value, int) and sl.lower.value >= 0:
                    return Val(f'(({v.text}).drop {sl.lower.value})', v.typ)
                if isinstance(sl, ast.Constant) and isinstance(sl.value, int) and sl.value >= 0:
                    r = Val(f'(GV.Py.getIdx {_paren(v.text)} {sl.value})', v.typ[5:])
                    r.raises = True                      # IndexError when the list is too short
                    return r
            raise Unsupported(f'`{self.inst.qual}`: subscript `{ast.unparse(e)}` of {v.typ}')
        if isinstance(e, ast.ListComp):
            return self.list_comp(e)
        if isinstance(e, ast.Call):
            return self.call(e)
        raise Unsupported(f'`{self.inst.qual}`: expression `{ast.unparse(e)[:80]}` ({type(e).__name__})')

    def attribute(self, e):
        path = _path(e)
        if path and path in self.u.hooks.get('constants', {}) and not (isinstance(e.value, ast.Name) and e.value.id in self.env):
            t, typ = self.u.hooks['constants'][path]
            return Val(t, typ)
        if path and path in self.narrow:
            return self.narrow[path]
        base = self.expr(e.value)
        spec = self.u.attr_types.get((base.typ, e.attr))
        if spec:
            tmpl, typ = spec
            return Val(tmpl.format(base.text), typ, path=(f'{base.path}.{e.attr}' if base.path else None))
        cls = self.u.class_of(base.typ)
        if cls and (self.u.src.is_property(f'{cls}.{e.attr}') or (f'{cls}.{e.attr}', ()) in self.u.externals):
            inst = self.u.find(f'{cls}.{e.attr}', ())
            return self.apply(inst, [base])
        raise Unsupported(f'`{self.inst.qual}`: attribute `.{e.attr}` of {base.typ}')

    def compare(self, e):
        operands = [e.left] + list(e.comparators)
        vals = [self.expr(x) for x in operands]
        parts = []
        for (a, op, b) in zip(vals, e.ops, vals[1:]):
            parts.append(self.compare2(a, op, b))
        if any(getattr(p, 'raises', False) for p in parts):
            raise Unsupported('comparison that may raise')
        return Val(parts[0].text if len(parts) == 1 else '(' + ' && '.join(p.text for p in parts) + ')', 'Bool')

    def compare2(self, a, op, b):
        num = ('Dt', 'Td', 'Int')
        if isinstance(op, (ast.In, ast.NotIn)) and b.typ == 'Props' and a.typ == 'Str':
            r = Val(f'((GV.Coll.assocGet {b.text} {a.text}).isSome)', 'Bool')
            return r if isinstance(op, ast.In) else Val(f'(!{r.text})', 'Bool')
        if isinstance(op, (ast.In, ast.NotIn)) and b.typ.startswith('List ') and b.typ[5:] == a.typ:
            r = Val(f'(({b.text}).contains {a.text})', 'Bool')
            return r if isinstance(op, ast.In) else Val(f'(!{r.text})', 'Bool')
        if isinstance(op, (ast.In, ast.NotIn)) and b.typ.startswith('Set '):
            r = Val(f'(({b.text}).contains {a.text})', 'Bool')
            return r if isinstance(op, ast.In) else Val(f'(!{r.text})', 'Bool')
        if isinstance(op, (ast.In, ast.NotIn)) and (b.typ, '__contains__', (a.typ,)) in self.u.abstract:
            tmpl, typ = self.u.abstract[(b.typ, '__contains__', (a.typ,))]
            r = Val('(' + tmpl.format(_paren(b.text), _paren(a.text)) + ')', typ)
            return r if isinstance(op, ast.In) else Val(f'(!{r.text})', 'Bool')
        if isinstance(op, (ast.In, ast.NotIn)):
            cls = self.u.class_of(b.typ)
            if not cls:
                raise Unsupported(f'`in` on {b.typ}')
            inst = self.u.find(f'{cls}.__contains__', (a.typ,))
            r = self.apply(inst, [b, a])
            return r if isinstance(op, ast.In) else Val(f'(!{r.text})', 'Bool')
        a, b = self.unify_num(a, b)
        if a.typ == b.typ == 'N':
            t = {ast.Lt: '(Num.lt {0} {1})', ast.LtE: '(Num.le {0} {1})', ast.Gt: '(Num.lt {1} {0})',
                 ast.GtE: '(Num.le {1} {0})'}.get(type(op))
            if t is None:
                raise Unsupported(f'comparison {type(op).__name__} on the numeric class')
            return Val(t.format(_paren(a.text), _paren(b.text)), 'Bool')
        num = num + ('R',)
        if a.typ == b.typ == 'Bool' and isinstance(op, (ast.Eq, ast.NotEq)):
            return Val(f'({a.text} {"==" if isinstance(op, ast.Eq) else "!="} {b.text})', 'Bool')
        if a.typ in num and b.typ == a.typ:
            sym = {ast.Lt: '<', ast.LtE: '≤', ast.Gt: '>', ast.GtE: '≥'}.get(type(op))
            if sym:
                return Val(f'decide ({a.text} {sym} {b.text})', 'Bool')
            if isinstance(op, ast.Eq):
                return Val(f'({a.text} == {b.text})', 'Bool')
            if isinstance(op, ast.NotEq):
                return Val(f'({a.text} != {b.text})', 'Bool')
        if isinstance(op, (ast.Eq, ast.NotEq)) and a.typ == b.typ == 'Pt':
            return Val(f'({a.text} {"==" if isinstance(op, ast.Eq) else "!="} {b.text})', 'Bool')
        if isinstance(op, (ast.Eq, ast.NotEq)):
            cls = self.u.class_of(a.typ)
            if cls and b.typ == a.typ:
                inst = self.u.find(f'{cls}.__eq__', (b.typ,))
                r = self.apply(inst, [a, b])
                return r if isinstance(op, ast.Eq) else Val(f'(!{r.text})', 'Bool')
            hook = self.u.hooks.get('eq')
            if hook:
                r = hook(self, a, b)
                if r is not None:
                    return r if isinstance(op, ast.Eq) else Val(f'(!{r.text})', 'Bool')
        raise Unsupported(f'comparison {a.typ} {type(op).__name__} {b.typ}')

    def unify_num(self, a, b):
        """an int literal next to a float-modelled-as-rational operand is that rational"""
        if a.typ == 'N' and b.typ == 'Int':
            return a, Val(f'(Num.ofI {b.text})', 'N')
        if a.typ == 'Int' and b.typ == 'N':
            return Val(f'(Num.ofI {a.text})', 'N'), b
        if a.typ == 'R' and b.typ == 'Int':
            return a, Val(f'({b.text} : Rat)', 'R')
        if a.typ == 'Int' and b.typ == 'R':
            return Val(f'({a.text} : Rat)', 'R'), b
        return a, b

    def apply(self, inst, args):
        if len(args) != len([p for p in inst.params]):
            raise Unsupported(f'`{inst.qual}` applied to {len(args)} arguments, declared {len(inst.params)}')
        ctx = [n for n, _t in self.u.ctx_params] if inst in self.u.insts else []
        txt = ' '.join([inst.lean] + ctx + [_paren(a.text) for a, (_n, t) in zip(args, inst.params) if t != 'None'])
        v = Val(f'({txt})', inst.value_type)
        v.raises = inst.raises
        return v

    def call(self, e):
        if e.keywords and not all(k.arg is None for k in e.keywords):
            hook = self.u.hooks.get('keywords')
            if not (hook and hook(self, e)):
                raise Unsupported(f'`{self.inst.qual}`: keyword arguments in `{ast.unparse(e)[:80]}`')
        more = self.call_more(e)
        if more is not None:
            return more
        f = e.func
        if isinstance(f, ast.Call) and isinstance(f.func, ast.Name) and f.func.id == 'type' and len(f.args) == 1 \
                and 'type_ctor' in self.u.hooks:
            return self.u.hooks['type_ctor'](self, self.expr(f.args[0]), [self.expr(a) for a in e.args])
        if isinstance(f, ast.Name):
            if f.id in ('min', 'max') and len(e.args) == 2:
                a, b = self.expr(e.args[0]), self.expr(e.args[1])
                if a.typ == b.typ and a.typ in ('Dt', 'Td', 'Int'):
                    return Val(f'({f.id} {a.text} {b.text})', a.typ)
                if a.typ == b.typ == 'R':
                    return Val(f'(GV.{f.id}R {a.text} {b.text})', 'R')
                a, b = self.unify_num(a, b)
                if a.typ == b.typ == 'N':
                    # Python returns the first extremal argument: min(a, b) is b only if b < a
                    if f.id == 'min':
                        return Val(f'(if Num.lt {_paren(b.text)} {_paren(a.text)} then {b.text} else {a.text})', 'N')
                    return Val(f'(if Num.lt {_paren(a.text)} {_paren(b.text)} then {b.text} else {a.text})', 'N')
                raise Unsupported(f'{f.id} of {a.typ}, {b.typ}')
            if f.id == 'zip' and len(e.args) == 2:
                a, b = self.expr(e.args[0]), self.expr(e.args[1])
                if a.typ.startswith('List ') and b.typ.startswith('List '):
                    return Val(f'(({a.text}).zip {b.text})', f'List Prod {_paren(a.typ[5:])} {_paren(b.typ[5:])}')
                raise Unsupported(f'zip of {a.typ}, {b.typ}')
            if f.id == 'cast' and len(e.args) == 2:
                return self.expr(e.args[1])
            if f.id == 'sorted' and 'sorted' in self.u.hooks:
                return self.u.hooks['sorted'](self, e)
            if f.id == 'bool' and len(e.args) == 1:
                return Val(self.truth(self.expr(e.args[0])), 'Bool')
            if f.id == 'float' and len(e.args) == 1:
                v = self.expr(e.args[0])
                if v.typ == 'R':
                    return v              # floats are exchanged as exact rationals
                if v.typ == 'Int':
                    return Val(f'({v.text} : Rat)', 'R')
                raise Unsupported(f'float() of {v.typ}')
            if f.id == 'hash' and len(e.args) == 1:
                return self.expr(e.args[0])           # the value handed to hash()
            if f.id == 'set' and not e.args:
                return Val('[]', 'Set ?')
            if f.id in ('any', 'all') and len(e.args) == 1 and isinstance(e.args[0], ast.GeneratorExp):
                return self.any_all(f.id, e.args[0])
            if f.id == 'isinstance':
                st = self.static_test(e)
                return Val('true' if st else 'false', 'Bool')
            if f.id in self.env and self.env[f.id].typ.startswith('Fn ') and len(e.args) == 1:
                dom, cod = self.env[f.id].typ.split()[1:3]         # a callable parameter: 'Fn <arg> <result>'
                a = self.expr(e.args[0])
                if a.typ != dom:
                    raise Unsupported(f'`{f.id}` applied to {a.typ}')
                return Val(f'({self.env[f.id].text} {_paren(a.text)})', cod)
            if f.id in self.u.intrinsics:
                return self.u.intrinsics[f.id](self, [self.expr(a) for a in e.args])
            # a constructor of a modelled class
            for typ, cls in self.u.classes.items():
                if cls == f.id:
                    args = [self.expr(a) for a in e.args]
                    inst = self.u.find(f'{cls}.__init__', tuple(a.typ for a in args))
                    return self.apply_ctor(inst, args)
            if f.id in self.u.src.defs:
                args = [self.expr(a) for a in e.args]
                inst = self.u.find(f.id, tuple(a.typ for a in args))
                return self.apply(inst, args)
            raise Unsupported(f'`{self.inst.qual}`: call of `{f.id}`')
        if isinstance(f, ast.Attribute) and isinstance(f.value, ast.Name) and f.value.id not in self.env \
                and f'{f.value.id}.{f.attr}' in self.u.intrinsics:
            return self.u.intrinsics[f'{f.value.id}.{f.attr}'](self, [self.expr(a) for a in e.args])
        if isinstance(f, ast.Attribute):
            recv = self.expr(f.value)
            cls = self.u.class_of(recv.typ)
            qual = f'{cls}.{f.attr}' if cls else None
            if qual and qual in self.u.intrinsics:
                return self.u.intrinsics[qual](self, [recv] + [self.expr(a) for a in e.args])
            hook = self.u.hooks.get('method')
            if hook:
                r = hook(self, recv, f.attr, e.args)
                if r is not None:
                    return r
            args = [self.expr(a) for a in e.args]
            ab = self.u.abstract.get((recv.typ, f.attr, tuple(a.typ for a in args)))
            if ab:
                tmpl, typ = ab
                return Val('(' + tmpl.format(*[_paren(x.text) for x in [recv] + args]) + ')', typ)
            if qual and (qual in self.u.src.defs or any(k[0] == qual for k in self.u.externals)):
                inst = self.u.find(qual, tuple(a.typ for a in args))
                is_method = bool(inst.params) and inst.params[0][0] == 'self'      # a staticmethod takes no receiver
                return self.apply(inst, ([recv] if is_method else []) + args)
            raise Unsupported(f'`{self.inst.qual}`: method `.{f.attr}` of {recv.typ} at {tuple(a.typ for a in args)}')
        raise Unsupported(f'`{self.inst.qual}`: call `{ast.unparse(e)[:80]}`')

    def apply_ctor(self, inst, args):
        ctx = [n for n, _t in self.u.ctx_params] if inst in self.u.insts else []
        txt = ' '.join([inst.lean] + ctx + [_paren(a.text) for a in args])
        v = Val(f'({txt})', inst.value_type)
        v.raises = inst.raises
        return v

    def list_comp(self, e):
        """`[x for x in xs if c]` -> `xs.filter`; with a test that may raise -> `xs.filterM` in `Except`"""
        g = e.generators
        if len(g) == 2 and not g[0].ifs and not g[1].ifs and isinstance(g[0].target, ast.Name) and isinstance(g[1].target, ast.Name) \
                and isinstance(g[1].iter, ast.Name) and g[1].iter.id == g[0].target.id \
                and isinstance(e.elt, ast.Name) and e.elt.id == g[1].target.id:
            xss = self.expr(g[0].iter)            # `[x for ys in xss for x in ys]`
            if xss.typ.startswith('List List '):
                return Val(f'(({xss.text}).flatten)', xss.typ[5:])
            raise Unsupported(f'flattening of {xss.typ}')
        if len(e.generators) == 1 and not e.generators[0].ifs:
            return self.map_comp(e.elt, e.generators[0])          # `[f(x) for x in xs]`
        if len(e.generators) != 1 or not isinstance(e.generators[0].target, ast.Name) or len(e.generators[0].ifs) != 1 \
                or not (isinstance(e.elt, ast.Name) and e.elt.id == e.generators[0].target.id):
            raise Unsupported(f'`{self.inst.qual}`: comprehension other than `[x for x in xs if c]`')
        xs = self.expr(e.generators[0].iter)
        if not xs.typ.startswith('List '):
            raise Unsupported(f'comprehension over {xs.typ}')
        x = self.gensym(lname(e.elt.id))
        inner = self.sub()
        inner.fresh = self.fresh
        inner.env[e.elt.id] = Val(x, xs.typ[5:], path=e.elt.id)
        test = e.generators[0].ifs[0]
        if inner.has_optional_test(test):
            body = inner.branch(test, lambda tr: tr.ok('true'), lambda tr: tr.ok('false'))
            raising = 'Except.error' in body
        else:
            c = inner.truth(inner.expr(test))
            raising = bool(inner.pending)
            body = inner.wrap(inner.ok(c)) if raising else c
        self.fresh = inner.fresh
        if raising and self.inst.raises:
            v = Val(f'(GV.Py.filterE (fun {x} => (show Except String Bool from\n{_indent(body, 4)})) {_paren(xs.text)})', xs.typ)
            v.raises = True
            return v
        if self.inst.raises:
            # the instance may raise but this test can not: undo the `.ok` wrapping of the branch leaves
            body = body.replace('Except.ok true', 'true').replace('Except.ok false', 'false')
        return Val(f'(({xs.text}).filter (fun {x} =>\n{_indent(body, 4)}))', xs.typ)

    def any_all(self, which, g):
        tgt = g.generators[0].target if len(g.generators) == 1 else None
        pair = isinstance(tgt, ast.Tuple) and len(tgt.elts) == 2 and all(isinstance(t, ast.Name) for t in tgt.elts)
        if len(g.generators) != 1 or g.generators[0].ifs or not (isinstance(tgt, ast.Name) or pair):
            raise Unsupported('generator with filters / several loops')
        xs = self.expr(g.generators[0].iter)
        if not xs.typ.startswith('List '):
            raise Unsupported(f'{which}() over {xs.typ}')
        x = self.gensym(lname(tgt.id) if not pair else 'pair')
        inner = self.sub()
        inner.fresh = self.fresh
        if pair:
            parts = _prod_parts(xs.typ[5:])
            if len(parts) != 2:
                raise Unsupported(f'unpacking {xs.typ[5:]} into two names')
            for i, t in enumerate(tgt.elts):
                inner.env[t.id] = Val(f'{x}.{i + 1}', parts[i], path=t.id)
        else:
            inner.env[tgt.id] = Val(x, xs.typ[5:], path=tgt.id)
        c = inner.truth(inner.expr(g.elt))
        if inner.pending:
            body = inner.wrap(inner.ok(c))
            self.fresh = inner.fresh
            v = Val(f'(GV.Py.{which}E (fun {x} => (show Except String Bool from\n{_indent(body, 4)})) {_paren(xs.text)})', 'Bool')
            v.raises = True
            return v
        self.fresh = inner.fresh
        return Val(f'(({xs.text}).{which} (fun {x} => {c}))', 'Bool')

    # ---- further constructs (added with the GeoJSON unit; each is generic Python) --------------------------
    def block_more(self, s, rest):
        if isinstance(s, ast.AugAssign) and isinstance(s.target, ast.Name) and isinstance(s.op, (ast.Add, ast.Sub, ast.Mult)):
            # `x += e` is `x = x + e`
            new = ast.Assign(targets=[s.target], value=ast.BinOp(left=ast.Name(id=s.target.id, ctx=ast.Load()), op=s.op, right=s.value))
            return self.assign(ast.copy_location(new, s), rest)
        if isinstance(s, ast.FunctionDef):
            return self.local_def(s, rest)
        return None

    def local_def(self, s, rest):
        """a nested `def` that reads nothing but its own parameters (and module-level names): an auxiliary definition
        emitted before the function, like a loop; its parameter and result types are declared by the unit
        (`hooks['local_fn']`)"""
        hook = self.u.hooks.get('local_fn')
        spec = hook(self.inst.qual, s.name) if hook else None
        if not spec or s.decorator_list:
            raise Unsupported(f'`{self.inst.qual}`: nested function `{s.name}` without declared types')
        params, ret = spec
        name = f'{self.inst.lean}.{s.name.lstrip("_")}'
        inst = Inst(f'{self.inst.qual}.<locals>.{s.name}', name, params, ret)
        sub = FnTr(self.u, inst, s)              # its own scope: a captured local of the enclosing function is "unknown name"
        sub.aux = self.aux
        self.aux.append(None)
        slot = len(self.aux) - 1
        body = sub.function_body()
        binders = ' '.join([f'({n} : {t})' for n, t in self.u.ctx_params] +
                           [f'({lname(n)} : {lean_type(t)})' for n, t in params if t != 'None'])
        self.aux[slot] = '\n'.join([f'/-- the nested function `{s.name}` of `{self.inst.qual}` -/',
                                    f'def {name} {binders} : {lean_type(ret)} :=', _indent(body)])
        v = Val(name, 'LocalFn')
        v.localfn = inst
        self.env[s.name] = v
        return self.block(rest)

    def ret_with_state(self, v):
        """`return v` of a function that mutates some of its parameters (`Inst.state`): the result paired with the final
        values of those parameters"""
        parts = _prod_parts(self.inst.value_type)
        want = parts[0]
        states = ', '.join(self.env[n].text for n in self.inst.state)
        if getattr(v, 'raises', False):
            nm = self.gensym('r')
            return self.wrap(f'match {v.text} with\n| Except.error e => Except.error e\n| Except.ok {nm} =>\n'
                             f'  Except.ok ({self.coerce(Val(nm, v.typ), want)}, {states})')
        return self.wrap(self.ok(f'({self.coerce(v, want)}, {states})'))

    def assign_item(self, t, v, rest):
        """`d[key] = value` on a *fresh* local dict (a display, `dict(…)`, `.copy()`): the dict with the key set"""
        to_j = self.u.hooks.get('to_j')
        if not (to_j and isinstance(t.value, ast.Name) and t.value.id in self.env and self.env[t.value.id].typ == 'JObj'
                and getattr(self.env[t.value.id], 'fresh_dict', False)):
            raise Unsupported(f'`{self.inst.qual}`: store into `{ast.unparse(t)}` (not a fresh local dict)')
        name = t.value.id
        d = self.env[name]
        key = self.expr(t.slice)
        if key.typ != 'Str':
            raise Unsupported(f'dict store with a key of type {key.typ}')
        nm = self.gensym(lname(name))
        new = Val(nm, 'JObj', path=name)
        new.fresh_dict = True
        if getattr(v, 'raises', False):
            r = self.gensym('r')
            self.env[name] = new
            self.narrow.pop(name, None)
            inner = f'let {nm} := (GV.GeoJson.oset {d.text} {key.text} {to_j(self, Val(r, v.typ))})\n' + self.block(rest)
            return self.wrap('\n'.join([f'match {v.text} with', '| Except.error e => Except.error e', f'| Except.ok {r} =>', _indent(inner)]))
        self.env[name] = new
        self.narrow.pop(name, None)
        pend, self.pending = self.pending, []
        inner = f'let {nm} := (GV.GeoJson.oset {d.text} {key.text} {to_j(self, v)})\n' + self.block(rest)
        self.pending = pend
        return self.wrap(inner)

    def expr_bind(self, v):
        """the text of a value, binding it first if it may raise (hooks that compose several calls in evaluation order)"""
        if getattr(v, 'raises', False):
            if not self.inst.raises:
                raise Unsupported(f'`{self.inst.qual}`: a call that may raise inside an expression')
            name = self.gensym('r')
            self.pending.append((name, v.text))
            return name
        return v.text

    def expr_more(self, e):
        """expression forms beyond the first subset; None = not one of them (the older rules apply)"""
        if isinstance(e, ast.Constant) and isinstance(e.value, str):
            return Val(_lean_str(e.value), 'Str')
        if isinstance(e, ast.Dict):
            return self.dict_display(e)
        if isinstance(e, ast.BinOp) and isinstance(e.op, ast.BitXor):
            a, b = self.expr(e.left), self.expr(e.right)
            if a.typ == b.typ == 'Bool':
                return Val(f'(xor {a.text} {b.text})', 'Bool')
            raise Unsupported(f'`^` on {a.typ}, {b.typ}')
        if isinstance(e, ast.Tuple) and len(e.elts) == 4 and not any(isinstance(x, ast.Starred) for x in e.elts):
            vals = [self.expr(x) for x in e.elts]
            if all(v.typ == vals[0].typ for v in vals):
                return Val('(' + ', '.join(v.text for v in vals) + ')', 'Tuple4 ' + vals[0].typ)
            raise Unsupported(f'tuple `{ast.unparse(e)[:60]}` of mixed types')
        if isinstance(e, ast.Subscript):
            sl = e.slice
            minus1 = lambda n: isinstance(n, ast.UnaryOp) and isinstance(n.op, ast.USub) and isinstance(n.operand, ast.Constant) and n.operand.value == 1
            if isinstance(sl, ast.Slice) and sl.lower is None and sl.upper is None and sl.step is not None and minus1(sl.step):
                v = self.expr(e.value)                                   # `xs[::-1]`
                if v.typ.startswith('List '):
                    return Val(f'(({v.text}).reverse)', v.typ)
                raise Unsupported(f'`[::-1]` of {v.typ}')
            if isinstance(sl, ast.Slice) and sl.lower is None and sl.step is None and isinstance(sl.upper, ast.Constant) \
                    and isinstance(sl.upper.value, int) and sl.upper.value >= 0:
                v = self.expr(e.value)                                   # `xs[:n]`
                if v.typ.startswith('List '):
                    return Val(f'(({v.text}).take {sl.upper.value})', v.typ)
                raise Unsupported(f'`[:n]` of {v.typ}')
            if minus1(sl):
                v = self.expr(e.value)                                   # `xs[-1]`: IndexError on the empty list
                if v.typ.startswith('List '):
                    r = Val(f'(GV.Py.getLast {_paren(v.text)})', v.typ[5:])
                    r.raises = True
                    return r
                raise Unsupported(f'`[-1]` of {v.typ}')
        if isinstance(e, ast.IfExp) and self.static_test(e.test) is None and not self.has_optional_test(e.test):
            # an arm that may raise is only evaluated when it is chosen
            ta, tb = self.sub(), self.sub()
            ta.fresh = tb.fresh = self.fresh
            try:
                a, b = ta.expr(e.body), tb.expr(e.orelse)
            except Unsupported:
                return None
            if ta.pending or tb.pending:
                if not self.inst.raises:
                    raise Unsupported(f'`{self.inst.qual}`: a call that may raise inside an expression: `{ast.unparse(e)[:80]}`')
                if a.typ != b.typ:
                    raise Unsupported(f'conditional expression of types {a.typ} / {b.typ}')
                c = self.truth(self.expr(e.test))
                self.fresh = max(ta.fresh, tb.fresh)
                r = Val(f'(if {c} then\n{_indent(ta.wrap("Except.ok " + _paren(a.text)))}\nelse\n'
                        f'{_indent(tb.wrap("Except.ok " + _paren(b.text)))})', a.typ)
                r.raises = True
                return r
            return None
        if isinstance(e, ast.BoolOp) and isinstance(e.op, ast.Or) and len(e.values) == 2 \
                and all(isinstance(x, (ast.Name, ast.Attribute, ast.Dict, ast.Constant)) for x in e.values):
            r = self.or_value(e)
            if r is not None:
                return r
        if isinstance(e, ast.BoolOp) and isinstance(e.op, ast.Or) and len(e.values) == 2 and isinstance(e.values[1], ast.Dict) \
                and not e.values[1].keys and 'or_dict' in self.u.hooks:
            # `<call> or {}`
            return self.u.hooks['or_dict'](self, self.expr(e.values[0]))
        hook = self.u.hooks.get('expr')
        return hook(self, e) if hook else None

    def or_value(self, e):
        """`a or b` used for its *value* (operands are not booleans): Python returns the first truthy operand, else the last"""
        try:
            a, b = self.expr(e.values[0]), self.expr(e.values[1])
        except Unsupported:
            return None
        truthy = self.u.hooks.get('always_truthy', ())
        if a.typ == 'Bool' or b.typ == 'Bool':
            return None
        if a.typ == 'None':
            return b
        if a.typ == 'Opt JObj' and b.typ == 'JObj':
            d = self.gensym('d')
            r = Val(f'(match {a.text} with | some {d} => (if !({d}).isEmpty then {d} else {b.text}) | none => {b.text})', 'JObj')
            return r
        if a.typ == 'JObj' and b.typ == 'JObj':
            return Val(f'(if !({a.text}).isEmpty then {a.text} else {b.text})', 'JObj')
        if a.typ in truthy and not a.typ.startswith('Opt '):
            return a
        if a.typ.startswith('Opt ') and a.typ[4:] in truthy and b.typ in (a.typ, a.typ[4:], 'None'):
            x = self.gensym('x')
            bt = b.text if b.typ == a.typ else ('none' if b.typ == 'None' else f'some {_paren(b.text)}')
            return Val(f'(match {a.text} with | some {x} => some {x} | none => {bt})', a.typ)
        return None

    def dict_display(self, e):
        """`{'k': v, **d, …}`: a dict with string keys, in insertion order (`GV.GeoJson.Obj`); a later key overrides an earlier
        one in place, as in Python; values are brought to JSON values by the unit's `to_j`"""
        to_j = self.u.hooks.get('to_j')
        if not to_j:
            raise Unsupported(f'`{self.inst.qual}`: dict display `{ast.unparse(e)[:60]}`')
        acc = None
        for k, v in zip(e.keys, e.values):
            if k is None:
                d = self.expr(v)
                if d.typ != 'JObj' and 'as_dict' in self.u.hooks:
                    d = self.u.hooks['as_dict'](self, d) or d
                if d.typ != 'JObj':
                    raise Unsupported(f'`**` of {d.typ} in a dict display')
                # `{**a, **b}` is the model's `oupdate a b`: a leading spread is a copy of that dict
                acc = d.text if acc is None else f'(GV.GeoJson.oupdate {acc} {d.text})'
            else:
                kk, vv = self.expr(k), self.expr(v)
                if kk.typ != 'Str':
                    raise Unsupported(f'dict key of type {kk.typ}')
                acc = f'(GV.GeoJson.oset {acc or "([] : GV.GeoJson.Obj)"} {kk.text} {to_j(self, vv)})'
        r = Val(acc or '([] : GV.GeoJson.Obj)', 'JObj')
        r.fresh_dict = True
        return r

    def call_more(self, e):
        """calls beyond the first subset; None = not one of them"""
        f = e.func
        if isinstance(f, ast.Name) and not e.keywords:
            if f.id in self.env and getattr(self.env[f.id], 'localfn', None) is not None:
                inst = self.env[f.id].localfn
                args = [self.expr(a) for a in e.args]
                if len(args) > len(inst.params) or [a.typ for a in args] != [t for _n, t in inst.params[:len(args)]]:
                    raise Unsupported(f'`{f.id}` applied to ({", ".join(a.typ for a in args)})')
                shown = [_paren(a.text) for a, (_n, t) in zip(args, inst.params) if t != 'None']
                v = Val('(' + ' '.join([self.env[f.id].text] + [n for n, _t in self.u.ctx_params] + shown) + ')', inst.value_type)
                v.raises = inst.raises
                return v
            if f.id == 'sum' and len(e.args) == 1 and isinstance(e.args[0], (ast.GeneratorExp, ast.ListComp)) \
                    and len(e.args[0].generators) == 1 and not e.args[0].generators[0].ifs:
                xs = self.map_comp(e.args[0].elt, e.args[0].generators[0])
                if getattr(xs, 'raises', False) or xs.typ != 'List R':
                    raise Unsupported(f'sum() over {xs.typ}')
                return Val(f'(({xs.text}).foldl (· + ·) 0)', 'R')          # Python's sum starts from the int 0
            if f.id == 'map' and len(e.args) == 2 and isinstance(e.args[0], ast.Lambda) and len(e.args[0].args.args) == 1 \
                    and not e.args[0].args.defaults:
                lam = e.args[0]
                gen = ast.comprehension(target=ast.Name(id=lam.args.args[0].arg, ctx=ast.Store()), iter=e.args[1], ifs=[], is_async=0)
                return self.map_comp(lam.body, gen)                         # consumed as a list (iteration order is the same)
            if f.id in ('list', 'tuple') and len(e.args) == 1:
                v = self.expr(e.args[0], allow_raise=True)
                if v.typ.startswith('List '):
                    return v                                                 # a (new) list with the same elements
                raise Unsupported(f'{f.id}() of {v.typ}')
            if f.id == 'reversed' and len(e.args) == 1:
                v = self.expr(e.args[0])
                if v.typ.startswith('List '):
                    return Val(f'(({v.text}).reverse)', v.typ)            # only ever consumed as a sequence
                raise Unsupported(f'reversed() of {v.typ}')
            if f.id == 'len' and len(e.args) == 1:
                v = self.expr(e.args[0])
                if v.typ.startswith('List '):
                    return Val(f'((({v.text}).length : Nat) : Int)', 'Int')
                raise Unsupported(f'len() of {v.typ}')
            if f.id == 'abs' and len(e.args) == 1:
                v = self.expr(e.args[0])
                if v.typ == 'R':
                    return Val(f'(GV.absR {v.text})', 'R')
                raise Unsupported(f'abs() of {v.typ}')
        hook = self.u.hooks.get('call')
        return hook(self, e) if hook else None

    def map_comp(self, elt, gen):
        """`[f(x) for x in xs]` (also the body of `sum(…)` / `map(lambda …)`): `List.map`, or a left-to-right `mapE` in
        `Except` when `f` may raise"""
        tgt = gen.target
        pair = isinstance(tgt, ast.Tuple) and len(tgt.elts) == 2 and all(isinstance(t, ast.Name) for t in tgt.elts)
        if not (isinstance(tgt, ast.Name) or pair) or gen.ifs:
            raise Unsupported(f'`{self.inst.qual}`: comprehension target `{ast.unparse(tgt)}`')
        xs = self.expr(gen.iter)
        if not xs.typ.startswith('List ') and 'iter' in self.u.hooks:
            xs = self.u.hooks['iter'](self, xs) or xs            # e.g. iteration over a JSON value
        if not xs.typ.startswith('List '):
            raise Unsupported(f'comprehension over {xs.typ}')
        x = self.gensym(lname(tgt.id) if not pair else 'pair')
        inner = self.sub()
        inner.fresh = self.fresh
        if pair:
            parts = _prod_parts(xs.typ[5:])
            if len(parts) != 2:
                raise Unsupported(f'unpacking {xs.typ[5:]} into two names')
            for i, t in enumerate(tgt.elts):
                inner.env[t.id] = Val(f'{x}.{i + 1}', parts[i], path=t.id)
                inner.narrow.pop(t.id, None)
        else:
            inner.env[tgt.id] = Val(x, xs.typ[5:], path=tgt.id)
            inner.narrow.pop(tgt.id, None)
        v = inner.expr(elt)
        self.fresh = inner.fresh
        if inner.pending:
            body = inner.wrap(f'Except.ok {_paren(v.text)}')
            r = Val(f'(GV.Py.mapE (fun {x} => (show Except String {_ptype(lean_type(v.typ))} from\n{_indent(body, 4)})) {_paren(xs.text)})',
                    'List ' + v.typ)
            r.raises = True
            return r
        return Val(f'(({xs.text}).map (fun {x} => {v.text}))', 'List ' + v.typ)


def _lean_str(s):
    """a Lean string literal"""
    out = []
    for ch in s:
        if ch in ('"', '\\'):
            out.append('\\' + ch)
        elif ch == '\n':
            out.append('\\n')
        elif 32 <= ord(ch) < 127:
            out.append(ch)
        else:
            out.append('\\u{%x}' % ord(ch))
    return '"' + ''.join(out) + '"'


def _prod_parts(t):
    """'Prod A B' (A, B without spaces or parenthesised) -> [A, B]"""
    if not t.startswith('Prod '):
        return [t]
    rest, parts, depth, cur = t[5:], [], 0, ''
    for ch in rest:
        if ch == '(':
            depth += 1
        elif ch == ')':
            depth -= 1
        if ch == ' ' and depth == 0:
            parts.append(cur)
            cur = ''
        else:
            cur += ch
    parts.append(cur)
    return [p[1:-1] if p.startswith('(') and p.endswith(')') else p for p in parts]


def _path(e):
    if isinstance(e, ast.Name):
        return e.id
    if isinstance(e, ast.Attribute):
        p = _path(e.value)
        return f'{p}.{e.attr}' if p else None
    return None


def _indent(s, n=2):
    return textwrap.indent(s, ' ' * n)
