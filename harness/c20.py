"""C20 — collections survive a round trip through shapefile, GeoPandas and KML (PARTIAL claim).

Three kinds of streams (DESIGN §6 C20):
  (i)   adapter streams, model=True: our code on its side of the library boundary, with the library replaced
        by a recording writer / by fake reader objects built from a channel value   (shpw shpr gpdw gpdr kmlw kmlr mk)
  (ii)  contract streams: `np-contract-*` (model=False) feed the real pyshp / geopandas+shapely / fastkml with
        channel values and compare with the channel contract written in Python; `chan-*` (model=True) tie that
        Python contract to the Lean ideal channel the theorems assume
  (iii) end to end `np-e2e-*` (model=False, spec = the property statement): write -> read with the real libraries.

Token grammar: see lean/GeoVerif/Drv/C20.lean.
"""
import contextlib
import math
import os
import shutil
import struct
import sys
import tempfile
import types
from datetime import datetime, timedelta, timezone
from fractions import Fraction
from urllib.parse import quote as _q, unquote as _uq

import common
from common import rat, fbits, unfbits

MODULE = 'GeoVerif.Props.C20'
THEOREMS = ['GV.Io.' + t for t in (
    'groupByFamily_stable', 'groupByFamily_perm', 'groupByFamily_error_iff',
    'shoelace_reverse', 'isCCW_reverse_of_strict', 'ring_reverse_restored', 'ring_reverse_restored_exact',
    'hole_ring_restored', 'polygon_rings_restored', 'zm_alignment', 'zm_alignment_absent', 'dt_fields_roundtrip', 'dt_cells_roundtrip',
    'dt_kml_roundtrip', 'field_typing_total', 'field_typing_compatible',
    'organize_written', 'shp_geom_roundtrip', 'gi_geom_roundtrip',
    'shp_roundtrip_partial', 'gpd_roundtrip_partial', 'kml_roundtrip_partial')]


EPOCH = datetime(1970, 1, 1, tzinfo=timezone.utc)
BASE_US = int((datetime(2020, 1, 1, tzinfo=timezone.utc) - EPOCH) / timedelta(microseconds=1))


def q(s):
    return _q(s, safe='')


# ==================================================================================================
# tokens -> records
# ==================================================================================================

class Toks:
    def __init__(self, toks):
        self.t, self.i = toks, 0

    def next(self):
        x = self.t[self.i]
        self.i += 1
        return x

    def peek(self):
        return self.t[self.i] if self.i < len(self.t) else None

    def nat(self):
        return int(self.next())

    def done(self):
        return self.i >= len(self.t)


def p_orat(s):
    return None if s == '-' else Fraction(s)


def p_coord(s):
    a, b, c, d = s.split(',')
    return (Fraction(a), Fraction(b), p_orat(c), p_orat(d))


def p_tuple(s):
    return tuple(Fraction(x) for x in s.split(','))


def p_geom3(tk, f):
    return [[[f(tk.next()) for _ in range(tk.nat())] for _ in range(tk.nat())] for _ in range(tk.nat())]


def mkdt(us, rep=''):
    rep = rep.rstrip('I')
    dt = EPOCH + timedelta(microseconds=int(us))
    if rep == 'n':
        return dt.replace(tzinfo=None)
    if rep.startswith('o'):
        return dt.astimezone(timezone(timedelta(minutes=int(rep[1:]))))
    return dt


def us_of(dt):
    if dt.tzinfo is None:
        dt = dt.replace(tzinfo=timezone.utc)
    return int((dt - EPOCH) / timedelta(microseconds=1))


def p_val(s):
    c, r = s[0], s[1:]
    if c == 's':
        return _uq(r)
    if c == 'i':
        return int(r)
    if c == 'f':
        return unfbits('x' + r)
    if c == 'b':
        return r == 'T'
    if c == 'd':
        return mkdt(r)
    if c == 't':
        return mkdt(r).isoformat()
    if c == 'n':
        return None
    raise ValueError('bad value token ' + s)


def p_key(s):
    assert s[0] == 'k', s
    return _uq(s[1:])


def p_dict(tk):
    return [(p_key(tk.next()), p_val(tk.next())) for _ in range(tk.nat())]


def p_dt(s):
    if s == '-':
        return None
    body, _, rep = s.partition('@')
    a, b = body.split(',')
    return (int(a), int(b), rep)


def p_shape(tk):
    assert tk.next() == 'S'
    kind = tk.next()
    dt = p_dt(tk.next())
    props = p_dict(tk)
    geom = p_geom3(tk, p_coord)
    return {'kind': kind, 'dt': dt, 'props': props, 'geom': geom}


def p_coll(tk):
    out = []
    while not tk.done():
        out.append(p_shape(tk))
    return out


def p_incl(tk):
    t = tk.next()
    if t == '-':
        return None
    return [p_key(tk.next()) for _ in range(int(t))]


def p_optstr(s):
    return None if s == '-' else _uq(s[1:])


# ==================================================================================================
# records -> real geostructures objects, and back to tokens
# ==================================================================================================

class NotAShape:
    """stands for `xx`: an object none of the writers knows"""


def _C(c):
    from geostructures import Coordinate
    lon, lat, z, m = c
    return Coordinate(float(lon), float(lat), z=None if z is None else float(z), m=None if m is None else float(m))


def _dtobj(dt):
    from geostructures.time import TimeInterval
    if dt is None:
        return None
    a, b, rep = dt
    if a == b and not rep.endswith('I'):
        return mkdt(a, rep)
    return TimeInterval(mkdt(a, rep), mkdt(b, rep))


def _poly(rings, **kw):
    from geostructures import GeoPolygon
    holes = [GeoPolygon([_C(c) for c in r]) for r in rings[1:]]
    return GeoPolygon([_C(c) for c in rings[0]], holes=holes or None, **kw)


def build_shape(rec):
    from geostructures import (GeoPoint, GeoLineString, GeoBox, GeoCircle, MultiGeoPoint,
                               MultiGeoLineString, MultiGeoPolygon)
    kind, g = rec['kind'], rec['geom']
    kw = {'dt': _dtobj(rec['dt']), 'properties': dict(rec['props'])}
    if kind == 'pt':
        return GeoPoint(_C(g[0][0][0]), **kw)
    if kind == 'ln':
        return GeoLineString([_C(c) for c in g[0][0]], **kw)
    if kind == 'pg':
        return _poly(g[0], **kw)
    if kind == 'mpt':
        return MultiGeoPoint([GeoPoint(_C(c)) for c in g[0][0]], **kw)
    if kind == 'mln':
        return MultiGeoLineString([GeoLineString([_C(c) for c in ln]) for ln in g[0]], **kw)
    if kind == 'mpg':
        return MultiGeoPolygon([_poly(rings) for rings in g], **kw)
    if kind == 'bx':      # GeoBox(nw, se) with holes given as further rings
        from geostructures import GeoPolygon
        holes = [GeoPolygon([_C(c) for c in r]) for r in g[0][1:]]
        return GeoBox(_C(g[0][0][0]), _C(g[0][0][1]), holes=holes or None, **kw)
    if kind == 'ci':      # GeoCircle(center, radius); the radius travels in the centre's m slot
        c = g[0][0][0]
        return GeoCircle(_C((c[0], c[1], c[2], None)), float(c[3]), **kw)
    if kind == 'xx':
        return NotAShape()
    raise ValueError('bad kind ' + kind)


def build_coll(recs):
    from geostructures.collections import FeatureCollection
    return FeatureCollection([build_shape(r) for r in recs])


def orat(x):
    return '-' if x is None else rat(x)


def s_coord(c):
    return f'{rat(c.longitude)},{rat(c.latitude)},{orat(c.z)},{orat(c.m)}'


def looks_iso(s):
    if len(s) < 19 or 'T' not in s:
        return None
    try:
        return datetime.fromisoformat(s)
    except ValueError:
        return None


def s_val(v):
    """canonical value token; nulls (None / NaN / NaT) collapse to `n`"""
    import numpy as np
    if v is None:
        return 'n'
    if isinstance(v, (bool, np.bool_)):
        return 'bT' if v else 'bF'
    if isinstance(v, (int, np.integer)):
        return f'i{int(v)}'
    if isinstance(v, (float, np.floating)):
        return 'n' if math.isnan(v) else 'f' + fbits(float(v))[1:]
    if isinstance(v, str):
        d = looks_iso(v)
        return f't{us_of(d)}' if d is not None else 's' + q(v)
    if isinstance(v, datetime):
        if v != v:        # NaT
            return 'n'
        return f'd{us_of(v)}'
    if type(v).__name__ in ('NaTType', 'NAType'):
        return 'n'
    return 's' + q('<' + type(v).__name__ + '>')


def s_dict(d, sort=True):
    items = list(d.items()) if isinstance(d, dict) else list(d)
    if sort:
        items.sort(key=lambda kv: kv[0])
    return ' '.join([str(len(items))] + [f'k{q(k)} {s_val(v)}' for k, v in items])


def s_geom3(g, f):
    out = [str(len(g))]
    for poly in g:
        out.append(str(len(poly)))
        for ring in poly:
            out.append(str(len(ring)))
            out += [f(x) for x in ring]
    return ' '.join(out)


def s_dt(ti):
    return '-' if ti is None else f'{us_of(ti.start)},{us_of(ti.end)}'


def shape_nest(s):
    from geostructures import (GeoPoint, GeoLineString, GeoPolygon, MultiGeoPoint, MultiGeoLineString,
                               MultiGeoPolygon)
    if isinstance(s, GeoPoint):
        return 'pt', [[[s.coordinate]]]
    if isinstance(s, GeoLineString):
        return 'ln', [[s.vertices]]
    if isinstance(s, GeoPolygon):
        return 'pg', [[s.outline] + [h.outline for h in s.holes]]
    if isinstance(s, MultiGeoPoint):
        return 'mpt', [[[p.coordinate for p in s.geoshapes]]]
    if isinstance(s, MultiGeoLineString):
        return 'mln', [[ln.vertices for ln in s.geoshapes]]
    if isinstance(s, MultiGeoPolygon):
        return 'mpg', [[p.outline] + [h.outline for h in p.holes] for p in s.geoshapes]
    if isinstance(s, NotAShape):
        return 'xx', []
    raise ValueError('cannot show ' + type(s).__name__)


def s_shape(s):
    kind, nest = shape_nest(s)
    if kind == 'xx':
        return 'S xx - 0 0'
    return ' '.join(['S', kind, s_dt(s.dt), s_dict(s._properties), s_geom3(nest, s_coord)])


def s_coll(shapes):
    shapes = list(shapes)
    return ' '.join(s_shape(s) for s in shapes) if shapes else 'empty'


def s_tuple(t):
    return ','.join(rat(x) for x in t)


# ==================================================================================================
# fakes: pyshp
# ==================================================================================================

class _F:
    def __init__(self, name):
        self.name = name


class RecordingWriter:
    """stands in for shapefile.Writer: records what our code hands to the library"""
    log = None

    def __init__(self, target, **_kw):
        self.target = str(target)
        for ext in ('shp', 'shx', 'dbf'):
            open(f'{self.target}.{ext}', 'wb').close()
            setattr(self, ext, _F(f'{self.target}.{ext}'))
        self.fields, self.records, self.calls, self.raw = [], [], [], []
        RecordingWriter.log.append(self)

    def field(self, name, fieldType='C', size=50, decimal=0):
        self.fields.append((name, fieldType, decimal))

    def record(self, *vals):
        self.records.append(list(vals))

    def _pt(self, m, *a):
        self.raw.append((m, a))
        self.calls.append((m, [[tuple(a)]]))

    def _mp(self, m, pts):
        self.raw.append((m, (pts,)))
        self.calls.append((m, [[tuple(p) for p in pts]]))

    def _parts(self, m, ls):
        self.raw.append((m, (ls,)))
        self.calls.append((m, [[tuple(p) for p in l] for l in ls]))

    def point(self, *a): self._pt('point', *a)
    def pointz(self, *a): self._pt('pointz', *a)
    def pointm(self, *a): self._pt('pointm', *a)
    def multipoint(self, pts): self._mp('multipoint', pts)
    def multipointz(self, pts): self._mp('multipointz', pts)
    def multipointm(self, pts): self._mp('multipointm', pts)
    def line(self, ls): self._parts('line', ls)
    def linez(self, ls): self._parts('linez', ls)
    def linem(self, ls): self._parts('linem', ls)
    def poly(self, ls): self._parts('poly', ls)
    def polyz(self, ls): self._parts('polyz', ls)
    def polym(self, ls): self._parts('polym', ls)

    def close(self):
        pass


class FakeZipOut:
    def __init__(self):
        self.names = []

    def write(self, path, arcname=None):
        self.names.append(arcname or path)


def record_shp_write(coll, incl):
    """run the real `to_shapefile` against the recording writer; returns [(layer name, writer)]"""
    import shapefile
    RecordingWriter.log = []
    old = shapefile.Writer
    shapefile.Writer = RecordingWriter
    try:
        z = FakeZipOut()
        coll.to_shapefile(z, include_properties=incl)
    finally:
        shapefile.Writer = old
    order = [n.split('.')[0] for n in z.names if n.endswith('.shp')]
    by = {os.path.basename(w.target): w for w in RecordingWriter.log}
    return [(n, by[n]) for n in order]


def ftype_tok(t, dec):
    return {'L': 'L', 'C': 'C'}.get(t, f'N{dec}')


def show_files_w(layers):
    out = []
    for name, w in layers:
        fields = sorted((n, ftype_tok(t, d)) for n, t, d in w.fields)
        rows = []
        for vals, (method, parts) in zip(w.records, w.calls):
            kv = sorted(zip([f[0] for f in w.fields], vals), key=lambda p: p[0])
            rows.append(' '.join([str(len(kv)), ' '.join(f'{q(k)}={s_val(v)}' for k, v in kv), method,
                                  ' '.join([str(len(parts))] + [' '.join([str(len(r))] + [s_tuple(t) for t in r]) for r in parts])]))
        out.append(' '.join(['F', name, str(len(fields)), ' '.join(f'{q(n)}:{t}' for n, t in fields),
                             str(len(rows)), ' '.join(rows)]))
    return ' '.join(out) if out else 'empty'


GEO_DEPTH = {'Point': 0, 'LineString': 1, 'MultiPoint': 1, 'Polygon': 2, 'MultiLineString': 2, 'MultiPolygon': 3}


def nest_to_geo(gtype, g):
    """uniform 3-level nesting -> the nesting a geo interface of that type has"""
    d = GEO_DEPTH.get(gtype, 3)
    if d == 0:
        return tuple(g[0][0][0])
    if d == 1:
        return [tuple(p) for p in g[0][0]]
    if d == 2:
        return [[tuple(p) for p in r] for r in g[0]]
    return [[[tuple(p) for p in r] for r in poly] for poly in g]


def geo_to_nest(gtype, coords):
    d = GEO_DEPTH.get(gtype, 3)
    if d == 0:
        return [[[tuple(coords)]]]
    if d == 1:
        return [[[tuple(p) for p in coords]]]
    if d == 2:
        return [[[tuple(p) for p in r] for r in coords]]
    return [[[tuple(p) for p in r] for r in poly] for poly in coords]


class FakeShpShape:
    def __init__(self, gtype, nest, z, m):
        self._geo = {'type': gtype, 'coordinates': nest_to_geo(gtype, [[[(float(x), float(y)) for x, y in r] for r in p] for p in nest])}
        if z is not None:
            self.z = [None if v is None else float(v) for v in z]
        if m is not None:
            self.m = [None if v is None else float(v) for v in m]

    @property
    def __geo_interface__(self):
        return self._geo


class FakeRecord:
    def __init__(self, d):
        self._d = d

    def as_dict(self):
        return dict(self._d)


class FakeReader:
    registry = {}

    def __init__(self, path, **_kw):
        self.rows = FakeReader.registry[os.path.basename(str(path)).split('.')[0]]
        self.shapeTypeName = 'FAKE'

    def shapes(self):
        return [FakeShpShape(*r[0]) for r in self.rows]

    def records(self):
        return [FakeRecord(r[1]) for r in self.rows]


def p_zlist(tk, pre):
    t = tk.next()
    assert t[0] == pre
    if t[1:] == '-':
        return None
    return [p_orat(tk.next()) for _ in range(int(t[1:]))]


def p_files_r(tk):
    files = []
    while not tk.done():
        assert tk.next() == 'F'
        name = tk.next()
        rows = []
        for _ in range(tk.nat()):
            gtype = tk.next()
            nest = p_geom3(tk, p_tuple)
            z = p_zlist(tk, 'Z')
            m = p_zlist(tk, 'M')
            rec = p_dict(tk)
            rows.append(((gtype, nest, z, m), rec))
        files.append((name, rows))
    return files


def run_shp_read(files, fs=None, fe=None):
    """run the real `from_shapefile` against fake reader objects built from a channel value"""
    import shapefile
    import geostructures.collections as gc
    from geostructures.collections import FeatureCollection
    FakeReader.registry = {name: rows for name, rows in files}
    names = [f'{name}.{ext}' for name, _ in files for ext in ('shx', 'shp', 'dbf', 'prj')]

    class FakeZipIn:
        def __init__(self, *_a, **_k): pass
        def __enter__(self): return self
        def __exit__(self, *a): return False
        def namelist(self): return names

    old_r, old_z = shapefile.Reader, gc.ZipFile
    shapefile.Reader, gc.ZipFile = FakeReader, FakeZipIn
    try:
        kw = {}
        if fs is not None:
            kw['time_start_field'] = fs
        if fe is not None:
            kw['time_end_field'] = fe
        return FeatureCollection.from_shapefile('fake.zip', **kw)
    finally:
        shapefile.Reader, gc.ZipFile = old_r, old_z


# ==================================================================================================
# fakes: pandas / geopandas
# ==================================================================================================

@contextlib.contextmanager
def fake_modules(mods):
    old = {k: sys.modules.get(k) for k in mods}
    sys.modules.update(mods)
    try:
        yield
    finally:
        for k, v in old.items():
            if v is None:
                sys.modules.pop(k, None)
            else:
                sys.modules[k] = v


class _Rec:
    def __init__(self, **kw):
        self.__dict__.update(kw)


def _fake_pandas():
    pd = types.ModuleType('pandas')
    gpd = types.ModuleType('geopandas')
    pd.DataFrame = lambda rows=None, **kw: _Rec(rows=list(rows if rows is not None else kw.get('data')))

    class GeoSeries:
        @staticmethod
        def from_wkt(wkts):
            return list(wkts)

    gpd.GeoSeries = GeoSeries
    gpd.GeoDataFrame = lambda data=None, geometry=None, **kw: _Rec(rows=data.rows, wkts=geometry)

    def isnull(x):
        return x is None or (isinstance(x, float) and x != x)
    pd.isnull = isnull
    return {'pandas': pd, 'geopandas': gpd}


NUM = r'[-+]?(?:\d+\.?\d*|\.\d+)(?:[eE][-+]?\d+)?'


def parse_wkt(text):
    """WKT text (either dialect) -> (geo type, uniform 3-level nesting of number tuples); exact via float()"""
    import re
    m = re.match(r'\s*([A-Za-z]+)\s*(ZM|Z|M)?\s*(.*)$', text.strip(), flags=re.S)
    kw, body = m.group(1).upper(), m.group(3)
    gtype = {'POINT': 'Point', 'LINESTRING': 'LineString', 'POLYGON': 'Polygon', 'MULTIPOINT': 'MultiPoint',
             'MULTILINESTRING': 'MultiLineString', 'MULTIPOLYGON': 'MultiPolygon'}[kw]
    # tokenise parentheses, commas, numbers
    toks = re.findall(r'\(|\)|,|' + NUM, body)
    pos = 0

    def node():
        nonlocal pos
        assert toks[pos] == '('
        pos += 1
        items, cur = [], []
        while toks[pos] != ')':
            if toks[pos] == '(':
                items.append(node())
                continue
            elif toks[pos] == ',':
                if cur:
                    items.append(tuple(cur))
                    cur = []
            else:
                cur.append(Fraction(float(toks[pos])))
            pos += 1
        pos += 1
        if cur:
            items.append(tuple(cur))
        return items
    tree = node()
    if gtype == 'Point':
        nest = [[[tree[0]]]]
    elif gtype == 'LineString':
        nest = [[tree]]
    elif gtype == 'MultiPoint':
        nest = [[[x[0] if isinstance(x, list) else x for x in tree]]]
    elif gtype in ('Polygon', 'MultiLineString'):
        nest = [tree]
    else:
        nest = tree
    return gtype, nest


def record_gpd_write(coll, incl):
    with fake_modules(_fake_pandas()):
        return coll.to_geopandas(include_properties=incl)


def show_frame_w(fr):
    rows = []
    for row, wkt in zip(fr.rows, fr.wkts):
        gtype, nest = parse_wkt(wkt)
        rows.append(' '.join([s_dict(row), gtype, s_geom3(nest, s_tuple)]))
    return ' '.join(['W', str(len(rows))] + rows)


def fnum(x):
    r = repr(float(x))
    return r[:-2] if r.endswith('.0') else r


def wkt_shapely(gtype, nest):
    """a geometry in shapely's WKT dialect (what `record['geometry'].wkt` looks like)"""
    dim = max((len(t) for p in nest for r in p for t in r), default=2)
    tag = ' Z' if dim == 3 else (' ZM' if dim == 4 else '')
    def ring(r): return '(' + ', '.join(' '.join(fnum(x) for x in t) for t in r) + ')'
    kw = gtype.upper()
    if gtype == 'Point':
        return f'{kw}{tag} {ring(nest[0][0])}'
    if gtype == 'LineString':
        return f'{kw}{tag} {ring(nest[0][0])}'
    if gtype == 'MultiPoint':
        return f'{kw}{tag} (' + ', '.join(ring([t]) for t in nest[0][0]) + ')'
    if gtype in ('Polygon', 'MultiLineString'):
        return f'{kw}{tag} (' + ', '.join(ring(r) for r in nest[0]) + ')'
    return f'{kw}{tag} (' + ', '.join('(' + ', '.join(ring(r) for r in p) + ')' for p in nest) + ')'


class FakeGeom:
    def __init__(self, geom_type, wkt):
        self.geom_type, self.wkt = geom_type, wkt


class FakeFrame:
    def __init__(self, columns, rows):
        self.columns, self._rows = columns, rows

    def to_dict(self, orient):
        assert orient == 'records'
        return [dict(r) for r in self._rows]


def p_gi(tk):
    gtype = tk.next()
    return gtype, p_geom3(tk, p_tuple)


def p_frame_r(tk):
    t = tk.next()
    assert t[0] == 'C'
    cols = [p_key(tk.next()) for _ in range(int(t[1:]))]
    rows = []
    for _ in range(tk.nat()):
        cells = p_dict(tk)
        geom_type = tk.next()
        gtype, nest = p_gi(tk)
        rows.append((cells, geom_type, gtype, nest))
    return cols, rows


def run_gpd_read(cols, rows):
    from geostructures.collections import FeatureCollection
    recs = []
    for cells, geom_type, gtype, nest in rows:
        d = dict(cells)
        d['geometry'] = FakeGeom(geom_type, wkt_shapely(gtype, nest))
        recs.append(d)
    with fake_modules(_fake_pandas()):
        return FeatureCollection.from_geopandas(FakeFrame(list(cols) + ['geometry'], recs))


# ==================================================================================================
# fakes: fastkml
# ==================================================================================================

def _fake_fastkml():
    fk = types.ModuleType('fastkml')
    fd = types.ModuleType('fastkml.data')
    ft = types.ModuleType('fastkml.times')

    def cls(name, *fields):
        def __init__(self, *a, **kw):
            for f, v in zip(fields, a):
                setattr(self, f, v)
            for f in fields[len(a):]:
                setattr(self, f, kw.pop(f, None))
            self.extra = kw
        return type(name, (), {'__init__': __init__})

    fk.Placemark = cls('Placemark', 'geometry', 'extended_data', 'times', 'name', 'description', 'address', 'phone_number')
    fk.Folder = cls('Folder', 'name', 'features')
    fk.Document = cls('Document', 'features')
    fk.KML = cls('KML', 'features')
    fk.SchemaData = cls('SchemaData', 'data')
    fd.ExtendedData = cls('ExtendedData', 'elements')
    fd.Data = cls('Data', 'name', 'value')
    ft.KmlDateTime = cls('KmlDateTime', 'dt')
    ft.TimeStamp = cls('TimeStamp', 'timestamp')
    ft.TimeSpan = cls('TimeSpan', 'begin', 'end')
    fk.data, fk.times = fd, ft
    return {'fastkml': fk, 'fastkml.data': fd, 'fastkml.times': ft}


def s_optstr(s):
    return '-' if s is None else 's' + q(s)


def show_times(t):
    if t is None:
        return 'T-'
    n = type(t).__name__
    if n == 'TimeStamp':
        return f'Ts{us_of(t.timestamp.dt)}'
    if n == 'TimeSpan':
        return f'Tp{us_of(t.begin.dt)},{us_of(t.end.dt)}'
    return 'T?' + n


def show_placemark(pm, geo=None):
    if pm.geometry is None:
        g = 'G-'
    else:
        gi = geo if geo is not None else pm.geometry.__geo_interface__
        g = ' '.join(['G', gi['type'], s_geom3(geo_to_nest(gi['type'], gi['coordinates']), s_tuple)])
    if pm.extended_data is None:
        d = 'D-'
    else:
        els = pm.extended_data.elements
        d = ' '.join([f'D{len(els)}'] + [f'k{q(e.name)} {s_val(e.value)}' for e in els])
    return ' '.join([g, d, show_times(pm.times), s_optstr(pm.name), s_optstr(pm.description),
                     s_optstr(pm.address), s_optstr(pm.phone_number)])


def show_node(n):
    t = type(n).__name__
    if t == 'Folder':
        return ' '.join(['[F', s_optstr(n.name), str(len(n.features))] + [show_node(k) for k in n.features])
    if t == 'Document':
        return ' '.join(['[D', str(len(n.features))] + [show_node(k) for k in n.features])
    if t == 'KML':
        return ' '.join(['[K', str(len(n.features))] + [show_node(k) for k in n.features])
    if t == 'Placemark':
        return '[M ' + show_placemark(n)
    return '[X'


class FakeGeo:
    def __init__(self, gtype, nest):
        self._g = {'type': gtype, 'coordinates': nest_to_geo(gtype, [[[tuple(float(x) for x in t) for t in r] for r in p] for p in nest])}

    @property
    def __geo_interface__(self):
        return self._g


def p_node(tk, mods):
    fk, fd, ft = mods['fastkml'], mods['fastkml.data'], mods['fastkml.times']
    t = tk.next()
    if t == '[F':
        name = p_optstr(tk.next())
        return fk.Folder(name=name, features=[p_node(tk, mods) for _ in range(tk.nat())])
    if t == '[D':
        return fk.Document(features=[p_node(tk, mods) for _ in range(tk.nat())])
    if t == '[K':
        return fk.KML(features=[p_node(tk, mods) for _ in range(tk.nat())])
    if t == '[X':
        return object()
    assert t == '[M', t
    g = tk.next()
    geom = None
    if g == 'G':
        gtype, nest = p_gi(tk)
        geom = FakeGeo(gtype, nest)
    d = tk.next()
    ext = None
    if d != 'D-':
        ext = fd.ExtendedData(elements=[fd.Data(name=p_key(tk.next()), value=p_val(tk.next())) for _ in range(int(d[1:]))])
    t = tk.next()
    times = None
    if t.startswith('Ts'):
        times = ft.TimeStamp(timestamp=ft.KmlDateTime(dt=mkdt(t[2:])))
    elif t.startswith('Tp'):
        a, b = t[2:].split(',')
        times = ft.TimeSpan(begin=ft.KmlDateTime(dt=mkdt(a)), end=ft.KmlDateTime(dt=mkdt(b)))
    name, descr, addr, phone = (p_optstr(tk.next()) for _ in range(4))
    return fk.Placemark(geometry=geom, extended_data=ext, times=times, name=name, description=descr,
                        address=addr, phone_number=phone)


# ==================================================================================================
# impl interpreters for the adapter streams
# ==================================================================================================

def _args(line):
    cmd, *a = line.split(' ')
    return cmd.split('.', 1)[1], Toks([x for x in a if x != ''])


def impl(line):
    op, tk = _args(line)
    if op == 'mk':
        return s_coll(build_coll(p_coll(tk)).geoshapes)
    if op == 'hist':
        return hist_adapter(tk)
    if op == 'shpw':
        incl = p_incl(tk)
        return show_files_w(record_shp_write(build_coll(p_coll(tk)), incl))
    if op == 'shpr':
        fs, fe = tk.next(), tk.next()
        files = p_files_r(tk)
        return s_coll(run_shp_read(files, None if fs == '-' else fs, None if fe == '-' else fe).geoshapes)
    if op == 'gpdw':
        incl = p_incl(tk)
        return show_frame_w(record_gpd_write(build_coll(p_coll(tk)), incl))
    if op == 'gpdr':
        cols, rows = p_frame_r(tk)
        return s_coll(run_gpd_read(cols, rows).geoshapes)
    if op == 'kmlw':
        name = p_optstr(tk.next())
        coll = build_coll(p_coll(tk))
        with fake_modules(_fake_fastkml()):
            return show_node(coll.to_fastkml_folder(name))
    if op == 'kmlr':
        from geostructures.collections import FeatureCollection
        mods = _fake_fastkml()
        with fake_modules(mods):
            node = p_node(tk, mods)
            return s_coll(FeatureCollection.from_fastkml_folder(node).geoshapes)
    raise ValueError('unknown op ' + op)


# ==================================================================================================
# channel contracts in Python (what the libraries are assumed to do) and the real libraries
# ==================================================================================================

def area2(ring):
    """twice the signed area (positive = counter-clockwise), exact"""
    n = len(ring)
    return sum(Fraction(ring[i][0]) * (Fraction(ring[(i + 1) % n][1]) - Fraction(ring[i - 1][1])) for i in range(n))


def split_method(m):
    for sfx in ('z', 'm'):
        if m.endswith(sfx):
            return m[:-1], sfx
    return m, ''


def contract_shp_geo(method, parts):
    base, sfx = split_method(method)
    pts = [[(t[0], t[1]) for t in r] for r in parts]
    flat = [t for r in parts for t in r]
    z = [t[2] if len(t) > 2 else None for t in flat] if sfx == 'z' else None
    if sfx == 'z':
        m = [t[3] if len(t) > 3 else None for t in flat]
    elif sfx == 'm':
        m = [t[2] if len(t) > 2 else None for t in flat]
    else:
        m = None
    if base == 'point':
        return 'Point', [pts], z, m
    if base == 'multipoint':
        return 'MultiPoint', [pts], z, m
    if base == 'line':
        return ('LineString' if len(pts) == 1 else 'MultiLineString'), [pts], z, m
    polys = []
    for r in pts:
        if area2(r) < 0 or not polys:      # clockwise: an exterior
            polys.append([r])
        else:
            polys[-1].append(r)
    return ('Polygon' if len(polys) == 1 else 'MultiPolygon'), polys, z, m


def contract_shp(layers):
    """[(name, RecordingWriter)] -> [(name, [((gtype, nest, z, m), [(key, value)])])]"""
    files = []
    for name, w in layers:
        rows = []
        for vals, (method, parts) in zip(w.records, w.calls):
            rec = []
            for (fname, ftype, _dec), v in zip(w.fields, vals):
                if ftype == 'C' and v is None:
                    v = ''
                rec.append((fname[:10], v))
            rows.append((contract_shp_geo(method, parts), rec))
        files.append((name, rows))
    return files


def s_zlist(pre, l):
    return pre + '-' if l is None else ' '.join([f'{pre}{len(l)}'] + [orat(v) for v in l])


def show_files_r(files):
    out = []
    for name, rows in files:
        rr = [' '.join([g[0], s_geom3(g[1], s_tuple), s_zlist('Z', g[2]), s_zlist('M', g[3]), s_dict(rec)]) for g, rec in rows]
        out.append(' '.join(['F', name, str(len(rr))] + rr))
    return ' '.join(out) if out else 'empty'


def real_shp_channel(layers):
    """replay the recorded calls on the real pyshp writer, read the files back with the real reader"""
    import shapefile
    tmp = tempfile.mkdtemp(prefix='c20-')
    try:
        files = []
        for name, w in layers:
            path = os.path.join(tmp, name)
            rw = shapefile.Writer(path)
            for fname, ftype, dec in w.fields:
                rw.field(fname, ftype, decimal=dec)
            for vals, (method, args) in zip(w.records, w.raw):
                rw.record(*vals)
                getattr(rw, method)(*args)
            rw.close()
            rd = shapefile.Reader(path)
            rows = []
            for shp, rec in zip(rd.shapes(), rd.records()):
                gi = shp.__geo_interface__
                z = list(shp.z) if hasattr(shp, 'z') else None
                m = list(shp.m) if hasattr(shp, 'm') else None
                rows.append(((gi['type'], geo_to_nest(gi['type'], gi['coordinates']), z, m), list(rec.as_dict().items())))
            rd.close()
            files.append((name, rows))
        return files
    finally:
        shutil.rmtree(tmp, ignore_errors=True)


def contract_gpd(fr):
    """recorded frame -> (columns, [(cells, geom_type, gtype, nest)]) as the contract says"""
    cols = list(fr.rows[0].keys()) if fr.rows else []
    promote = set()
    for c in cols:
        vals = [r[c] for r in fr.rows]
        non = [v for v in vals if v is not None]
        if len(non) < len(vals) and non and all(isinstance(v, int) and not isinstance(v, bool) for v in non):
            promote.add(c)
    rows = []
    for r, wkt in zip(fr.rows, fr.wkts):
        gtype, nest = parse_wkt(wkt)
        cells = [(c, float(r[c]) if c in promote and r[c] is not None else r[c]) for c in cols]
        rows.append((cells, gtype, gtype, nest))
    return cols, rows


def show_frame_r(cols, rows):
    return ' '.join([f'C{len(cols)}'] + ['k' + q(c) for c in sorted(cols)] + [str(len(rows))] +
                    [' '.join([s_dict(cells), gt, g, s_geom3(nest, s_tuple)]) for cells, gt, g, nest in rows])


def real_gpd_channel(fr):
    import geopandas as gpd
    import pandas as pd
    df = gpd.GeoDataFrame(data=pd.DataFrame(fr.rows), geometry=gpd.GeoSeries.from_wkt(fr.wkts))
    cols = [c for c in df.columns if c != 'geometry']
    rows = []
    for rec in df.to_dict('records'):
        g = rec['geometry']
        gtype, nest = parse_wkt(g.wkt)
        rows.append(([(c, rec[c]) for c in cols], g.geom_type, gtype, nest))
    return cols, rows


class GeoObj:
    def __init__(self, gi):
        self.__geo_interface__ = gi


def real_kml_channel(node, via_text):
    """rebuild the recorded (fake) tree with the real fastkml classes; optionally through KML text"""
    import fastkml
    from fastkml.data import ExtendedData, Data
    from fastkml.times import TimeSpan, TimeStamp, KmlDateTime

    def conv(n):
        t = type(n).__name__
        if t == 'Folder':
            return fastkml.Folder(name=n.name, features=[conv(k) for k in n.features])
        pm = n
        times = None
        if pm.times is not None and type(pm.times).__name__ == 'TimeStamp':
            times = TimeStamp(timestamp=KmlDateTime(dt=pm.times.timestamp.dt))
        elif pm.times is not None:
            times = TimeSpan(begin=KmlDateTime(pm.times.begin.dt), end=KmlDateTime(pm.times.end.dt))
        gi = pm.geometry.__geo_interface__
        return fastkml.Placemark(
            geometry=GeoObj(gi),
            extended_data=ExtendedData(elements=[Data(name=e.name, value=e.value) for e in pm.extended_data.elements]),
            times=times)
    real = conv(node)
    if via_text:
        real = fastkml.Folder.from_string(real.to_string())
    return real


def contract_kml(node, via_text):
    """object level: identity.  Text level: a placemark without data has no ExtendedData element."""
    def pm_txt(pm):
        s = show_placemark(pm)
        return s.replace(' D0 ', ' D- ') if via_text else s
    return ' '.join(['[F', s_optstr(node.name), str(len(node.features))] + ['[M ' + pm_txt(k) for k in node.features])


# ==================================================================================================
# generators
# ==================================================================================================

OUTLINES = {
    'rect': [(0, 0), (1, 0), (1, 1), (0, 1)],
    'tri': [(0, 0), (1, 0), (0, 1)],
    'pent': [(0, 0), (1, 0), (1, Fraction(3, 4)), (Fraction(1, 2), 1), (0, Fraction(3, 4))],
    'ell': [(0, 0), (1, 0), (1, Fraction(1, 2)), (Fraction(1, 2), Fraction(1, 2)), (Fraction(1, 2), 1), (0, 1)],
}
HOLE_CELLS = [(Fraction(1, 8), Fraction(1, 4), Fraction(1, 8), Fraction(1, 4)),
              (Fraction(1, 8), Fraction(1, 4), Fraction(3, 8), Fraction(1, 2))]
KEYS = ['name', 'n', 'val', 'flag', 'f1', 'label', 'cnt', 'w_9', 'tenletters']


PROFILES = ['zero', 'zero', 'outline0', 'first0', 'mixed', 'mixed', 'random', 'random']


class Gen:
    """Degenerate values are first-class: every shape with Z (M) draws a *profile* for its altitudes (measures) —
    all exactly 0.0, 0.0 on the outline only, 0.0 on the first vertex only, a zero / non-zero mix, or arbitrary —
    so that code testing the truthiness of a value instead of `is not None` changes behaviour somewhere."""

    def __init__(self, rng):
        self.rng = rng
        self.zp = self.mp = 'random'
        self.role, self.nth = 'outline', 0

    def start_shape(self):
        self.zp, self.mp = self.rng.choice(PROFILES), self.rng.choice(PROFILES)
        self.role, self.nth = 'outline', 0

    def _val(self, mode, prof):
        if not mode:
            return None
        r = self.rng
        nz = Fraction(r.choice([x for x in range(-8, 40) if x != 0]), 4)
        if prof == 'zero':
            return Fraction(0)
        if prof == 'outline0':
            return Fraction(0) if self.role == 'outline' else nz
        if prof == 'first0':
            return Fraction(0) if self.nth == 0 else nz
        if prof == 'mixed':
            return Fraction(0) if r.random() < 0.5 else nz
        return Fraction(r.randrange(-8, 40), 4)

    def zval(self, zmode):
        return self._val(zmode, self.zp)

    def coord(self, x, y, zmode, mmode=False):
        c = (Fraction(x), Fraction(y), self._val(zmode, self.zp), self._val(mmode, self.mp))
        self.nth += 1
        return c

    def pt(self, zmode, mmode=False):
        r = self.rng
        lon, lat = Fraction(r.randrange(-170 * 8, 170 * 8), 8), Fraction(r.randrange(-80 * 8, 80 * 8), 8)
        c = r.random()
        if c < 0.06:
            lon = Fraction(0)
        elif c < 0.12:
            lat = Fraction(0)
        return self.coord(lon, lat, zmode, mmode)

    def ring(self, tmpl, x0, y0, w, h, zmode, mmode=False, messy=True):
        """a template ring placed in a box; start vertex, direction and closure are random when messy"""
        r = self.rng
        vs = [self.coord(x0 + Fraction(u) * w, y0 + Fraction(v) * h, zmode, mmode) for u, v in tmpl]
        if messy:
            k = r.randrange(len(vs))
            vs = vs[k:] + vs[:k]
            if r.random() < 0.5:
                vs = vs[::-1]
            if r.random() < 0.6:
                vs = vs + [vs[0]]
        else:
            vs = vs + [vs[0]]
        return vs

    def poly(self, x0, y0, zmode, mmode=False, nholes=None, messy=True):
        r = self.rng
        w, h = r.choice([1, 2, 4, 8]), r.choice([1, 2, 4, 8])
        self.role = 'outline'
        rings = [self.ring(OUTLINES[r.choice(list(OUTLINES))], x0, y0, w, h, zmode, mmode, messy)]
        nholes = r.choice([0, 0, 1, 2]) if nholes is None else nholes
        self.role = 'hole'
        for (a, b, c, d) in HOLE_CELLS[:nholes]:
            rings.append(self.ring(OUTLINES[r.choice(['rect', 'tri'])], x0 + a * w, y0 + c * h, (b - a) * w, (d - c) * h,
                                   zmode, mmode, messy))
        self.role = 'outline'
        return rings, w

    def origin(self):
        r = self.rng
        return Fraction(r.randrange(-160 * 4, 120 * 4), 4), Fraction(r.randrange(-80 * 4, 70 * 4), 4)

    def dt(self):
        r = self.rng
        c = r.random()
        if c < 0.35:
            return None
        a = BASE_US + r.choice([r.randrange(0, 10), r.randrange(0, 10**7), r.randrange(0, 10**13)])
        rep = r.choice(['', '', '', '@n', '@o60', '@o-330'])
        if c < 0.65:
            # an instant: given as a datetime or (suffix I) as an explicit zero-length TimeInterval
            return (a, a, rep + ('' if r.random() < 0.6 else (rep and 'I' or '@I')))
        return (a, a + r.choice([1, 999, 10**6, r.randrange(1, 10**12)]), rep)

    def sval(self, kml=False):
        r = self.rng
        pool = ['a', 'abc', 'Zeta', 'x y', 'with,comma', 'q"uote', 'é', 'tab_end', '2020', 'v1.5', 'a=b', '<tag>', 'x&y']
        s = r.choice(pool)
        if r.random() < 0.3:
            s += str(r.randrange(100))
        if not kml and r.random() < 0.15:
            s = ''
        return 's' + q(s)

    def fval(self, wide=False):
        r = self.rng
        if wide:
            return 'f' + fbits(r.choice([1 / 3, 1e-20, 2.5e40, r.random(), r.uniform(-1e6, 1e6)]))[1:]
        # floats that a 15-decimal fixed-point field carries exactly
        return 'f' + fbits(r.choice([r.randrange(-4000, 4000) / 8, r.randrange(-10**6, 10**6) / 1000, 0.0, 0.0, 0.1, -2.5,
                                     r.randrange(10**9) / 64]))[1:]

    def schema(self, kinds='sifb', nmax=3):
        """uniform type per key"""
        r = self.rng
        keys = r.sample(KEYS, r.randrange(0, nmax + 1))
        return [(k, r.choice(kinds)) for k in keys]

    def props(self, schema, drop=0.0, kml=False, wide=False):
        r = self.rng
        out = []
        for k, t in schema:
            if r.random() < drop:
                continue
            v = {'s': lambda: self.sval(kml), 'i': lambda: f'i{r.choice([0, 0, 1, -1, r.randrange(-1000, 100000), r.randrange(-1000, 100000)])}',
                 'f': lambda: self.fval(wide), 'b': lambda: r.choice(['bT', 'bF'])}[t]()
            out.append((k, v))
        r.shuffle(out)
        return out

    def shape(self, kind, zmode, mmode=False, schema=(), drop=0.0, kml=False, wide=False, nmembers=None, messy=True):
        r = self.rng
        self.start_shape()
        x0, y0 = self.origin()
        if kind == 'pt':
            g = [[[self.pt(zmode, mmode)]]]
        elif kind == 'ln':
            g = [[[self.pt(zmode, mmode) for _ in range(r.randrange(2, 6))]]]
        elif kind == 'mpt':
            n = nmembers or r.randrange(2, 5)
            g = [[[self.pt(zmode, mmode) for _ in range(n)]]]
        elif kind == 'mln':
            n = nmembers or r.randrange(2, 4)
            g = [[[self.pt(zmode, mmode) for _ in range(r.randrange(2, 5))] for _ in range(n)]]
        elif kind == 'pg':
            g = [self.poly(x0, y0, zmode, mmode, messy=messy)[0]]
        elif kind == 'mpg':
            n = nmembers or r.randrange(2, 4)
            g = []
            for _ in range(n):
                rings, w = self.poly(x0, y0, zmode, mmode, messy=messy)
                g.append(rings)
                x0 += w + 1
        elif kind == 'bx':
            w, h = r.choice([1, 2, 4, 8]), r.choice([1, 2, 4, 8])
            z = self.zval(zmode)
            nw, se = (x0, y0 + h, z, None), (x0 + w, y0, z, None)
            self.role = 'hole'
            holes = [self.ring(OUTLINES['rect'], x0 + a * w, y0 + c * h, (b - a) * w, (d - c) * h, zmode)
                     for (a, b, c, d) in HOLE_CELLS[:r.choice([0, 0, 1, 2])]]
            g = [[[nw, se]] + holes]
        elif kind == 'ci':
            c = self.pt(zmode)
            g = [[[(c[0], c[1], c[2], Fraction(r.choice([10, 250, 1000, 5000])))]]]
        else:
            g = []
        return {'kind': kind, 'dt': None if kind == 'xx' else self.dt(),
                'props': [] if kind == 'xx' else self.props(schema, drop, kml, wide), 'geom': g}

    def coll(self, kinds, n=None, zmode=None, mmode=False, schema=None, drop=0.0, kml=False, wide=False,
             zmix=False, single=False, messy=True, skinds='sifb'):
        r = self.rng
        n = r.randrange(1, 6) if n is None else n
        zmode = (r.random() < 0.4) if zmode is None else zmode
        schema = self.schema(skinds) if schema is None else schema
        out = []
        for _ in range(n):
            kind = r.choice(kinds)
            z = (r.random() < 0.5) if zmix else zmode
            nm = 1 if single and kind in ('mpt', 'mln', 'mpg') else None
            out.append(self.shape(kind, z, mmode, schema, drop, kml, wide, nm, messy))
        return out


def t_coord(c):
    return f'{rat(c[0])},{rat(c[1])},{orat(c[2])},{orat(c[3])}'


def t_dt(dt):
    return '-' if dt is None else f'{dt[0]},{dt[1]}{dt[2]}'


def t_shape(rec):
    if rec['kind'] == 'xx':
        return 'S xx - 0 0'
    return ' '.join(['S', rec['kind'], t_dt(rec['dt']), str(len(rec['props']))] +
                    [f'k{q(k)} {v}' for k, v in rec['props']] + [s_geom3(rec['geom'], t_coord)])


def t_coll(recs):
    return ' '.join(t_shape(r) for r in recs)


def t_incl(incl):
    return '-' if incl is None else ' '.join([str(len(incl))] + ['k' + q(k) for k in incl])


BASIC = ['pt', 'ln', 'pg', 'mpt', 'mln', 'mpg']


# ==================================================================================================
# end to end with the real libraries: the property statement as the oracle
# ==================================================================================================

FAMILY = {'pt': 0, 'mpt': 1, 'ln': 2, 'mln': 2, 'pg': 3, 'mpg': 3, 'bx': 3, 'ci': 3}
BACK_KIND = {'bx': 'pg', 'ci': 'pg'}


def _strip(s):
    c = s.copy()
    c.dt = None
    return c


def _same_val(a, b):
    if type(a) is not type(b):
        return False
    if isinstance(a, float) and a != a:
        return b != b
    return a == b


def _is_null(v):
    return v is None or v == '' or (isinstance(v, float) and v != v)


def _orient_ok(shape):
    """read-back polygons: every exported ring closed, shell counter-clockwise, holes clockwise"""
    from geostructures import GeoPolygon, MultiGeoPolygon
    polys = [shape] if isinstance(shape, GeoPolygon) else (shape.geoshapes if isinstance(shape, MultiGeoPolygon) else [])
    for p in polys:
        for i, ring in enumerate(p.linear_rings()):
            pts = [(Fraction(c.longitude), Fraction(c.latitude)) for c in ring]
            if pts[0] != pts[-1]:
                return False
            a = area2(pts[:-1])
            if (i == 0 and a <= 0) or (i > 0 and a >= 0):
                return False
    return True


def compare_back(fmt, recs, orig, back):
    """discrepancy tags between what the statement demands and what came back (sorted, deduplicated)"""
    tags = set()
    order = list(range(len(orig)))
    if fmt == 'shp':
        order.sort(key=lambda i: FAMILY[recs[i]['kind']])      # stable: same order within each family
    if len(back) != len(orig):
        return f'count:{len(orig)}>{len(back)}'
    allkeys = set(k for r in recs for k, _ in r['props'])
    for j, i in enumerate(order):
        o, b, rec = orig[i], back[j], recs[i]
        want = BACK_KIND.get(rec['kind'], rec['kind'])
        got = shape_nest(b)[0]
        if got != want:
            tags.add(f'kind:{want}>{got}')
            continue
        ref = o.to_polygon() if rec['kind'] in BACK_KIND else o
        if not (_strip(b) == _strip(ref)):
            tags.add('geom')
        elif hasattr(ref, 'geoshapes') and [_strip(x) for x in b.geoshapes] != [_strip(x) for x in ref.geoshapes]:
            tags.add('member-order')
        if not _orient_ok(b):
            tags.add('orient')
        if not (b.dt == o.dt):
            tags.add('dt')
        po, pb = o._properties, b._properties
        for k in sorted(set(po) | set(pb)):
            if k not in pb:
                tags.add('props:-nonstr' if fmt.startswith('kml') and not isinstance(po[k], str) else 'props:-key')
            elif k not in po:
                if k == 'ID' and fmt == 'shp':
                    tags.add('props:+ID')
                elif k.startswith('sub_folder_') and fmt.startswith('kml'):
                    tags.add('props:+sub_folder')
                elif k in allkeys and _is_null(pb[k]):
                    tags.add('props:+null')
                else:
                    tags.add('props:+key')
            elif not _same_val(po[k], pb[k]):
                if isinstance(po[k], int) and not isinstance(po[k], bool) and isinstance(pb[k], float) and po[k] == pb[k]:
                    tags.add('props:int>float')
                elif isinstance(po[k], float) and isinstance(pb[k], float) and float('%.15f' % po[k]) != po[k]:
                    tags.add('props:float15')
                else:
                    tags.add('props:~value')
    return ' '.join(sorted(tags)) if tags else 'OK'


def e2e(fmt, recs):
    from zipfile import ZipFile
    from geostructures.collections import FeatureCollection
    coll = build_coll(recs)
    orig = list(coll.geoshapes)
    if fmt == 'shp':
        tmp = tempfile.mkdtemp(prefix='c20-')
        try:
            zp = os.path.join(tmp, 'c.zip')
            with ZipFile(zp, 'w') as z:
                coll.to_shapefile(z)
            back = FeatureCollection.from_shapefile(zp)
        finally:
            shutil.rmtree(tmp, ignore_errors=True)
    elif fmt == 'gpd':
        back = FeatureCollection.from_geopandas(coll.to_geopandas())
    else:
        folder = coll.to_fastkml_folder('fold')
        if fmt == 'kmltext':
            import fastkml
            folder = fastkml.Folder.from_string(folder.to_string())
        back = FeatureCollection.from_fastkml_folder(folder)
    return compare_back(fmt, recs, orig, list(back.geoshapes))


def impl_np(line):
    op, tk = _args(line)
    if op.startswith('e2e-'):
        return e2e(op[4:], p_coll(tk))
    if op.startswith('hist-'):
        return hist_np(op, tk, True)
    if op == 'contract-shp':
        incl = p_incl(tk)
        return show_files_r(real_shp_channel(record_shp_write(build_coll(p_coll(tk)), incl)))
    if op == 'contract-gpd':
        return show_frame_r(*real_gpd_channel(record_gpd_write(build_coll(p_coll(tk)), None)))
    if op in ('contract-kml', 'contract-kmltext'):
        coll = build_coll(p_coll(tk))
        with fake_modules(_fake_fastkml()):
            node = coll.to_fastkml_folder('fold')
        return show_node(real_kml_channel(node, op.endswith('text')))
    # the Python contract itself, compared with the Lean ideal channel (chan-* streams)
    if op == 'shpchan':
        incl = p_incl(tk)
        return show_files_r(contract_shp(record_shp_write(build_coll(p_coll(tk)), incl)))
    if op == 'gpdchan':
        return show_frame_r(*contract_gpd(record_gpd_write(build_coll(p_coll(tk)), None)))
    raise ValueError('unknown op ' + op)


def spec_np(line):
    op, tk = _args(line)
    if op.startswith('e2e-'):
        return 'OK'
    if op.startswith('hist-'):
        try:
            return hist_np(op, tk, False)
        except Exception as e:  # noqa
            return common.err_name(e)
    if op == 'contract-shp':
        incl = p_incl(tk)
        return show_files_r(contract_shp(record_shp_write(build_coll(p_coll(tk)), incl)))
    if op == 'contract-gpd':
        return show_frame_r(*contract_gpd(record_gpd_write(build_coll(p_coll(tk)), None)))
    if op in ('contract-kml', 'contract-kmltext'):
        coll = build_coll(p_coll(tk))
        with fake_modules(_fake_fastkml()):
            node = coll.to_fastkml_folder('fold')
        return contract_kml(node, op.endswith('text'))
    return None


def impl_replay_e2e(line):
    """--replay of an end-to-end line: the answer without the tags that are listed known findings (they are
    reported as KNOWN-FINDING by the check, not as violations), so a repaired tree replays as OK"""
    a = impl_np(line)
    op, tk = _args(line)
    fmt, recs = op[4:], p_coll(tk)
    known = common.load_known('C20')
    if a.startswith(('ERR:', 'TIMEOUT')):
        return 'OK' if all(k in known for k in e2e_keys(fmt, recs, a)) else a
    left = [t for t in a.split(' ') if t != 'OK' and e2e_keys(fmt, recs, t)[0] not in known]
    return ' '.join(left) if left else 'OK'


def impl_for(line):
    op = line.split(' ', 1)[0].split('.', 1)[1]
    if op.startswith('e2e-'):
        return impl_replay_e2e
    return impl if op in ('mk', 'hist', 'shpw', 'shpr', 'gpdw', 'gpdr', 'kmlw', 'kmlr') else impl_np


def spec_for(line):
    op = line.split(' ', 1)[0].split('.', 1)[1]
    return spec_np if op.startswith(('e2e-', 'contract-', 'hist-')) else None


# ==================================================================================================
# histories: export / observe, update in place, export again.  Every export must reflect the CURRENT state of
# the collection and its members (no stale cached view), and an artefact exported earlier must not change.
# ==================================================================================================

def p_ops(tk):
    """history steps: D<i> dt (set_dt) | N<i> dt (shape.dt = …) | X<i> (strip_dt) | B<i> µs (buffer_dt) |
    P<i> key val (set_property) | A shape (append) | R<i> shape (replace) | M<i> (remove) | O<what> (observe)"""
    ops = []
    for _ in range(tk.nat()):
        t = tk.next()
        c, r = t[0], t[1:]
        if c in 'DN':
            ops.append((c, int(r), p_dt(tk.next())))
        elif c == 'X':
            ops.append(('X', int(r)))
        elif c == 'B':
            ops.append(('B', int(r), int(tk.next())))
        elif c == 'P':
            ktok, vtok = tk.next(), tk.next()
            ops.append(('P', int(r), p_key(ktok), vtok))
        elif c == 'A':
            ops.append(('A', p_shape(tk)))
        elif c == 'R':
            ops.append(('R', int(r), p_shape(tk)))
        elif c == 'M':
            ops.append(('M', int(r)))
        elif c == 'O':
            ops.append(('O', r))
        else:
            raise ValueError('bad history step ' + t)
    return ops


def build_coll_cls(cls, recs):
    from geostructures.collections import FeatureCollection, Track
    return (Track if cls == 'T' else FeatureCollection)([build_shape(r) for r in recs])


def observe(coll, what):
    """reads that must not influence any later export"""
    shapes = coll.geoshapes
    if what == 'props':
        return [s.properties for s in shapes]
    if what == 'geojson':
        return coll.to_geojson()
    if what == 'hash':
        return [hash(s) for s in shapes]
    if what == 'bounds':
        return [s.bounds for s in shapes] + ([coll.bounds] if shapes else [])
    if what == 'wkt':
        return [s.to_wkt() for s in shapes]
    if what == 'shapely':
        return [s.to_shapely() for s in shapes]
    if what == 'copy':
        return [s.copy() for s in shapes] + [coll.copy()]
    raise ValueError('bad observation ' + what)


def apply_op_real(coll, op, export):
    """one history step on the live objects; `export(fmt)` performs an export of that kind"""
    from geostructures.time import TimeInterval
    c = op[0]
    shapes = coll.geoshapes
    if c == 'D':
        shapes[op[1]].set_dt(_dtobj(op[2]))
    elif c == 'N':
        dt = op[2]
        shapes[op[1]].dt = None if dt is None else TimeInterval(mkdt(dt[0], dt[2]), mkdt(dt[1], dt[2]))
    elif c == 'X':
        shapes[op[1]].strip_dt()
    elif c == 'B':
        shapes[op[1]].buffer_dt(timedelta(microseconds=op[2]))
    elif c == 'P':
        shapes[op[1]].set_property(op[2], p_val(op[3]))
    elif c == 'A':
        shapes.append(build_shape(op[1]))
    elif c == 'R':
        shapes[op[1]] = build_shape(op[2])
    elif c == 'M':
        del shapes[op[1]]
    elif c == 'O':
        if op[1] in ('shp', 'gpd', 'kml'):
            export(op[1])
        else:
            observe(coll, op[1])


def apply_op_recs(recs, op):
    """the same step on the records (what the state IS afterwards); raises like the implementation must"""
    c = op[0]
    if c in 'DN':
        recs[op[1]]['dt'] = op[2]
    elif c == 'X':
        recs[op[1]]['dt'] = None
    elif c == 'B':
        dt = recs[op[1]]['dt']
        if dt is None or dt[1] + op[2] < dt[0] - op[2]:
            raise ValueError('buffer_dt')
        recs[op[1]]['dt'] = (dt[0] - op[2], dt[1] + op[2], dt[2])
    elif c == 'P':
        props = recs[op[1]]['props']
        for j, (k, _v) in enumerate(props):
            if k == op[2]:
                props[j] = (k, op[3])
                break
        else:
            props.append((op[2], op[3]))
    elif c == 'A':
        recs.append(op[1])
    elif c == 'R':
        recs[op[1]] = op[2]
    elif c == 'M':
        del recs[op[1]]


def hist_adapter(tk):
    """model-tied: the three writers against the recording stand-ins, after a history of reads and updates"""
    cls, fmt = tk.next(), tk.next()
    ops = p_ops(tk)
    coll = build_coll_cls(cls, p_coll(tk))
    taken = []

    def export(kind):
        if kind == 'shp':
            art = record_shp_write(coll, None)
            show = show_files_w
        elif kind == 'gpd':
            art = record_gpd_write(coll, None)
            show = show_frame_w
        else:
            with fake_modules(_fake_fastkml()):
                art = coll.to_fastkml_folder('fold')
            # the fake placemark keeps the shape object as its geometry: freeze what a real artefact would hold
            for pm in art.features:
                pm.geometry = GeoObj(pm.geometry.__geo_interface__)
            show = show_node
        taken.append((kind, art, show, show(art)))
        return art
    for op in ops:
        apply_op_real(coll, op, export)
    export(fmt)
    for kind, art, show, before in taken:
        if show(art) != before:
            return f'RETRO:{kind} an artefact exported earlier changed afterwards'
    return taken[-1][3]


def real_export(coll, fmt, tmp, n):
    from zipfile import ZipFile
    if fmt == 'shp':
        zp = os.path.join(tmp, f'c{n}.zip')
        with ZipFile(zp, 'w') as z:
            coll.to_shapefile(z)
        return zp
    if fmt == 'gpd':
        return coll.to_geopandas()
    return coll.to_fastkml_folder('fold')


def real_import(cls, fmt, art):
    from geostructures.collections import FeatureCollection, Track
    c = Track if cls == 'T' else FeatureCollection
    if fmt == 'shp':
        return c.from_shapefile(art)
    if fmt == 'gpd':
        return c.from_geopandas(art)
    return c.from_fastkml_folder(art)


def hist_real(cls, fmt, ops, recs, live):
    """np-hist: `live` = one collection carried through the whole history; otherwise every export is made from a
    collection built afresh from the state at that moment (the reference: a fresh collection exported once)"""
    tmp = tempfile.mkdtemp(prefix='c20-')
    try:
        arts = []
        if live:
            coll = build_coll_cls(cls, recs)

            def export(kind):
                a = real_export(coll, kind, tmp, len(arts))
                arts.append((kind, a))
            for op in ops:
                apply_op_real(coll, op, export)
            export(fmt)
        else:
            recs = [dict(r, props=list(r['props'])) for r in recs]
            for op in ops + [('O', fmt)]:
                if op[0] == 'O' and op[1] in ('shp', 'gpd', 'kml'):
                    arts.append((op[1], real_export(build_coll_cls(cls, recs), op[1], tmp, len(arts))))
                else:
                    if op[0] == 'P':
                        op = ('P', op[1], op[2], p_val(op[3]))     # parsed records hold values, not tokens
                    apply_op_recs(recs, op)
        # import only now: the earlier artefacts must still say what was true when they were made
        return ' || '.join(f'{k}: ' + s_coll(real_import(cls, k, a).geoshapes) for k, a in arts)
    finally:
        shutil.rmtree(tmp, ignore_errors=True)


def hist_np(op, tk, live):
    cls = tk.next()
    ops = p_ops(tk)
    return hist_real(cls, op[5:], ops, p_coll(tk), live)


def gen_hist(g, fmt, real):
    """(line, tags): a collection (FeatureCollection or Track), reads / exports, in-place updates, final export"""
    r = g.rng
    cls = 'T' if r.random() < 0.3 else 'F'
    kml = real and fmt == 'kml'
    schema = g.schema('s' if kml else 'sifb')
    zmode = r.random() < 0.3
    n = r.randrange(1, 5)
    slot = 10**10

    def slot_dt(j):
        a = BASE_US + j * slot + r.randrange(0, 10**9)
        rep = r.choice(['', '', '@n', '@o60'])
        return (a, a, rep) if r.random() < 0.4 else (a, a + r.randrange(1, 10**9), rep)

    def new_shape(j):
        rec = g.shape(r.choice(BASIC), zmode, False, schema, 0.0, kml)
        if cls == 'T':
            rec['dt'] = slot_dt(j)
        return rec
    recs = [new_shape(j) for j in range(n)]
    state = [dict(x, props=list(x['props'])) for x in recs]
    slots = list(range(n))                  # Track: member i lives in time slot slots[i] (keeps the order stable)
    nxt = n
    ops, tags, abort = [], [], [False]

    def obs():
        w = r.choice([fmt, fmt, 'props', 'geojson', 'hash', 'bounds', 'wkt', 'shapely', 'copy', 'shp', 'gpd', 'kml'])
        if w == 'kml' and not all(v.startswith('s') and v != 's' for x in state for _k, v in x['props']) and real:
            w = 'props'
        if w == 'shapely' and any(x['kind'] == 'xx' for x in state):
            w = 'props'
        tags.append('observe:' + ('export' if w in ('shp', 'gpd', 'kml') else w))
        return f'O{w}'

    def mut():
        nonlocal nxt
        c = r.random()
        if not state or c < 0.12:
            rec = new_shape(nxt)
            slots.append(nxt)
            nxt += 1
            state.append(rec)
            tags.append('append')
            return 'A ' + t_shape(rec)
        i = r.randrange(len(state))
        if c < 0.20:
            rec = new_shape(slots[i])
            state[i] = rec
            tags.append('replace')
            return f'R{i} ' + t_shape(rec)
        if c < 0.26 and len(state) > 1:
            del state[i]
            del slots[i]
            tags.append('remove')
            return f'M{i}'
        if c < 0.50:
            d = slot_dt(slots[i]) if cls == 'T' else g.dt()
            if d is None and cls != 'T':
                how = r.choice(['D', 'N', 'X'])
            else:
                d = d or slot_dt(slots[i])
                how = r.choice(['D', 'D', 'N'])
            state[i]['dt'] = None if how == 'X' else d
            tags.append({'D': 'set_dt', 'N': 'assign-dt', 'X': 'strip_dt'}[how] + (':none' if d is None or how == 'X' else ':instant' if d[0] == d[1] else ':interval'))
            return f'X{i}' if how == 'X' else f'{how}{i} {t_dt(d)}'
        if c < 0.65:
            b = r.choice([0, 1, 10**6, r.randrange(0, 10**8)])
            if state[i]['dt'] is None:
                if r.random() < 0.7:
                    return mut()
                tags.append('buffer_dt:no-dt-raises')
                abort[0] = True                  # both sides answer ERR:Value; nothing after this step matters
                return f'B{i} {b}'
            tags.append('buffer_dt:zero' if b == 0 else 'buffer_dt')
            apply_op_recs(state, ('B', i, b))
            return f'B{i} {b}'
        # set_property: overwrite (same type), new key (type joins the schema), falsy values, None on a text key
        typed = dict(schema)
        have = [k for k, _v in state[i]['props']]
        cc = r.random()
        if have and cc < 0.45:
            k = r.choice(have)
            tags.append('set_property:overwrite')
        elif cc < 0.8 or not have:
            k = r.choice([x for x in KEYS if x not in have] or KEYS)
            if k not in typed:
                t = 's' if kml else r.choice('sifb')
                schema.append((k, t))
                typed[k] = t
            tags.append('set_property:new' if k not in have else 'set_property:overwrite')
        else:
            k = r.choice(have)
            tags.append('set_property:overwrite')
        v = g.props([(k, typed[k])], 0.0, kml)[0][1]
        if typed[k] == 's' and not kml and r.random() < 0.1:
            v = 'n'
            tags.append('set_property:none')
        apply_op_recs(state, ('P', i, k, v))
        return f'P{i} k{q(k)} {v}'
    plan = ['o'] * r.randrange(1, 3) + ['m'] * r.randrange(1, 4)
    if r.random() < 0.5:
        plan += ['o'] + ['m'] * r.randrange(1, 3)
    for step in plan:
        if abort[0]:
            break
        ops.append(obs() if step == 'o' else mut())
    tags.append('track' if cls == 'T' else 'featurecollection')
    head = f'io.hist {cls} {fmt}' if not real else f'io.hist-{fmt} {cls}'
    return ' '.join([head, str(len(ops))] + ops + ([t_coll(recs)] if recs else [])).rstrip(), tags


# ==================================================================================================
# read-side generators: channel values, mostly what the contract returns for a written collection,
# plus the deviations the readers distinguish
# ==================================================================================================

def gen_shpr_line(g):
    r = g.rng
    recs = g.coll(BASIC, mmode=r.random() < 0.15, drop=0.3 if r.random() < 0.3 else 0.0, messy=r.random() < 0.5)
    files = contract_shp(record_shp_write(build_coll(recs), None))
    fs = fe = '-'
    tags = []
    custom = r.random() < 0.1
    if custom:
        fs, fe = 't0', 't_end'
        tags.append('custom-time-fields')
    out = []
    for name, rows in files:
        nrows = []
        for (gtype, nest, z, m), rec in rows:
            rec = list(rec)
            c = r.random()
            if c < 0.35:
                pat = r.choice(['empty', 'drop', 'start-only', 'end-only', 'equal', 'bad-str', 'int', 'zero', 'swap'])
                tags.append('dt:' + pat)
                a = BASE_US + r.randrange(10**9)
                iso = lambda us: mkdt(us).isoformat()  # noqa: E731
                rec = [(k, v) for k, v in rec if k not in ('datetime_s', 'datetime_e')]
                if pat == 'empty':
                    rec += [('datetime_s', ''), ('datetime_e', '')]
                elif pat == 'start-only':
                    rec += [('datetime_s', iso(a)), ('datetime_e', '')]
                elif pat == 'end-only':
                    rec += [('datetime_e', iso(a))]
                elif pat == 'equal':
                    rec += [('datetime_s', iso(a)), ('datetime_e', iso(a))]
                elif pat == 'bad-str':
                    rec += [('datetime_s', 'yesterday'), ('datetime_e', iso(a))]
                elif pat == 'int':
                    rec += [('datetime_s', iso(a)), ('datetime_e', 5)]
                elif pat == 'zero':
                    rec += [('datetime_s', 0), ('datetime_e', None)]
                elif pat == 'swap':
                    rec += [('datetime_s', iso(a + 7)), ('datetime_e', iso(a))]
            if custom:
                rec = [({'datetime_s': 't0', 'datetime_e': 't_end'}.get(k, k), v) for k, v in rec]
            if z is not None and r.random() < 0.06:
                z = z[:r.randrange(len(z))]
                tags.append('z-short')
            if r.random() < 0.02:
                gtype = 'GeometryCollection'
                tags.append('unknown-type')
            if gtype == 'Polygon' and r.random() < 0.15:
                nest = [[nest[0][0][::-1]] + nest[0][1:]]
                tags.append('shell-ccw')
            nrows.append(((gtype, nest, z, m), rec))
        if r.random() < 0.03:
            nrows = []
            tags.append('empty-layer')
        out.append((name, nrows))
    if len(out) > 1 and r.random() < 0.15:
        r.shuffle(out)
        tags.append('layers-shuffled')
    return f'io.shpr {fs} {fe} ' + show_files_r(out), tags


GTYPES = ['Point', 'LineString', 'Polygon', 'MultiPoint', 'MultiLineString', 'MultiPolygon']


def gen_gpdr_line(g):
    r = g.rng
    recs = g.coll(BASIC, drop=0.3 if r.random() < 0.3 else 0.0, messy=r.random() < 0.5)
    cols, rows = contract_gpd(record_gpd_write(build_coll(recs), None))
    tags = []
    nrows = []
    for cells, gt, gtype, nest in rows:
        c = r.random()
        if c < 0.04:
            gt = r.choice([x for x in GTYPES if x != gt])
            tags.append('type-mismatch')
        elif c < 0.06:
            gt = 'GeometryCollection'
            tags.append('unknown-type')
        if gtype == 'Polygon' and r.random() < 0.2:
            nest = [[ring[::-1] for ring in nest[0]]]
            tags.append('rings-reversed')
        nrows.append((cells, gt, gtype, nest))
    if r.random() < 0.1 and all(v is None for cells, *_ in nrows for k, v in cells if k.startswith('datetime_')):
        cols = [c for c in cols if not c.startswith('datetime_')]
        nrows = [([(k, v) for k, v in cells if not k.startswith('datetime_')], gt, gtype, nest) for cells, gt, gtype, nest in nrows]
        tags.append('no-time-columns')
    return 'io.gpdr ' + show_frame_r(cols, nrows), tags


def gen_placemark(g, tags):
    r = g.rng
    rec = g.shape(r.choice(BASIC), r.random() < 0.4, r.random() < 0.1, g.schema('s'), kml=True)
    gi = build_shape(rec).__geo_interface__
    gtype = gi['type']
    c = r.random()
    if c < 0.05:
        geom = 'G-'
        tags.append('no-geometry')
    else:
        if c < 0.08:
            gtype = gtype.upper()
            tags.append('type-uppercase')
        elif c < 0.10:
            gtype = 'GeometryCollection'
            tags.append('unknown-type')
        geom = ' '.join(['G', gtype, s_geom3(geo_to_nest(gi['type'], gi['coordinates']), s_tuple)])
    props = list(rec['props'])
    c = r.random()
    if c < 0.1:
        data = 'D-'
        tags.append('no-extended-data')
    else:
        if c < 0.2 and props:
            props.append((props[0][0], g.sval(True)))
            tags.append('duplicate-name')
        if c > 0.9:
            props.append(('sub_folder_0', 'sown'))
            tags.append('own-sub_folder-key')
        data = ' '.join([f'D{len(props)}'] + [f'k{q(k)} {v}' for k, v in props])
        tags.append('data:%d' % min(len(props), 2))
    dt = rec['dt']
    if dt is None:
        t = 'T-'
    elif dt[0] == dt[1]:
        t = f'Ts{dt[0]}'
    else:
        t = f'Tp{dt[0]},{dt[1]}'
        if r.random() < 0.1:
            t = f'Tp{dt[1]},{dt[0]}'
            tags.append('span-reversed')
        elif r.random() < 0.1:
            t = f'Tp{dt[0]},{dt[0]}'
            tags.append('span-equal')
    opt = [('s' + q(r.choice(['Alpha', 'a place', 'x', '']))) if r.random() < 0.25 else '-' for _ in range(4)]
    if any(o != '-' for o in opt):
        tags.append('kml-attributes')
    return ' '.join(['[M', geom, data, t] + opt)


def gen_tree(g, depth, tags):
    r = g.rng
    c = r.random()
    if depth >= 3 or c < 0.55:
        return gen_placemark(g, tags)
    kids = [gen_tree(g, depth + 1, tags) for _ in range(r.randrange(0, 4))]
    if c < 0.85:
        name = r.choice(['-', 's', 'sinner', 's' + q('sub folder'), 'sB'])
        tags.append(f'folder-depth{depth}')
        return ' '.join(['[F', name, str(len(kids))] + kids)
    if c < 0.95:
        tags.append('document')
        return ' '.join(['[D', str(len(kids))] + kids)
    tags.append('other-node')
    return '[X'


def gen_kmlr_line(g):
    r = g.rng
    tags = []
    kids = [gen_tree(g, 1, tags) for _ in range(r.randrange(1, 5))]
    top = r.random()
    if top < 0.8:
        return ' '.join(['io.kmlr', '[F', r.choice(['sfold', '-', 's', 's' + q('my folder')]), str(len(kids))] + kids), tags
    if top < 0.9:
        tags.append('top-kml')
        return ' '.join(['io.kmlr', '[K', str(len(kids))] + kids), tags
    tags.append('top-document')
    return ' '.join(['io.kmlr', '[D', str(len(kids))] + kids), tags


# ==================================================================================================
# the check
# ==================================================================================================

KNOWN_KEYS = {
    ('shp', 'props:+ID'): 'to_shapefile/ID-property-added',
    ('shp', 'props:+null'): 'to_shapefile/absent-property-null',
    ('shp', 'props:float15'): 'to_shapefile/float-beyond-15-decimals',
    ('shp', 'kind:mln>ln'): 'from_shapefile/single-member-multi-becomes-simple',
    ('shp', 'kind:mpg>pg'): 'from_shapefile/single-member-multi-becomes-simple',
    ('gpd', 'props:+null'): 'to_geopandas/absent-property-null',
    ('gpd', 'props:int>float'): 'to_geopandas/absent-property-null',
    ('kml', 'props:+sub_folder'): 'parse_fastkml/sub_folder-property-added',
    ('kmltext', 'props:+sub_folder'): 'parse_fastkml/sub_folder-property-added',
    ('kml', 'props:-nonstr'): 'to_fastkml_placemark/non-string-property',
    ('kmltext', 'props:-nonstr'): 'to_fastkml_placemark/non-string-property',
}


def e2e_keys(fmt, recs, answer):
    """finding keys (call site / failure predicate) of one end-to-end answer"""
    if answer == 'OK':
        return []
    if answer.startswith(('ERR:', 'TIMEOUT')):
        if fmt == 'shp' and answer.startswith('ERR:Other:'):
            fam = {}
            for rec in recs:
                z = any(c[2] is not None for p in rec['geom'] for ring in p for c in ring)
                fam.setdefault(FAMILY[rec['kind']], set()).add(z)
            if any(len(v) > 1 for v in fam.values()):
                return ['to_shapefile/mixed-Z-family']
        if fmt.startswith('kml') and answer.startswith('ERR:Attr') and \
                any(not v.startswith('s') for rec in recs for _k, v in rec['props']):
            return ['to_fastkml_placemark/non-string-property']
        return [f'np-e2e-{fmt}/{answer.split(" ")[0]}']
    return [KNOWN_KEYS.get((fmt, t), f'np-e2e-{fmt}/{t}') for t in answer.split(' ')]


SRC_THEOREMS = ['GV.C20Src.' + t for t in (
    'convertDt_eq', 'convertDt_none', 'field_spec', 'shpGetDt_eq', 'gpdGetDt_eq',
    'loop1_step', 'loop1_eq', 'loop3_step', 'loop3_eq', 'convertDt_get', 'loop4_step', 'loop4_eq', 'incl_eq', 'loop2_step',
    'loop2_eq', 'toShapefile_eq', 'shpGetDt_range', 'filter_eq_dictDel', 'rloop2_step', 'rloop2_eq', 'rloop1_step', 'rloop1_eq',
    'convLit_eq', 'fromShapefile_eq', 'toP_get', 'strSet_keys', 'toGeopandas_eq',
    'gpdGetDt_range', 'propFields_contains', 'gloop1_step', 'gloop1_eq', 'fromGeopandas_eq',
    'tiToFastkml_eq', 'toFastkmlPlacemark_eq', 'toFastkmlFolder_eq', 'kml_roundtrip_partial_src', 'tiFromFastkml_eq', "filter_eq_dictDel'", 'dictDel_comm',
    'srcReadShp_eq', 'srcFromGeopandas_eq', 'shp_roundtrip_partial_src', 'gpd_roundtrip_partial_src')]


def check(run):
    run.prove(MODULE, THEOREMS)
    run.source_tie(['SrcIo'], 'GeoVerif.Props.C20Src', SRC_THEOREMS)
    import hashlib
    digest = hashlib.sha1()
    _run_cases = run.run_cases

    def run_cases(stream, lines, *a, **kw):
        lines = list(lines)
        for ln in lines:
            digest.update(ln.encode())
        return _run_cases(stream, lines, *a, **kw)
    run.run_cases = run_cases
    # the libraries take seconds to import: do it outside the per-call watchdog
    import shapefile, pandas, geopandas, shapely, fastkml  # noqa: F401,E401
    g = Gen(run.rng)
    rng = run.rng

    def tags_of(table):
        return lambda ln, a: table.get(ln, ['?']) + (['answer:' + a.split(' ')[0]] if a.startswith(('ERR', 'TIMEOUT')) else [])

    def coll_tags(recs):
        t = ['kind:' + r['kind'] for r in recs]
        t += ['holes:%d' % (len(p) - 1) for r in recs if r['kind'] in ('pg', 'mpg', 'bx') for p in r['geom']]
        t += ['dt:' + ('none' if r['dt'] is None else 'instant' if r['dt'][0] == r['dt'][1] else 'interval') for r in recs if r['kind'] != 'xx']
        t += ['z' if any(c[2] is not None for r in recs for p in r['geom'] for ring in p for c in ring) else 'no-z']
        t += ['ptype:' + v[0] for r in recs for _k, v in r['props']]
        for r in recs:                                  # degenerate values (truthiness class)
            for i, nm in ((2, 'z'), (3, 'm')):
                vals = [c[i] for p in r['geom'] for ring in p for c in ring if c[i] is not None]
                out0 = [c[i] for p in r['geom'] for c in (p[0] if p else []) if c[i] is not None]
                if vals and r['kind'] != 'ci':
                    t.append(f'{nm}:all-zero' if not any(vals) else f'{nm}:outline-zero' if out0 and not any(out0)
                             else f'{nm}:some-zero' if not all(vals) else f'{nm}:non-zero')
            t += ['pval:falsy' for _k, v in r['props'] if v in ('s', 'i0', 'bF', 'f0000000000000000')]
            if r['dt'] is not None and r['dt'][2].endswith('I'):
                t.append('dt:zero-length-interval')
        if not recs:
            t.append('empty-collection')
        return t

    # ---- (i) adapter streams: our code against the model, the libraries replaced by fakes -----------
    n = run.scale(300, 5000)
    table, lines = {}, []
    for _ in range(n):
        recs = g.coll(BASIC + (['xx'] if rng.random() < 0.03 else []), mmode=rng.random() < 0.2,
                      drop=0.3 if rng.random() < 0.3 else 0.0)
        if rng.random() < 0.05:
            recs = []
        incl = None
        if rng.random() < 0.15:
            incl = rng.sample(KEYS + ['datetime_start', 'datetime_end'], rng.randrange(0, 4))
        body = t_coll(recs)
        for ln in (f'io.shpw {t_incl(incl)} {body}', f'io.gpdw {t_incl(incl)} {body}',
                   f'io.kmlw {rng.choice(["sfold", "s" + q("my folder"), "sF2", "s"])} {body}', f'io.mk {body}'):
            ln = ln.rstrip()
            lines.append(ln)
            table[ln] = coll_tags(recs) + (['include_properties'] if incl is not None else [])
    for op in ('shpw', 'gpdw', 'kmlw', 'mk'):
        run.run_cases(f'adapter-{op}', [ln for ln in lines if ln.startswith(f'io.{op}')], impl, None, tag=tags_of(table))

    for name, gen in (('shpr', gen_shpr_line), ('gpdr', gen_gpdr_line), ('kmlr', gen_kmlr_line)):
        table, lines = {}, []
        gen_errors = 0
        for _ in range(run.scale(400, 6000)):
            try:
                ln, tg = gen(g)
            except Exception as e:  # noqa
                # the generator feeds the reader with what the implementation's own writer hands to the recording
                # library stand-in: if the writer stops using the library the way the adapter model says, that is a
                # broken correspondence (reported once per stream), not a harness failure
                gen_errors += 1
                if gen_errors == 1:
                    run.disagreements.append({'stream': f'adapter-{name}', 'line': f'<generator {gen.__name__}>',
                                              'impl': common.err_name(e) + ': ' + str(e)[:200],
                                              'model': 'the writer drives the recording library stand-in without error'})
                continue
            lines.append(ln)
            table[ln] = tg or ['plain']
        run.run_cases(f'adapter-{name}', lines, impl, None, tag=tags_of(table))

    # ---- (i') histories: read / export, update in place, export again ----------------------------------------------
    table, lines = {}, []
    for _ in range(run.scale(240, 4500)):
        ln, tgs = gen_hist(g, rng.choice(['shp', 'gpd', 'kml']), False)
        lines.append(ln)
        table[ln] = tgs
    run.run_cases('adapter-hist', lines, impl, None, tag=tags_of(table))
    for fmt in ('shp', 'gpd', 'kml'):
        table, lines = {}, []
        for _ in range(run.scale(60, 1200)):
            ln, tgs = gen_hist(g, fmt, True)
            lines.append(ln)
            table[ln] = tgs
        run.run_cases(f'np-hist-{fmt}', lines, impl_np, spec_np, model=False, tag=tags_of(table))

    # ---- (ii) contracts: Python contract == Lean ideal channel (chan-*), real library == contract -----
    n = run.scale(120, 2500)
    table, shp_lines, gpd_lines, kml_lines = {}, [], [], []
    for _ in range(n):
        recs = g.coll(BASIC, mmode=rng.random() < 0.15, drop=0.3 if rng.random() < 0.3 else 0.0, messy=rng.random() < 0.5)
        body = t_coll(recs)
        shp_lines.append('- ' + body)
        table['- ' + body] = table[body] = coll_tags(recs)
        recs = g.coll(BASIC, drop=0.3 if rng.random() < 0.3 else 0.0)
        gpd_lines.append(t_coll(recs))
        table[gpd_lines[-1]] = coll_tags(recs)
        recs = g.coll(BASIC, kml=True, skinds='s')
        kml_lines.append(t_coll(recs))
        table[kml_lines[-1]] = coll_tags(recs)
    tg = lambda ln, a: table.get(ln.split(' ', 1)[1], ['?'])  # noqa: E731
    run.run_cases('chan-shp', ['io.shpchan ' + b for b in shp_lines], impl_np, None, tag=tg)
    run.run_cases('chan-gpd', ['io.gpdchan ' + b for b in gpd_lines], impl_np, None, tag=tg)
    run.run_cases('np-contract-shp', ['io.contract-shp ' + b for b in shp_lines], impl_np, spec_np, model=False, tag=tg)
    run.run_cases('np-contract-gpd', ['io.contract-gpd ' + b for b in gpd_lines], impl_np, spec_np, model=False, tag=tg)
    run.run_cases('np-contract-kml', ['io.contract-kml ' + b for b in kml_lines], impl_np, spec_np, model=False, tag=tg)
    run.run_cases('np-contract-kmltext', ['io.contract-kmltext ' + b for b in kml_lines], impl_np, spec_np, model=False, tag=tg)

    # ---- (iii) end to end against the statement --------------------------------------------------------
    n = run.scale(120, 3000)
    for fmt in ('shp', 'gpd', 'kml', 'kmltext'):
        table, lines, recmap = {}, [], {}
        for i in range(n):
            c = rng.random()
            kinds = BASIC + ['bx', 'ci']
            extra = []
            kw = {}
            if c < 0.70:
                pass                                         # inside every documented restriction
            elif c < 0.78:
                kw, extra = {'drop': 0.4}, ['dev:absent-keys']
            elif c < 0.84:
                kw, extra = {'zmix': True}, ['dev:mixed-z']
            elif c < 0.90:
                kw, extra = {'single': True}, ['dev:single-member']
            elif c < 0.95:
                kw, extra = {'wide': True, 'skinds': 'f'}, ['dev:wide-floats']
            else:
                kw, extra = {'skinds': 'sifb'}, ['dev:numeric-props']
            if fmt.startswith('kml') and 'skinds' not in kw:
                kw['skinds'] = 's'
            recs = g.coll(kinds, kml=fmt.startswith('kml'), **kw)
            if rng.random() < 0.03:
                recs, extra = [], ['empty-collection']
            ln = f'io.e2e-{fmt} ' + t_coll(recs)
            lines.append(ln)
            recmap[ln] = recs
            table[ln] = coll_tags(recs) + extra
        outs = run.run_cases(f'np-e2e-{fmt}', lines, impl_np, None, model=False, tag=tags_of(table))
        for ln, a in zip(lines, outs):
            for key in e2e_keys(fmt, recmap[ln], a):
                run.report(key, f'np-e2e-{fmt}: write -> read gives [{a[:120]}], the statement demands [OK]',
                           {'stream': f'np-e2e-{fmt}', 'line': ln, 'impl': a, 'spec': 'OK'})

    run.run_cases = _run_cases
    run.note('sha1 over every generated protocol line of this run (same seed and tier => same digest, whatever '
             'PYTHONHASHSEED is): ' + digest.hexdigest())
    return run.finish(
        rule='histories (adapter-hist model-tied, np-hist-* with the real libraries against a freshly built collection '
             'exported once): reads and exports, then set_dt / shape.dt = / strip_dt / buffer_dt / set_property / append / '
             'replace / remove on a FeatureCollection or Track, then the export again - every artefact imported at the end; '
             'adapter streams: random collections (1-5 shapes of the six simple/multi kinds, 0-2 holes, any start '
             'vertex / direction / closure of the rings, {no dt, instant, interval} in UTC / naive / offset form, '
             'string/int/float/bool properties with a uniform type per key, optional Z and M, optional '
             'include_properties) through the three writers with the library replaced by a recorder, and channel '
             'values (contract output of such collections plus every time-field / type / Z-list / folder-nesting '
             'deviation the readers distinguish) through the three readers with fake library objects; '
             'chan-*: the Python contract against the Lean ideal channel; np-contract-*: the real '
             'pyshp / geopandas+shapely / fastkml against the contract; np-e2e-*: real write -> read judged by the '
             'statement (library == on the polygon form, member order, ring orientation, dt, properties, order within '
             'each family). One case = one protocol line; distinct by line.',
        assumptions=[
            'PARTIAL claim: pyshp, pandas/geopandas/shapely and fastkml are outside the proof; their behaviour enters '
            'the composed theorems as the channel contracts idealShp / idealGpd / idealKml, which are only tested '
            '(np-contract-*, chan-*)',
            'WKT and geo-interface text are the business of C13/C14: the model carries the coordinates they hold',
            'datetime.isoformat/fromisoformat are an exact inverse pair on microsecond datetimes (CPython)',
            'coordinates are dyadic and in range, so Coordinate() re-normalisation is the identity (C08) and the '
            'orientation sum is exact in binary64',
            'generator restrictions (outside the statement\'s "type-compatible" domain, not findings): dbf keys <= 10 '
            'ASCII characters and strings <= 50 characters; KML strings non-empty without surrounding white space; '
            'floats in the default streams are exact in a 15-decimal field; no M values end to end (KML/WKT have no M); '
            'holes inside their shell and parts disjoint (pyshp groups holes geometrically)',
        ],
        checker_cmd='cd lean && lake build GeoVerif.Props.C20 && lake env lean .lake/audit/C20.lean  (#print axioms)')
