"""
Shape tokens shared by the C04 and C05 checks: a compact, exact, space-free text for real shapes.

  P:<pts>[^<pts>…]          GeoPolygon outline (+ holes)      pts = x,y;x,y;…   numbers exact p/q
  B:<x,y>;<x,y>[^<pts>…]    GeoBox(nw, se) (+ polygon holes)
  C:<x,y>;<r>               GeoCircle (radius in metres)
  E:<x,y>;<a>;<b>;<rot>     GeoEllipse
  R:<x,y>;<ri>;<ro>[;<amin>;<amax>]   GeoRing / wedge
  L:<pts>                   GeoLineString
  T:<x,y>                   GeoPoint
  MP:<s>+<s>…  ML:…  MT:…   MultiGeoPolygon / MultiGeoLineString / MultiGeoPoint (no members: `MP:`)
  any single-shape token may end in `@<start µs>_<end µs>`: that member's own time bounds (UTC)
"""
from datetime import datetime, timedelta, timezone
from fractions import Fraction

from common import rat

EPOCH = datetime(1970, 1, 1, tzinfo=timezone.utc)
BASE_US = int((datetime(2020, 1, 1, tzinfo=timezone.utc) - EPOCH) / timedelta(microseconds=1))

KINDS = ['GeoPolygon', 'GeoBox', 'GeoCircle', 'GeoEllipse', 'GeoRing', 'GeoLineString', 'GeoPoint',
         'MultiGeoPolygon', 'MultiGeoLineString', 'MultiGeoPoint']
KIND_OF = {'P': 'GeoPolygon', 'B': 'GeoBox', 'C': 'GeoCircle', 'E': 'GeoEllipse', 'R': 'GeoRing',
           'L': 'GeoLineString', 'T': 'GeoPoint', 'MP': 'MultiGeoPolygon', 'ML': 'MultiGeoLineString',
           'MT': 'MultiGeoPoint'}


def num(s):
    return float(Fraction(s))


def utc(us):
    return EPOCH + timedelta(microseconds=int(us))


def us_of(dt):
    if dt.tzinfo is None:
        dt = dt.replace(tzinfo=timezone.utc)
    return int((dt - EPOCH) / timedelta(microseconds=1))


def show_dt(ti):
    """canonical text of a shape's dt attribute (UTC microseconds)"""
    return 'none' if ti is None else f'{us_of(ti.start)} {us_of(ti.end)}'


def kind(tok):
    return KIND_OF[tok.split(':', 1)[0]]


def is_multi(tok):
    return tok.startswith('M')


def members(tok):
    """member tokens of a multi-shape token"""
    body = tok.split(':', 1)[1]
    return [m for m in body.split('+') if m]


def mk_multi(prefix, toks):
    return prefix + ':' + '+'.join(toks)


def _coord(tok):
    from geostructures import Coordinate
    x, y = tok.split(',')
    return Coordinate(num(x), num(y))


def _pts(tok):
    return [_coord(p) for p in tok.split(';')]


def build(tok, dt=None, props=None, strip=False):
    """token -> real shape.  `strip=True`: ignore the members' own `@` time bounds (dt-stripped copy)."""
    import geostructures as g
    from geostructures.time import TimeInterval
    head, body = tok.split(':', 1)
    if head in ('MP', 'ML', 'MT'):
        ms = [build(m, strip=strip) for m in body.split('+') if m]
        cls = {'MP': g.MultiGeoPolygon, 'ML': g.MultiGeoLineString, 'MT': g.MultiGeoPoint}[head]
        return cls(ms, dt=dt, properties=props)
    if '@' in body:
        body, own = body.split('@')
        if dt is None and not strip:
            s, e = own.split('_')
            dt = TimeInterval(utc(s), utc(e))
    kw = {'dt': dt, 'properties': props}
    if head in ('P', 'B'):
        parts = body.split('^')
        holes = [g.GeoPolygon(_pts(h)) for h in parts[1:]]
        if head == 'P':
            return g.GeoPolygon(_pts(parts[0]), holes=holes or None, **kw)
        nw, se = parts[0].split(';')
        return g.GeoBox(_coord(nw), _coord(se), holes=holes or None, **kw)
    f = body.split(';')
    if head == 'C':
        return g.GeoCircle(_coord(f[0]), num(f[1]), **kw)
    if head == 'E':
        return g.GeoEllipse(_coord(f[0]), num(f[1]), num(f[2]), num(f[3]), **kw)
    if head == 'R':
        if len(f) == 5:
            return g.GeoRing(_coord(f[0]), num(f[1]), num(f[2]), angle_min=num(f[3]), angle_max=num(f[4]), **kw)
        return g.GeoRing(_coord(f[0]), num(f[1]), num(f[2]), **kw)
    if head == 'L':
        return g.GeoLineString(_pts(body), **kw)
    if head == 'T':
        return g.GeoPoint(_coord(body), **kw)
    raise ValueError('bad shape token ' + tok)


def build_coord(tok):
    return _coord(tok)


# --------------------------------------------------------------------------------------------------
# templates on a dyadic grid.  A *cell* is a 6x6-degree patch centred at (8*k, 0); shapes of different
# cells are far apart, shapes of one cell are nested / crossing / touching / disjoint in many ways.

def _p(x, y):
    return f'{rat(Fraction(x))},{rat(Fraction(y))}'


def _ring(pts):
    return ';'.join(_p(x, y) for x, y in pts)


def cell_centre(k):
    return Fraction(8 * k), Fraction(0)


F = Fraction


def templates(k):
    """name -> token, all placed in cell k"""
    cx, cy = cell_centre(k)
    h = F(1, 2)
    q = F(1, 4)
    t = {}
    # big polygon-likes (cover most of the cell)
    t['PB'] = 'P:' + _ring([(cx - 2, cy - 2), (cx + 2, cy - 2), (cx + 2, cy + 1), (cx + 1, cy + 2), (cx - 2, cy + 2)])
    t['PH'] = 'P:' + _ring([(cx - 2, cy - 2), (cx + 2, cy - 2), (cx + 2, cy + 2), (cx - 2, cy + 2)]) + '^' + \
        _ring([(cx - h, cy - h), (cx + h, cy - h), (cx + h, cy + h), (cx - h, cy + h)])
    t['PC'] = 'P:' + _ring([(cx - 2, cy - 2), (cx + 2, cy - 2), (cx + 2, cy + 2), (cx, cy - 1), (cx - 2, cy + 2)])  # concave
    t['BB'] = 'B:' + _p(cx - 2, cy + 2) + ';' + _p(cx + 2, cy - 2)
    t['BH'] = t['BB'] + '^' + _ring([(cx - h, cy - h), (cx + h, cy - h), (cx + h, cy + h), (cx - h, cy + h)])
    t['CB'] = 'C:' + _p(cx, cy) + ';250000'
    t['EB'] = 'E:' + _p(cx, cy) + ';300000;200000;30'
    t['RB'] = 'R:' + _p(cx, cy) + ';50000;250000'
    t['RW'] = 'R:' + _p(cx, cy) + ';50000;250000;10;170'  # wedge, east half
    # small polygon-likes around (cx+1, cy+1/2): inside every big shape, outside holes
    t['Ps'] = 'P:' + _ring([(cx + 3 * q, cy + q), (cx + 5 * q, cy + q), (cx + 1, cy + 3 * q)])
    t['Bs'] = 'B:' + _p(cx + 3 * q, cy + 3 * q) + ';' + _p(cx + 5 * q, cy + q)
    t['Cs'] = 'C:' + _p(cx + 1, cy + h) + ';20000'
    t['Es'] = 'E:' + _p(cx + 1, cy + h) + ';25000;15000;120'
    t['Rs'] = 'R:' + _p(cx + 1, cy + h) + ';5000;20000'
    # small polygon-likes in the middle of the cell (inside the hole of PH/BH/RB)
    t['Pm'] = 'P:' + _ring([(cx - q, cy - q), (cx + q, cy - q), (cx, cy + q)])
    t['Bm'] = 'B:' + _p(cx - q, cy + q) + ';' + _p(cx + q, cy - q)
    t['Cm'] = 'C:' + _p(cx, cy) + ';20000'
    # polygon straddling the cell's east edge (crosses the big shapes)
    t['Px'] = 'P:' + _ring([(cx + 1, cy - h), (cx + 3, cy - h), (cx + 3, cy + h), (cx + 1, cy + h)])
    t['Bx'] = 'B:' + _p(cx + 1, cy - 1) + ';' + _p(cx + 3, cy - F(3, 2))
    # linestrings
    t['Ll'] = 'L:' + _ring([(cx - 3, cy), (cx + 3, cy + h)])                       # crosses the whole cell
    t['Lz'] = 'L:' + _ring([(cx + 3 * q, cy + q), (cx + 5 * q, cy + 3 * q), (cx + 5 * q, cy + q), (cx + 1, cy + h)])  # small zigzag
    t['Ls'] = 'L:' + _ring([(cx + 3 * q, cy + q), (cx + 5 * q, cy + 3 * q)])       # first segment of Lz
    t['Lt'] = 'L:' + _ring([(cx + 5 * q, cy + 3 * q), (cx + 5 * q, cy + q), (cx + 1, cy + h)])  # tail of Lz
    t['Lm'] = 'L:' + _ring([(cx - q, cy), (cx + q, cy)])                           # in the middle (hole)
    t['Lo'] = 'L:' + _ring([(cx - 3, cy + F(5, 2)), (cx + 3, cy + F(5, 2))])       # in the cell, outside everything
    # points
    t['Ts'] = 'T:' + _p(cx + 1, cy + h)            # inside the small shapes; last vertex of Lz; on Ls' interior
    t['Tv'] = 'T:' + _p(cx + 3 * q, cy + q)        # first vertex of Lz / Ls / Ps
    t['Tm'] = 'T:' + _p(cx, cy)                    # centre (in the holes)
    t['Te'] = 'T:' + _p(cx + 2, cy)                # on the east edge of BB / PH
    t['To'] = 'T:' + _p(cx - 3, cy + F(5, 2))      # outside everything but on Lo
    return t


POLY_NAMES = ['PB', 'PH', 'PC', 'BB', 'BH', 'CB', 'EB', 'RB', 'RW', 'Ps', 'Bs', 'Cs', 'Es', 'Rs', 'Pm', 'Bm', 'Cm', 'Px', 'Bx']
LINE_NAMES = ['Ll', 'Lz', 'Ls', 'Lt', 'Lm', 'Lo']
POINT_NAMES = ['Ts', 'Tv', 'Tm', 'Te', 'To']
MEMBER_NAMES = {'MP': POLY_NAMES, 'ML': LINE_NAMES, 'MT': POINT_NAMES}


def single_pool(k):
    t = templates(k)
    return [t[n] for n in POLY_NAMES + LINE_NAMES + POINT_NAMES]


def multi_pool(k, k2):
    """multi-shape arguments with parts in cell k (and k2)"""
    a, b = templates(k), templates(k2)
    return [
        mk_multi('MP', [a['Ps']]),
        mk_multi('MP', [a['Ps'], b['Bs']]),
        mk_multi('MP', [b['Cs'], a['Bm'], a['Rs']]),
        mk_multi('MP', [a['PB'], b['Pm']]),
        mk_multi('ML', [a['Ls']]),
        mk_multi('ML', [b['Ls'], a['Lt']]),
        mk_multi('ML', [a['Ll'], b['Lm'], a['Lz']]),
        mk_multi('MT', [a['Ts']]),
        mk_multi('MT', [b['Tv'], a['Ts']]),
        mk_multi('MT', [a['Tm'], a['Tv'], b['Ts']]),
        mk_multi('MT', [a['Ts'], a['Ts']]),
    ]


def ref_coords(k):
    """query coordinates in cell k"""
    cx, cy = cell_centre(k)
    h, q = F(1, 2), F(1, 4)
    return [_p(cx + 1, cy + h), _p(cx, cy), _p(cx + 3 * q, cy + q), _p(cx + 2, cy), _p(cx - 3, cy + F(5, 2)),
            _p(cx + F(3, 2), cy - F(3, 2)), _p(cx + 1, cy + F(3, 8))]
