"""C02 — pairwise spatial predicates equal planar set truth, are symmetric and time-free."""
import itertools
from fractions import Fraction as F

import common
import planar
from common import rat, tf

MODULE = ['GeoVerif.Props.C02', 'GeoVerif.Props.C02Box']
THEOREMS = ['GV.C02.' + t for t in (
    'findIntersection_isSome_iff', 'findIntersection_comm', 'findIntersection_point', 'sweep_eq_anyCross',
    'sweep_symm', 'sweep_congr', 'sweep_flip', 'intersects_symm', 'relate_total', 'line_contains_iff_sublist',
    'contains_imp_intersects', 'relate_dt_free', 'intersects_iff_spec', 'intersects_point_iff', 'contains_iff_spec')] + [
    # closed-set truth proved outright (no Jordan assumption) for every pair of axis-parallel rectangles, box or polygon form
    'GV.C02Box.' + t for t in (
    'box_anyCross_iff', 'box_anyCross_iff_meet', 'box_sweep_iff', 'box_intersects_spec', 'box_intersects_iff',
    'box_intersects_iff_exists', 'box_contains_iff', 'box_contains_iff_forall', 'box_decided_by', 'box_relate_eq',
    'box_intersects_symm', 'box_contains_imp_intersects', 'box_contains_asymm', 'rect_onEdges_iff', 'box_point_iff')]


def _coord(p):
    from geostructures import Coordinate
    return Coordinate(float(p[0]), float(p[1]))


def _two(a):
    parts = planar.split_on(a, '|')
    if len(parts) != 2:
        raise ValueError('need two operands')
    return parts


def impl(line):
    from geostructures._geometry import do_edges_intersect, find_line_intersection
    cmd, *a = line.split()
    op = cmd.split('.', 1)[1]
    x, y = _two(a)
    if op == 'seg':
        p, q = planar._pts(x), planar._pts(y)
        r = find_line_intersection((_coord(p[0]), _coord(p[1])), (_coord(q[0]), _coord(q[1])))
        if not r:
            return 'none'
        return f'{rat(r[0].longitude)},{rat(r[0].latitude)} {tf(r[1])}'
    if op == 'sweep':
        def edges(ts):
            p = planar._pts(ts)
            return [(_coord(p[i]), _coord(p[i + 1])) for i in range(0, len(p), 2)]
        return tf(do_edges_intersect(edges(x), edges(y)))
    (A, dA), (B, dB) = planar.to_impl_live(planar.parse_shape(x), line), planar.to_impl_live(planar.parse_shape(y), line + '#')
    if op not in ('inter', 'contains'):
        raise ValueError(op)
    ask = (lambda: A.intersects_shape(B)) if op == 'inter' else (lambda: A.contains_shape(B))
    r1 = ask()
    # observe - mutate - observe (see planar.to_impl_live)
    what = f'{dA()} / {dB()}'
    r2 = ask()
    if r1 != r2:
        return f'UNSTABLE {tf(r1)} then {tf(r2)} after {what}'
    return tf(r1)


def spec(line):
    cmd, *a = line.split()
    op = cmd.split('.', 1)[1]
    x, y = _two(a)
    if op == 'seg':
        (p1, p2), (q1, q2) = planar._pts(x), planar._pts(y)
        t, proper = planar.seg_touch(p1, p2, q1, q2)
        if not proper:
            return 'none'
        pt = planar.seg_point(p1, p2, q1, q2)
        return f'{rat(pt[0])},{rat(pt[1])} {tf(pt in (p1, p2, q1, q2))}'
    if op == 'sweep':
        def edges(ts):
            p = planar._pts(ts)
            return [(p[i], p[i + 1]) for i in range(0, len(p), 2)]
        return tf(any(planar.seg_touch(a1, a2, b1, b2)[1] for a1, a2 in edges(x) for b1, b2 in edges(y)))
    A, B = planar.parse_shape(x), planar.parse_shape(y)
    for S in (A, B):
        if S.kind == 'poly' and not valid_poly(S):
            return None
    if op == 'inter':
        return planar.spec_intersects(A, B)
    if op == 'contains':
        return planar.spec_contains(A, B)
    return None


def valid_poly(S):
    if not planar.is_simple(S.shell[:-1]):
        return False
    for h in S.holes:
        if not planar.is_simple(h[:-1]):
            return False
        if not all(planar.in_ring(v, S.shell) == 1 for v in h[:-1]):
            return False
    return True


def seg_eq(a, b):
    """answers of `rel.seg` agree: same None-ness, same end-point flag, point equal up to the 1e-10 rounding of the
    float code (the exact rational of a non-dyadic intersection such as 4/3 is not a float)"""
    if a == b:
        return True
    if a == 'none' or b == 'none' or a.startswith(('ERR', 'TIME')) or b.startswith(('ERR', 'TIME')):
        return False
    (pa, fa), (pb, fb) = a.split(), b.split()
    if fa != fb:
        return False
    xa, ya = (F(t) for t in pa.split(','))
    xb, yb = (F(t) for t in pb.split(','))
    return abs(xa - xb) <= F(1, 10**9) and abs(ya - yb) <= F(1, 10**9)


def impl_for(_l):
    return impl


def spec_for(_l):
    return spec


# ------------------------------------------------------------------------------------------ generators

def flat(ps):
    return ' '.join(f'{rat(x)} {rat(y)}' for x, y in ps)


BASES = [
    [(0, 0), (4, 0), (4, 4), (0, 4)],                          # square
    [(0, 0), (4, 0), (2, 3)],                                  # triangle
    [(2, 0), (4, 2), (2, 4), (0, 2)],                          # diamond
    [(0, 0), (4, 0), (4, 4), (2, 2), (0, 4)],                  # notched square
    [(0, 0), (3, 0), (3, 1), (1, 1), (1, 3), (0, 3)],          # L
    [(0, 0), (2, 0), (4, 0), (4, 4), (0, 4)],                  # square with a collinear vertex
]


def xf(ps, sc, dx, dy):
    return [(F(x) * sc + dx, F(y) * sc + dy) for x, y in ps]


def rnd_poly(rng, holes_ok=True):
    b = rng.choice(BASES)
    sc = F(rng.choice([1, 2, 4]), 4) * rng.choice([1, 2])
    ring = xf(b, sc, F(rng.randint(-8, 16), 4), F(rng.randint(-8, 16), 4))
    if rng.random() < 0.5:
        ring = ring[::-1]
    k = rng.randrange(len(ring))
    ring = ring[k:] + ring[:k]
    holes = []
    if holes_ok and b is BASES[0] and sc >= 1 and rng.random() < 0.65:
        xs, ys = [p[0] for p in ring], [p[1] for p in ring]
        x0, y0, w = min(xs), min(ys), (max(xs) - min(xs))
        holes.append([(x0 + w * F(3, 8), y0 + w * F(3, 8)), (x0 + w * F(5, 8), y0 + w * F(3, 8)),
                      (x0 + w * F(5, 8), y0 + w * F(5, 8)), (x0 + w * F(3, 8), y0 + w * F(5, 8))])
        if rng.random() < 0.3:
            holes.append([(x0 + w * F(1, 8), y0 + w * F(1, 8)), (x0 + w * F(2, 8), y0 + w * F(1, 8)),
                          (x0 + w * F(1, 8), y0 + w * F(2, 8))])
        holes = [h[::-1] if rng.random() < 0.5 else h for h in holes]
    return planar.PShape('poly', raw=ring, holes=holes)


def rnd_box(rng):
    x0, y0 = F(rng.randint(-8, 12), 4), F(rng.randint(-8, 12), 4)
    w, h = F(rng.randint(1, 16), 4), F(rng.randint(1, 16), 4)
    holes = []
    if w >= 2 and h >= 2 and rng.random() < 0.4:
        holes.append([(x0 + w / 4, y0 + h / 4), (x0 + w / 2, y0 + h / 4), (x0 + w / 2, y0 + h / 2), (x0 + w / 4, y0 + h / 2)])
    return planar.PShape('box', nw=(x0, y0 + h), se=(x0 + w, y0), holes=holes)


def rnd_pt(rng, lo=-2, hi=6):
    return (F(rng.randint(lo * 4, hi * 4), 4), F(rng.randint(lo * 4, hi * 4), 4))


def rnd_line(rng):
    n = rng.randint(2, 5)
    pts = [rnd_pt(rng, -1, 5) for _ in range(n)]
    r = rng.random()
    if r < 0.2 and len(pts) >= 2:
        pts = pts + [pts[-2]]                       # retraces its last segment
    elif r < 0.3:
        pts = pts + [pts[0]]                        # closed path
    elif r < 0.45 and len(pts) >= 3:
        i = rng.randrange(len(pts) - 1)
        pts = pts + [pts[i], rnd_pt(rng, -1, 5)]    # revisits an earlier vertex, then continues
    out = [pts[0]]
    for p in pts[1:]:
        if p != out[-1]:
            out.append(p)
    if len(out) < 2:
        out.append((out[0][0] + 1, out[0][1]))
    return planar.PShape('line', pts=out)


def rnd_shape(rng):
    r = rng.random()
    if r < 0.4:
        return rnd_poly(rng)
    if r < 0.55:
        return rnd_box(rng)
    if r < 0.85:
        return rnd_line(rng)
    return planar.PShape('pt', pts=[rnd_pt(rng, -1, 5)])


def derive(rng, A, force=None):
    """a second shape placed *relationally* with respect to A (`force` = (k, variant) picks the placement)"""
    if A.kind in ('poly', 'box'):
        ring = A.shell[:-1]
        v = rng.choice(ring)
        i = rng.randrange(len(ring))
        a, b = ring[i], ring[(i + 1) % len(ring)]
        m = ((a[0] + b[0]) / 2, (a[1] + b[1]) / 2)
        xs, ys = [p[0] for p in ring], [p[1] for p in ring]
        cx, cy = (min(xs) + max(xs)) / 2, (min(ys) + max(ys)) / 2
        k = rng.choice([0, 1, 2, 3, 4, 5, 6, 6, 7, 7, 7, 8, 9, 10, 11, 12, 12, 12, 13, 14]) if A.holes else \
            rng.choice(list(range(12)) + [13, 14])
        annulus = rng.random() < 0.5
        if force is not None:
            k, annulus = force
        if k in (13, 14):  # on the *line through* an edge, beyond the edge's end: collinear, not touching
            # (prefers an axis-parallel edge: a degenerate bounding interval in one coordinate)
            cands = [j for j in range(len(ring)) if ring[j][0] == ring[(j + 1) % len(ring)][0] or ring[j][1] == ring[(j + 1) % len(ring)][1]]
            j = rng.choice(cands) if cands and rng.random() < 0.8 else i
            ea, eb = ring[j], ring[(j + 1) % len(ring)]
            t = rng.choice([F(1, 4), F(1, 2), 1, 2])
            q = (eb[0] + (eb[0] - ea[0]) * t, eb[1] + (eb[1] - ea[1]) * t)
            if k == 13:
                return planar.PShape('pt', pts=[q])
            return planar.PShape('line', pts=[q, (q[0] + (eb[0] - ea[0]) + (eb[1] - ea[1]) / 2, q[1] + (eb[1] - ea[1]) - (eb[0] - ea[0]) / 2)])
        if k == 12:  # straddles an edge of a hole without leaving the shell and without covering a hole vertex
            h = A.holes[0][:-1]
            j = rng.randrange(len(h))
            ha, hb = h[j], h[(j + 1) % len(h)]
            hm = ((ha[0] + hb[0]) / 2, (ha[1] + hb[1]) / 2)
            nx, ny = -(hb[1] - ha[1]) / 8, (hb[0] - ha[0]) / 8
            tx, ty = (hb[0] - ha[0]) / 8, (hb[1] - ha[1]) / 8
            p0, p1 = (hm[0] - nx, hm[1] - ny), (hm[0] + nx, hm[1] + ny)
            if rng.random() < 0.5:
                p0, p1 = p1, p0
            form = rng.randrange(3)
            if form == 0:
                return planar.PShape('line', pts=[p0, p1])
            if form == 1:
                return planar.PShape('poly', raw=[p0, (p1[0] + tx, p1[1] + ty), (p1[0] - tx, p1[1] - ty)])
            xs2, ys2 = [p0[0], p1[0], hm[0] + tx, hm[0] - tx], [p0[1], p1[1], hm[1] + ty, hm[1] - ty]
            return planar.PShape('box', nw=(min(xs2), max(ys2)), se=(max(xs2), min(ys2)))
        if k == 0:
            return planar.PShape('pt', pts=[v])
        if k == 1:
            return planar.PShape('pt', pts=[m])
        if k == 2:
            return planar.PShape('line', pts=[m, (m[0] + F(1, 2), m[1] + F(3, 4))])
        if k == 3:
            return planar.PShape('line', pts=[v, (v[0] - F(1, 4), v[1] - F(5, 4))])
        if k == 4:   # touches at a vertex from one of 8 directions
            dx, dy = rng.choice([(1, 0), (1, 1), (0, 1), (-1, 1), (-1, 0), (-1, -1), (0, -1), (1, -1)])
            d = [(0, 0), (dx, 0), (dx, dy), (0, dy)] if dx and dy else [(0, 0), (dx or 1, dy or 1), (dx * 2 or -1, dy * 2 or -1)]
            tri = [(v[0] + F(x, 2), v[1] + F(y, 2)) for x, y in d]
            if planar.is_simple(tri):
                return planar.PShape('poly', raw=tri)
        if k == 5:   # nested copy (scaled towards the centre)
            return planar.PShape('poly', raw=[(cx + (x - cx) / 2, cy + (y - cy) / 2) for x, y in ring])
        if k == 6 and A.holes:   # inside a hole
            h = A.holes[0][:-1]
            hx, hy = sum(p[0] for p in h) / len(h), sum(p[1] for p in h) / len(h)
            return planar.PShape('poly', raw=[(hx + (x - hx) / 2, hy + (y - hy) / 2) for x, y in h])
        if k == 7 and A.holes and annulus:   # concentric annulus: surrounds A's hole, its own hole inside A's hole
            h = A.holes[0][:-1]
            hx, hy = sum(p[0] for p in h) / len(h), sum(p[1] for p in h) / len(h)
            return planar.PShape('poly', raw=[(hx + (x - hx) * F(3, 2), hy + (y - hy) * F(3, 2)) for x, y in h],
                                 holes=[[(hx + (x - hx) / 2, hy + (y - hy) / 2) for x, y in h]])
        if k == 7 and A.holes:   # surrounds a hole, stays inside the shell
            h = A.holes[0][:-1]
            hx, hy = sum(p[0] for p in h) / len(h), sum(p[1] for p in h) / len(h)
            return planar.PShape('poly', raw=[(hx + (x - hx) * F(3, 2), hy + (y - hy) * F(3, 2)) for x, y in h])
        if k == 8:   # shares an edge
            n = (-(b[1] - a[1]), b[0] - a[0])
            s = rng.choice([1, -1])
            return planar.PShape('poly', raw=[a, b, (m[0] + s * n[0] / 2, m[1] + s * n[1] / 2)])
        if k == 9:   # identical, written differently
            r2 = ring[::-1] if rng.random() < 0.5 else ring
            j = rng.randrange(len(r2))
            return planar.PShape('poly', raw=r2[j:] + r2[:j], holes=A.rawholes)
        if k == 10:  # a chord through the shape
            return planar.PShape('line', pts=[(min(xs) - F(1, 2), cy), (max(xs) + F(1, 2), cy)])
        return planar.PShape('box', nw=(cx, max(ys) + F(1, 2)), se=(max(xs) + F(1, 2), cy))
    if A.kind == 'line':
        k = rng.choice([0, 1, 2, 2, 2, 3, 4, 5, 5])
        if force is not None:
            k = force[0]
        i = rng.randrange(len(A.pts) - 1)
        a, b = A.pts[i], A.pts[i + 1]
        m = ((a[0] + b[0]) / 2, (a[1] + b[1]) / 2)
        if k == 5:   # on the line through a segment, beyond its end
            t = rng.choice([F(1, 4), F(1, 2), 1, 2])
            return planar.PShape('pt', pts=[(b[0] + (b[0] - a[0]) * t, b[1] + (b[1] - a[1]) * t)])
        if k == 0:
            return planar.PShape('pt', pts=[m])
        if k == 1:
            return planar.PShape('pt', pts=[rng.choice(A.pts)])
        if k == 2:   # a contiguous sub-path, preferably starting at a *later* visit of a repeated vertex
            starts = [j for j in range(len(A.pts) - 1) if A.pts[j] in A.pts[:j]] or list(range(len(A.pts) - 1))
            j = rng.choice(starts) if rng.random() < 0.6 else rng.randrange(len(A.pts) - 1)
            n = rng.randint(2, 3)
            sub = A.pts[j:j + n]
            if rng.random() < 0.2:
                sub = sub[::-1]                      # reversed: a sub-path of the reversed path only
            return planar.PShape('line', pts=sub if len(sub) >= 2 else A.pts[:2])
        if k == 3:
            return planar.PShape('line', pts=[m, (m[0] + F(3, 4), m[1] - F(1, 2))])
        return planar.PShape('line', pts=[b, (b[0] + F(1, 2), b[1] + F(1, 4))])
    if A.kind == 'pt':
        p = A.pts[0]
        k = rng.randrange(5)
        if k <= 1:
            return planar.PShape('pt', pts=[p])                                    # the same place, another object
        if k == 2:
            return planar.PShape('line', pts=[(p[0] - F(1, 2), p[1] - F(1, 4)), p, (p[0] + F(3, 4), p[1])])
        if k == 3:
            return planar.PShape('poly', raw=[p, (p[0] + 1, p[1]), (p[0], p[1] + 1)])
        return planar.PShape('box', nw=(p[0] - F(1, 2), p[1] + F(1, 2)), se=(p[0] + F(1, 2), p[1] - F(1, 2)))
    return rnd_shape(rng)


DTS = ['@n', '@i1600000000000000', '@i1600000005000000', '@v1600000000000000:1600000010000000',
       '@v1600000020000000:1600000030000000', '@v1600000002000000:1600000004000000']


def with_dt(S, dt):
    S2 = planar.PShape(S.kind, raw=S.raw, holes=S.rawholes, pts=S.pts, nw=S.nw, se=S.se, dt=dt)
    return S2


def placement_tag(A, B):
    truth, strong = planar.truth_intersects(A, B)
    if not truth:
        return 'disjoint'
    proper = any(planar.seg_touch(a, b, c, d)[1] for a, b in A.edges() for c, d in B.edges())
    crossing = any((planar.cross(c, d, a) * planar.cross(c, d, b) < 0 and planar.cross(a, b, c) * planar.cross(a, b, d) < 0)
                   for a, b in A.edges() for c, d in B.edges())
    if crossing:
        return 'crossing'
    if proper:
        return 'touching'
    if strong:
        return 'nested-or-point'
    return 'collinear-only'


def check(run):
    run.prove(MODULE, THEOREMS)
    run.source_tie(['SrcRelate'], 'GeoVerif.Props.C02Src', ['GV.C02Src.' + t for t in ('isOnSegment_eq', 'touches_loop_eq', 'touchesCoordinate_eq', 'containsPoint_eq', 'containsPoly_eq', 'containsLine_eq', 'containsMulti_eq', 'intersectsMulti_eq', 'intersectsPoint_eq', 'intersectsPoly_eq', 'intersectsLine_eq', 'lineContainsPoint_eq', 'lineContainsLine_eq', 'lineContainsPoly_eq', 'lineContainsMulti_eq', 'lineIntersectsMulti_eq', 'lineIntersectsPoint_eq', 'lineIntersectsPoly_eq', 'lineIntersectsLine_eq', 'pointContainsPoint_eq', 'pointContainsOther_eq', 'pointIntersectsPoint_eq', 'pointIntersects_delegates', 'pointContainsMulti_eq', 'src_contains_imp_intersects')])
    # `_geometry.py` itself: bounds overlap, antimeridian un-wrapping, segment intersection and the edge sweep (incl. its local
    # `_Event` class and `_create_events`), translated and proved equal to Model/SegInt + Model/Sweep
    run.source_tie(['SrcSweep'], 'GeoVerif.Props.C02SrcSweep', ['GV.C02SrcSweep.' + t for t in (
        'doBoundsOverlap_eq', 'ensureEdgeBounds_eq', 'findLineIntersection_eq', 'findLineIntersection_eq_model', 'event_hash_iff',
        'lt_eq', 'create_events_eq', 'loop2_eq', 'loop1_eq', 'doEdgesIntersect_eq_sweep', 'doEdgesIntersect_eq_model',
        'src_findLineIntersection_isSome_iff', 'src_sweep_eq_anyCross')])
    run.corpus(impl, spec)
    rng = run.rng

    # 1. segment/segment: every ordered pair of segments with end points on a 3x3 grid (exhaustive)
    pts = [(F(x), F(y)) for x in range(3) for y in range(3)]
    segs = [(a, b) for a in pts for b in pts if a != b]
    pairs = list(itertools.product(segs, segs))
    if run.quick:
        pairs = rng.sample(pairs, 2500)
    else:
        run.exhaustive = True
    lines = [f'rel.seg {flat(s)} | {flat(t)}' for s, t in pairs]
    # off-grid crossings (the intersection point is not a grid point)
    for _ in range(run.scale(500, 5000)):
        s = [rnd_pt(rng, 0, 3), rnd_pt(rng, 0, 3)]
        t = [rnd_pt(rng, 0, 3), rnd_pt(rng, 0, 3)]
        if s[0] != s[1] and t[0] != t[1]:
            # keep the exact intersection representable: only dyadic results are bit-exact in the float code
            tt, pr = planar.seg_touch(s[0], s[1], t[0], t[1])
            if pr:
                p = planar.seg_point(s[0], s[1], t[0], t[1])
                if (p[0].denominator & (p[0].denominator - 1)) or (p[1].denominator & (p[1].denominator - 1)):
                    continue
            lines.append(f'rel.seg {flat(s)} | {flat(t)}')
    run.run_cases('segment-pairs', lines, impl, spec, compare=seg_eq, spec_compare=seg_eq,
                  tag=lambda ln, a: ['seg:' + ('none' if a == 'none' else ('endpoint' if a.endswith('T') else 'interior'))])

    # 2. raw sweep on small edge lists in every order (the event order at equal latitude matters)
    lines = []
    g = [(F(x), F(y)) for x in range(4) for y in range(4)]
    for _ in range(run.scale(800, 12000)):
        na, nb = rng.randint(1, 3), rng.randint(1, 3)
        ea = [rng.sample(g, 2) for _ in range(na)]
        eb = [rng.sample(g, 2) for _ in range(nb)]
        if rng.random() < 0.3:      # an edge of B starts where an edge of A ends
            eb[0][0] = ea[0][1]
        if rng.random() < 0.1:      # duplicate / retraced edge
            ea.append(ea[0][::-1])
        for pa in ([ea] if run.quick else list(itertools.permutations(ea))[:3]):
            ta = flat([p for e in pa for p in e])
            tb = flat([p for e in eb for p in e])
            lines.append(f'rel.sweep {ta} | {tb}')
            lines.append(f'rel.sweep {tb} | {ta}')
    run.run_cases('sweep-edge-lists', lines, impl, spec)

    # 3. shape pairs: random + relational placements, both argument orders, time bounds attached
    cases = []
    for _ in range(run.scale(700, 12000)):
        A = rnd_shape(rng)
        B = derive(rng, A) if rng.random() < 0.6 else rnd_shape(rng)
        cases.append((A, B))
    lines, meta = [], []
    for A, B in cases:
        tag = placement_tag(A, B)
        da, db = rng.choice(DTS), rng.choice(DTS)
        for X, Y in ((A, B), (B, A)):
            for op in ('inter', 'contains'):
                lines.append(f'rel.{op} {X.tokens()} | {Y.tokens()}')
                meta.append(tag)
        # the same pair with time bounds: the spatial predicates must not look at them
        A2, B2 = with_dt(A, da), with_dt(B, db)
        for X, Y in ((A2, B2), (B2, A2)):
            for op in ('inter', 'contains'):
                lines.append(f'rel.{op} {X.tokens()} | {Y.tokens()}')
                meta.append(tag + '+dt')
    tags = dict(zip(lines, meta))
    outs = run.run_cases('shape-pairs', lines, impl, spec,
                         tag=lambda ln, a: [f'{ln.split()[0]}:{tags.get(ln, "?")}:{a if a in "TF" else "ERR"}',
                                            'kinds:' + ln.split()[1] + '-' + ln.split('|')[1].split()[0]])
    # the universally quantified laws, directly on the implementation's answers
    ans = dict(zip(lines, outs))
    for A, B in cases:
        ab, ba = f'rel.inter {A.tokens()} | {B.tokens()}', f'rel.inter {B.tokens()} | {A.tokens()}'
        cab = f'rel.contains {A.tokens()} | {B.tokens()}'
        if ans[ab] != ans[ba]:
            run.report('rel.inter/asymmetric', f'A.intersects_shape(B)={ans[ab]} but B.intersects_shape(A)={ans[ba]}',
                       {'stream': 'shape-pairs', 'line': ab, 'impl': ans[ab], 'spec': ans[ba], 'mirror': ba})
        if ans[cab] == 'T' and ans[ab] != 'T':
            run.report('rel.contains/not-intersects', 'contains_shape is True but intersects_shape is not',
                       {'stream': 'shape-pairs', 'line': cab, 'impl': ans[cab], 'spec': 'F', 'intersects': ans[ab]})
        for ln in (ab, cab):
            if ans[ln].startswith('ERR') or ans[ln] == 'TIMEOUT':
                run.report(ln.split()[0] + '/raises', f'a valid shape pair raises {ans[ln]}',
                           {'stream': 'shape-pairs', 'line': ln, 'impl': ans[ln], 'spec': 'T or F'})

    # 3·. every relational placement of `derive`, for shapes with and without holes, in every run (random choice of the
    #     placement left the rarer ones — a concentric annulus around a hole, a shape straddling a hole edge — to luck)
    lines4 = []
    dt_cycle = itertools.cycle([(DTS[3], DTS[4]), (DTS[4], DTS[3]), (DTS[1], DTS[3]), (DTS[5], DTS[3]), (DTS[3], DTS[5]), (DTS[2], DTS[1]),
                                (DTS[0], DTS[4]), (DTS[4], DTS[0])])

    def timed_both_orders(A, B):
        # every placement is also asked in BOTH argument orders with time bounds attached (disjoint, nested either way, instant
        # in / next to an interval, one side without): a receiver-specific fallback that goes through the time-aware
        # `in` / `==` shows only for that receiver (seeded change C02-t3: a path strictly inside a polygon, path as receiver)
        da, db = next(dt_cycle)
        A2, B2 = with_dt(A, da), with_dt(B, db)
        for X, Y in ((A2, B2), (B2, A2)):
            for op in ('inter', 'contains'):
                lines4.append(f'rel.{op} {X.tokens()} | {Y.tokens()}')
    for rep in range(run.scale(3, 12)):
        bases = [rnd_poly(rng, holes_ok=False), rnd_box(rng), next(q for q in iter(lambda: rnd_poly(rng), None) if q.holes),
                 next(q for q in iter(lambda: rnd_box(rng), None) if q.holes)]
        for A in bases:
            for k in range(15):
                for annulus in ((False, True) if k == 7 else (False,)):
                    if k in (6, 7, 12) and not A.holes:
                        continue
                    B = derive(rng, A, force=(k, annulus))
                    for X, Y in ((A, B), (B, A)):
                        for op in ('inter', 'contains'):
                            lines4.append(f'rel.{op} {X.tokens()} | {Y.tokens()}')
                    timed_both_orders(A, B)
        for _ in range(4):      # paths, incl. axis-parallel segments, against every placement of theirs
            A = rnd_line(rng) if rng.random() < 0.5 else planar.PShape('line', pts=[(F(1), F(0)), (F(1), F(2)), (F(3), F(2))])
            for k in range(6):
                B = derive(rng, A, force=(k, False))
                for X, Y in ((A, B), (B, A)):
                    for op in ('inter', 'contains'):
                        lines4.append(f'rel.{op} {X.tokens()} | {Y.tokens()}')
                timed_both_orders(A, B)
        # the same shell with and without its holes, asked about in both orders within one process: shapes that are equal
        # as far as `hash` looks (the hash leaves holes out) are still different shapes (seeded change C02-r2 memoised
        # `edges()` under `hash(self)`)
        for A in bases[2:]:
            A0 = planar.PShape(A.kind, raw=A.raw, holes=[], nw=A.nw, se=A.se)
            for k in (6, 12, 7, 10):
                B = derive(rng, A, force=(k, rep % 2 == 0))
                order = (A0, A, A0) if (rep + k) % 2 else (A, A0, A)
                for X in order:
                    for op in ('inter', 'contains'):
                        lines4.append(f'rel.{op} {X.tokens()} | {B.tokens()}')
                        lines4.append(f'rel.{op} {B.tokens()} | {X.tokens()}')
    run.run_cases('every-relational-placement', lines4, impl, spec,
                  tag=lambda ln, a: ['placement:' + ln.split()[0] + ':' + (a if a in 'TF' else 'ERR')])

    # 3a. every kind against a coincident partner (itself re-built, one of its own vertices, a relational placement)
    #     under EVERY combination of time bounds: the spatial predicates are time-free, whatever equality or membership
    #     operator they are written with (seeded change C02-p3 compared two points with the dt-aware `==`)
    lines3, base3 = [], {}
    mk = {'pt': lambda: planar.PShape('pt', pts=[rnd_pt(rng, -1, 5)]), 'line': lambda: rnd_line(rng), 'box': lambda: rnd_box(rng),
          'poly': lambda: rnd_poly(rng, holes_ok=False), 'polyh': lambda: next(q for q in iter(lambda: rnd_poly(rng), None) if q.holes)}
    combos = list(itertools.product(DTS, DTS))
    for kind, make in mk.items():
        for rep in range(run.scale(1, 4)):
            A = make()
            partners = [with_dt(A, None), planar.PShape('pt', pts=[A.verts()[0]]), derive(rng, A)]
            for B in partners:
                for da, db in (combos if not run.quick else [c for c in combos if c[0] != c[1]][::2] + [(DTS[1], DTS[1])]):
                    A2, B2 = with_dt(A, da), with_dt(B, db)
                    for X, Y, X0, Y0 in ((A2, B2, A, B), (B2, A2, B, A)):
                        for op in ('inter', 'contains'):
                            ln = f'rel.{op} {X.tokens()} | {Y.tokens()}'
                            lines3.append(ln)
                            base3[ln] = f'rel.{op} {with_dt(X0, None).tokens()} | {with_dt(Y0, None).tokens()}'
    plain = sorted(set(base3.values()))
    outs3 = run.run_cases('coincident-pairs-all-time-bounds', lines3 + plain, impl, spec,
                          tag=lambda ln, a: ['dtmatrix:' + ln.split()[1] + '-' + ln.split('|')[1].split()[0] + ':' + (a if a in 'TF' else 'ERR')])
    ans3 = dict(zip(lines3 + plain, outs3))
    for ln in lines3:
        if ans3[ln] != ans3[base3[ln]]:
            run.report('rel/time-dependent', f'{ln.split()[0]} answers {ans3[base3[ln]]} without time bounds but {ans3[ln]} with them',
                       {'stream': 'coincident-pairs-all-time-bounds', 'line': ln, 'impl': ans3[ln], 'spec': ans3[base3[ln]],
                        'without_time_bounds': base3[ln]})

    # 3b. the same pairs at other scales and places (dyadic scaling / translation keeps the arithmetic of the exact
    #     model valid; the 1e-10 rounding of the float code must stay inert down to metre-scale shapes)
    lines2 = []
    for A, B in rng.sample(cases, min(len(cases), run.scale(150, 2500))):
        k = rng.choice([4, 8, 12, 16, 20])
        sc = F(1, 2 ** k)
        ox, oy = F(rng.randint(-170, 170)), F(rng.randint(-80, 80))

        def mv(S):
            f = lambda ps: [(ox + x * sc, oy + y * sc) for x, y in ps] if ps else ps  # noqa: E731
            return planar.PShape(S.kind, raw=f(S.raw), holes=[f(h) for h in S.rawholes], pts=f(S.pts),
                                 nw=f([S.nw])[0] if S.nw else None, se=f([S.se])[0] if S.se else None)
        A2, B2 = mv(A), mv(B)
        for op in ('inter', 'contains'):
            lines2.append(f'rel.{op} {A2.tokens()} | {B2.tokens()}')
            lines2.append(f'rel.{op} {B2.tokens()} | {A2.tokens()}')
    run.run_cases('scaled-and-translated', lines2, impl, spec,
                  tag=lambda ln, a: ['scaled:' + ln.split()[0] + ':' + (a if a in 'TF' else 'ERR')])


    return run.finish(
        rule='every ordered pair of grid segments (3x3, exhaustive in the thorough tier); raw sweeps over small edge lists in '
             'both argument orders; ordered pairs of {polygon, polygon with holes, box, linestring (incl. retraced/closed), point} '
             'placed randomly and relationally (vertex touch from 8 directions, vertex-edge touch, shared edge, nested, in a hole, '
             'surrounding a hole, identical re-written, chord), both argument orders, with and without time bounds. Distinct by '
             'protocol line; the histogram shows the split disjoint / touching / crossing / nested / collinear-only per operator.',
        assumptions=['the step from "no proper edge crossing + first-vertex containment" to closed-set truth for simple polygons is the '
                     'Jordan argument (assumed; validated by the exact Fraction oracle on every generated pair)',
                     'boundaries that only overlap collinearly are documented as not counting: the oracle leaves those pairs unspecified',
                     'exact rational model; dyadic-grid inputs keep binary64 arithmetic exact and the 1e-10 rounding inert'],
        checker_cmd='cd lean && lake build GeoVerif.Props.C02 && lake env lean .lake/audit/C02.lean  (#print axioms)')
