"""C11 — the Niemeyer geohash codec is a consistent hierarchical tiling (bases 16, 32, 64)."""
import itertools
import math
import zlib
from fractions import Fraction as F

import common
from common import rat, tf
from datetime import datetime, timezone
from geohash_twice import FOREIGN, Unstable, edit, guard, twice

MODULE = 'GeoVerif.Props.C11'
THEOREMS = ['GV.Geohash.' + t for t in (
    # table theorems (decide +kernel over Gen/Geohash.lean, regenerated from the live module)
    'inverse_charset_16', 'inverse_charset_32', 'inverse_charset_64',
    'charset_distinct_16', 'charset_distinct_32', 'charset_distinct_64',
    'bits_pow2_16', 'bits_pow2_32', 'bits_pow2_64',
    'wf_16', 'wf_32', 'wf_64', 'configs_table', 'cfgOf_wf',
    # codec theorems
    'encode_total', 'encode_length', 'encode_alphabet', 'encode_unsupported', 'decode_total', 'decode_rejects',
    'decode_encode_contains', 'decode_encode_contains_coord', 'encode_prefix',
    'encode_of_strictly_contains', 'encode_centre', 'normalize_id', 'encodeCoord_centre',
    'subhashes_count', 'subhashes_inside', 'subhashes_cover', 'subhashes_disjoint', 'subhashes_tile',
    'cell_dyadic', 'float_exact_bound',
    'cellBox_contains_partial', 'cellBox_contains_coord_partial', 'cellBox_counterexample',
    'surrounding_length', 'decode_grid', 'encode_offset', 'surrounding_adjacent',
)]

KEY_F11A = 'niemeyer_to_geobox/east-edge-180'

# the three alphabets, written down independently of the code
ALPHABET = {
    16: '0123456789abcdef',
    32: '0123456789bcdefghjkmnpqrstuvwxyz',
    64: '0123456789=ABCDEFGHIJKLMNOPQRSTUVWXYZ_abcdefghijklmnopqrstuvwxyz',
}
NBITS = {16: 4, 32: 5, 64: 6}
SAFE = set('0123456789abcdefghijklmnopqrstuvwxyzABCDEFGHIJKLMNOPQRSTUVWXYZ=_')


def tok(h):
    """geohash -> protocol token"""
    if all(c in SAFE for c in h):
        return 's' + h
    return 'u' + '.'.join(str(ord(c)) for c in h)


def untok(t):
    if t[0] == 's':
        return t[1:]
    return ''.join(chr(int(x)) for x in t[1:].split('.')) if len(t) > 1 else ''


def _mods():
    from geostructures import Coordinate, GeoBox, GeoPoint, GeoPolygon
    from geostructures import geohash as G
    return Coordinate, GeoBox, GeoPoint, GeoPolygon, G


def _fl(s):
    """protocol rational -> the float it came from"""
    return float(F(s))


def _ranges(b):
    """coordinate ranges are data of the code (the property is parametric in them)"""
    G = _mods()[4]
    c = G._NIEMEYER_CONFIG[b]
    return F(c['min_x']), F(c['max_x']), F(c['min_y']), F(c['max_y'])


# --------------------------------------------------------------------------------------------------
# closed-form cell arithmetic (independent of the bisection loops): a cell of length L is the pair of
# grid indices (i, j) whose binary digits are interleaved, longitude first, and cut into characters


def split_bits(b, L):
    t = L * NBITS[b]
    return (t + 1) // 2, t // 2


def cell_of_hash(b, h):
    """-> (i, j, nlon, nlat) or None if a character is outside the alphabet"""
    k = NBITS[b]
    i = j = 0
    t = 0
    for ch in h:
        v = ALPHABET[b].find(ch)
        if v < 0 or len(ch) != 1:
            return None
        for m in range(k - 1, -1, -1):
            bit = (v >> m) & 1
            if t % 2 == 0:
                i = i * 2 + bit
            else:
                j = j * 2 + bit
            t += 1
    nlon, nlat = split_bits(b, len(h))
    return i, j, nlon, nlat


def hash_of_cell(b, L, i, j):
    k = NBITS[b]
    nlon, nlat = split_bits(b, L)
    bits = []
    for t in range(L * k):
        if t % 2 == 0:
            bits.append((i >> (nlon - 1 - t // 2)) & 1)
        else:
            bits.append((j >> (nlat - 1 - t // 2)) & 1)
    out = ''
    for c in range(L):
        v = 0
        for bit in bits[c * k:(c + 1) * k]:
            v = v * 2 + bit
        out += ALPHABET[b][v]
    return out


def cell_rect(b, h):
    """exact closed cell (x0, y0, x1, y1) of a well-formed hash"""
    c = cell_of_hash(b, h)
    if c is None:
        return None
    i, j, nlon, nlat = c
    x0, x1, y0, y1 = _ranges(b)
    w, hgt = (x1 - x0) / 2 ** nlon, (y1 - y0) / 2 ** nlat
    return x0 + i * w, y0 + j * hgt, x0 + (i + 1) * w, y0 + (j + 1) * hgt


def in_coord_range(r):
    return r is not None and -90 <= r[1] and r[3] <= 90 and -180 <= r[0] and r[2] <= 180


def closed_form_encode(b, L, x, y):
    """the unique cell containing (x, y) in its interior, or None when (x, y) is on a cell edge / outside"""
    x0, x1, y0, y1 = _ranges(b)
    nlon, nlat = split_bits(b, L)
    fx, fy = (x - x0) * 2 ** nlon / (x1 - x0), (y - y0) * 2 ** nlat / (y1 - y0)
    if (nlon and fx.denominator == 1) or (nlat and fy.denominator == 1):
        return None
    if not (0 <= fx < 2 ** nlon and 0 <= fy < 2 ** nlat):
        return None
    return hash_of_cell(b, L, math.floor(fx), math.floor(fy))


OFFSETS = [(0, 1), (1, 1), (1, 0), (1, -1), (0, -1), (-1, -1), (-1, 0), (-1, 1)]


# --------------------------------------------------------------------------------------------------
# implementation interpreter


def _show_box(bx):
    return ' '.join(rat(v) for v in (bx.nw_bound.longitude, bx.nw_bound.latitude,
                                    bx.se_bound.longitude, bx.se_bound.latitude))


def _show_poly(outline):
    pts = [(F(c.longitude), F(c.latitude)) for c in outline]
    closed = bool(pts) and pts[0] == pts[-1]
    return tf(closed) + ' ' + ' '.join(f'{rat(x)},{rat(y)}' for x, y in sorted(set(pts)))


def _cell(d):
    lon, lat, le, la = (F(v) for v in d)
    return lon - le, lat - la, lon + le, lat + la


def _box_seq(fn, h, b, line):
    """cell -> GeoBox/GeoPolygon observed as a sequence: a first caller passes dt and a properties dict and edits the
    shape it got (set_property, set_dt, corners, outline, holes); then the plain call is made twice with an edit in
    between.  The caller's dict must be untouched and nothing of the earlier callers may show on the later results."""
    if zlib.crc32(line.encode()) % 3 == 0:
        mine = {'k': 1}
        r0 = fn(h, b, datetime(2020, 1, 1, tzinfo=timezone.utc), mine)
        if mine != {'k': 1}:
            raise Unstable(f'{fn.__qualname__}: the caller\'s properties dict was edited: {mine}')
        edit(r0, len(line))
    r = twice(fn, h, b, salt=line)
    props = dict(r._properties)
    if 'k' in props or any(FOREIGN in str(k) or FOREIGN in str(v) for k, v in props.items()) or r.dt is not None or r.holes:
        raise Unstable(f'{fn.__qualname__}: result carries an earlier caller\'s state: properties {props}, dt {r.dt}, '
                       f'{len(r.holes)} holes')
    return r


@guard
def impl(line):
    """every library call is made as the sequence call / edit the result / call again (geohash_twice.twice); the
    answer is the SECOND result, `UNSTABLE …` if it differs from the first"""
    Coordinate, GeoBox, GeoPoint, GeoPolygon, G = _mods()
    cmd, *a = line.split()
    op = cmd.split('.', 1)[1]
    b = int(a[0])

    # tuples and strings cannot be edited by a caller: for them only state carried from call to call matters,
    # which a quarter of the lines (chosen by the line itself) observe
    rep = zlib.crc32(line.encode()) % 4 == 0

    def dec(h):
        return twice(G._decode_niemeyer, h, b, salt=line) if rep else G._decode_niemeyer(h, b)

    def enc(c, L):
        return twice(G._coord_to_niemeyer, c, L, b, salt=line) if rep else G._coord_to_niemeyer(c, L, b)
    if op == 'dec':
        return ' '.join(rat(v) for v in dec(untok(a[1])))
    if op == 'enc':
        return tok(enc(Coordinate(_fl(a[2]), _fl(a[3])), int(a[1])))
    if op == 'enczm':
        # the coordinate carries Z and/or M (`-` = absent, 0 is a value): through the codec and through the hasher
        zm = {k: _fl(v) for k, v in (('z', a[4]), ('m', a[5])) if v != '-'}
        c = Coordinate(_fl(a[2]), _fl(a[3]), **zm)
        h = enc(c, int(a[1]))
        via_point = G.NiemeyerHasher(int(a[1]), b).hash_shape(GeoPoint(c))
        via_list = G.NiemeyerHasher(int(a[1]), b).hash_coordinates([c])
        if via_point != {h} or via_list != {h: 1}:
            return f'hasher-differs {tok(h)} {sorted(map(tok, via_point))} {sorted((tok(k), v) for k, v in via_list.items())}'
        return tok(h)
    if op == 'encp':
        hasher, pt = G.NiemeyerHasher(int(a[1]), b), GeoPoint(Coordinate(_fl(a[2]), _fl(a[3])))
        r = twice(hasher.hash_shape, pt, salt=line)
        if len(r) != 1:
            return f'set-of-{len(r)}'
        return tok(next(iter(r)))
    if op == 'rt':
        L = int(a[1])
        c = Coordinate(_fl(a[2]), _fl(a[3]))
        h = enc(c, L)
        x0, y0, x1, y1 = _cell(dec(h))
        inside = x0 <= F(c.longitude) <= x1 and y0 <= F(c.latitude) <= y1
        pre = all(G._coord_to_niemeyer(c, l, b) == h[:l] for l in range(L))
        return f'{len(h)} {tf(all(ch in ALPHABET[b] for ch in h))} {tf(inside)} {tf(pre)}'
    if op == 'cen':
        h = untok(a[1])
        lon, lat, _le, _la = dec(h)
        return tok(enc(Coordinate(lon, lat), len(h)))
    if op == 'sub':
        return ' '.join(sorted(tok(k) for k in twice(G._get_niemeyer_subhashes, untok(a[1]), b, salt=line)))
    if op == 'tile':
        h = untok(a[1])
        kids = twice(G._get_niemeyer_subhashes, h, b, salt=line)
        p = _cell(dec(h))
        cs = [_cell(G._decode_niemeyer(k, b)) for k in kids]
        inside = all(p[0] <= c[0] and p[1] <= c[1] and c[2] <= p[2] and c[3] <= p[3] for c in cs)
        disjoint = all(not (max(c[0], d[0]) < min(c[2], d[2]) and max(c[1], d[1]) < min(c[3], d[3]))
                       for c, d in itertools.combinations(cs, 2))
        area = sum((c[2] - c[0]) * (c[3] - c[1]) for c in cs)
        return f'{len(kids)} {tf(inside)} {tf(disjoint)} {tf(area == (p[2] - p[0]) * (p[3] - p[1]))}'
    if op == 'box':
        return _show_box(_box_seq(G.niemeyer_to_geobox, untok(a[1]), b, line))
    if op == 'gbox':
        return _show_box(_box_seq(GeoBox.from_niemeyer_geohash, untok(a[1]), b, line))
    if op == 'boxhas':
        c = Coordinate(_fl(a[2]), _fl(a[3]))
        h = enc(c, int(a[1]))
        return tf(twice(G.niemeyer_to_geobox, h, b, salt=line).contains_coordinate(c))
    if op == 'poly':
        return _show_poly(_box_seq(GeoPolygon.from_niemeyer_geohash, untok(a[1]), b, line).outline)
    if op == 'sur':
        return ' '.join(tok(k) for k in twice(G.NiemeyerHasher._get_surrounding, untok(a[1]), b, salt=line))
    if op == 'hc':
        L, agg = int(a[1]), a[2]
        cs = [Coordinate(_fl(x), _fl(y)) for x, y in zip(a[3::2], a[4::2])]
        before = [(c.longitude, c.latitude) for c in cs]
        idx = {id(c): n for n, c in enumerate(cs)}
        hasher = G.NiemeyerHasher(L, b)
        if agg == 'len':
            d = twice(hasher.hash_coordinates, cs, salt=line)
        else:
            d = twice(hasher.hash_coordinates, cs, salt=line, agg_fn=lambda l: '.'.join(str(idx[id(c)]) for c in l))
        if [(c.longitude, c.latitude) for c in cs] != before or len(cs) != len(before):
            raise Unstable('hash_coordinates edited the caller\'s coordinate list')
        return ' '.join(f'{k}={v}' for k, v in sorted((tok(k), v) for k, v in d.items()))
    raise ValueError('unknown op ' + op)


# --------------------------------------------------------------------------------------------------
# the property, independently of the model


def _stored(x, y):
    """stored longitude/latitude of an in-range coordinate (None outside: C08's business)"""
    if -180 <= x <= 180 and -90 <= y <= 90:
        return (F(-180) if x == 180 else x), y
    return None


def spec(line):
    try:
        return _spec(line)
    except common.InfraError:
        raise
    except Exception as e:  # noqa  (the few clauses that are relations over the implementation's own answers)
        return 'ORACLE-NEEDS-IMPL:' + common.err_name(e)


def _spec(line):
    cmd, *a = line.split()
    op = cmd.split('.', 1)[1]
    b = int(a[0])
    if b not in ALPHABET:
        return None
    if op in ('dec', 'cen', 'sub', 'tile', 'box', 'gbox', 'poly', 'sur'):
        h = untok(a[1])
        r = cell_rect(b, h)
        if op == 'sub':
            return ' '.join(sorted(tok(h + c) for c in ALPHABET[b]))
        if r is None:
            return 'ERR:Value'                      # a character outside the alphabet is rejected
        x0, y0, x1, y1 = r
        if op == 'dec':
            return ' '.join(rat(v) for v in ((x0 + x1) / 2, (y0 + y1) / 2, (x1 - x0) / 2, (y1 - y0) / 2))
        if op == 'tile':
            return f'{b} T T T'
        if op == 'cen':
            return tok(h) if -90 <= (y0 + y1) / 2 <= 90 else None
        if not in_coord_range(r):
            return None
        if op in ('box', 'gbox'):
            return ' '.join(rat(v) for v in (x0, y1, x1, y0))
        if op == 'poly':
            return 'T ' + ' '.join(f'{rat(x)},{rat(y)}' for x, y in sorted({(x0, y0), (x0, y1), (x1, y0), (x1, y1)}))
        if op == 'sur':
            i, j, nlon, nlat = cell_of_hash(b, h)
            hgt = y1 - y0
            if not (0 < i < 2 ** nlon - 1 and -90 <= y0 - hgt and y1 + hgt <= 90 and h):
                return None
            return ' '.join(tok(hash_of_cell(b, len(h), i + dx, j + dy)) for dx, dy in OFFSETS)
    if op in ('enc', 'encp', 'enczm'):          # (Z and M do not enter the geohash)
        st = _stored(F(a[2]), F(a[3]))
        if st is None:
            return None
        h = closed_form_encode(b, int(a[1]), *st)
        return None if h is None else tok(h)
    if op == 'rt':
        return f'{int(a[1])} T T T'
    if op == 'boxhas':
        # the box of the coordinate's own cell contains it -- for cells inside the coordinate range (in bases
        # 16/64, whose latitude interval is [-180, 180], latitude -90 itself encodes into the strip below -90)
        Coordinate, _GB, _GP, _GPoly, G = _mods()
        h = G._coord_to_niemeyer(Coordinate(_fl(a[2]), _fl(a[3])), int(a[1]), b)
        return 'T' if in_coord_range(cell_rect(b, h)) else None
    if op == 'hc':
        Coordinate, _GB, _GP, _GPoly, G = _mods()
        L, agg = int(a[1]), a[2]
        groups = {}
        for n, (x, y) in enumerate(zip(a[3::2], a[4::2])):
            groups.setdefault(tok(G._coord_to_niemeyer(Coordinate(_fl(x), _fl(y)), L, b)), []).append(n)
        return ' '.join(f'{k}={len(v) if agg == "len" else ".".join(map(str, v))}' for k, v in sorted(groups.items()))
    return None


def impl_for(_line):
    return impl


def spec_for(_line):
    return spec


def known_key(line, a, s):
    """F11a is keyed by call site + failure predicate: only a box whose east edge is exactly 180 and whose
    *only* defect is the stored longitude −180 of that edge; any other disagreement keeps the op's own key."""
    cmd, *p = line.split()
    op = cmd.split('.', 1)[1]
    b = int(p[0])
    try:
        if op in ('box', 'gbox'):
            want, got = s.split(), a.split()
            if len(got) == 4 and want[2] == '180' and got[2] == '-180' and got[:2] == want[:2] and got[3] == want[3]:
                return KEY_F11A
        if op == 'poly':
            if cell_rect(b, untok(p[1]))[2] == 180 and _wrap180(s) == a:
                return KEY_F11A
        if op == 'boxhas' and a == 'F':
            Coordinate, _GB, _GP, _GPoly, G = _mods()
            c = Coordinate(_fl(p[2]), _fl(p[3]))
            h = G._coord_to_niemeyer(c, int(p[1]), b)
            r = cell_rect(b, h)
            if r is not None and r[2] == 180 and r[0] <= F(c.longitude) and r[1] <= F(c.latitude) <= r[3]:
                return KEY_F11A
    except Exception:  # noqa
        pass
    return cmd


def _ptkey(t):
    x, y = t.split(',')
    return (F(x), F(y))


def _wrap180(s):
    """what the outline of an east-edge cell becomes when lon 180 is stored as −180"""
    pts = set()
    for t in s.split()[1:]:
        x, y = t.split(',')
        pts.add(('-180' if x == '180' else x) + ',' + y)
    return 'T ' + ' '.join(sorted(pts, key=_ptkey))


# --------------------------------------------------------------------------------------------------
# generators


def all_hashes(b, L):
    return map(''.join, itertools.product(ALPHABET[b], repeat=L))


def rand_hash(rng, b, L):
    return ''.join(rng.choice(ALPHABET[b]) for _ in range(L))


def rand_coord(rng, b):
    """(lon, lat, class) — floats; the class is the branch tag"""
    r = rng.random()
    if r < 0.35:
        return rng.uniform(-180, 180), rng.uniform(-90, 90), 'uniform'
    if r < 0.65:
        # exactly on a cell edge (one or both axes) of a random length
        L = rng.randint(1, 12)
        nlon, nlat = split_bits(b, L)
        x0, x1, y0, y1 = _ranges(b)
        x = float(x0 + rng.randrange(0, 2 ** nlon + 1) * (x1 - x0) / 2 ** nlon)
        y = float(y0 + rng.randrange(0, 2 ** nlat + 1) * (y1 - y0) / 2 ** nlat)
        y = max(-90.0, min(90.0, y))
        which = rng.randrange(3)
        if which == 0:
            y = rng.uniform(-90, 90)
        elif which == 1:
            x = rng.uniform(-180, 180)
        return x, y, 'cell-edge'
    if r < 0.8:
        return rng.choice([-180.0, 180.0, 0.0, rng.uniform(-180, 180)]), rng.choice([-90.0, 90.0, 0.0, rng.uniform(-90, 90)]), 'range-limit'
    if r < 0.93:
        # one ulp off an edge
        L = rng.randint(1, 8)
        nlon, nlat = split_bits(b, L)
        x0, x1, y0, y1 = _ranges(b)
        x = float(x0 + rng.randrange(0, 2 ** nlon + 1) * (x1 - x0) / 2 ** nlon)
        y = float(y0 + rng.randrange(0, 2 ** nlat + 1) * (y1 - y0) / 2 ** nlat)
        x = math.nextafter(x, rng.choice([-math.inf, math.inf]))
        y = math.nextafter(y, rng.choice([-math.inf, math.inf]))
        return max(-180.0, min(180.0, x)), max(-90.0, min(90.0, y)), 'edge-ulp'
    if r < 0.97:
        return rng.choice([5e-324, -5e-324, 1e-300, -0.0, 2.0 ** -40]), rng.choice([5e-324, -1e-300, 0.0, -(2.0 ** -40)]), 'tiny'
    # outside the range: wrapped by the constructor (dyadic, so the wrap is exact)
    return rng.randrange(-720 * 8, 720 * 8) / 8, rng.randrange(-400 * 8, 400 * 8) / 8, 'wrapped'


def corrupt(rng, b, h):
    bad = [c for c in ' ailoAZ=_-.~é€0x\t' + ALPHABET[64] if c not in ALPHABET[b]] + ['ß', '٠', '１']
    pos = rng.randrange(len(h) + 1)
    c = rng.choice(bad)
    if rng.random() < 0.5 and h:
        return h[:pos % len(h)] + c + h[pos % len(h) + 1:]
    return h[:pos] + c + h[pos:]


def check(run):
    run.prove(MODULE, THEOREMS)
    run.source_tie(['SrcGeohash'], 'GeoVerif.Props.C11Src', ['GV.C11Src.' + t for t in (
        'decInner_generic', 'decOuter_generic', 'decodeCfg_generic', 'decodeNiemeyer_eq', 'encLoop_generic', 'encodeCfg_generic',
        'coordToNiemeyer_eq', 'subhashes_eq', 'niemeyerToGeobox_eq', 'getSurrounding_eq', 'loops_eq_of_wf', 'bases_eq',
        'src_decode_encode_contains', 'src_encode_shape', 'src_encode_centre', 'src_decode_rejects', 'src_subhashes_tile',
        'src_surrounding_adjacent')])
    rng = run.rng
    Coordinate, GeoBox, GeoPoint, GeoPolygon, G = _mods()

    def tag(ln, a):
        p = ln.split()
        return [f'{p[0]}:b{p[1]}:{"err" if a.startswith("ERR") else "ok"}']

    # ---- exhaustive: every cell of every base down to a fixed depth --------------------------------
    depths = {16: 3, 32: run.scale(2, 3), 64: 2}
    for b, depth in depths.items():
        cells = [''] + [h for L in range(1, depth + 1) for h in all_hashes(b, L)]
        lines = []
        for h in cells:
            t = tok(h)
            lines += [f'gh.dec {b} {t}', f'gh.cen {b} {t}', f'gh.box {b} {t}']
            if h:
                lines.append(f'gh.sur {b} {t}')
            if len(h) < depth:
                lines += [f'gh.sub {b} {t}', f'gh.tile {b} {t}']
            if len(h) <= 2 or rng.random() < 0.1:
                lines += [f'gh.gbox {b} {t}', f'gh.poly {b} {t}']
        run.run_cases(f'exhaustive-cells-b{b}', lines, impl, spec, tag=tag, known_key=known_key)
        # every corner / edge mid point / centre of every cell of the deepest level, encoded at every length ≤ depth
        lines = []
        deep = list(all_hashes(b, depth))
        if run.quick and len(deep) > 1000:
            deep = rng.sample(deep, 1000)
        for h in deep:
            x0, y0, x1, y1 = cell_rect(b, h)
            for (x, y) in ((x0, y0), (x1, y1), ((x0 + x1) / 2, y1), (x0, (y0 + y1) / 2), (x1, y0)):
                if -90 <= y <= 90:
                    L = rng.randint(1, depth)
                    lines.append(f'gh.rt {b} {depth} {rat(x)} {rat(y)}')
                    lines.append(f'gh.enc {b} {L} {rat(x)} {rat(y)}')
                    lines.append(f'gh.boxhas {b} {depth} {rat(x)} {rat(y)}')
        run.run_cases(f'exhaustive-cell-corners-b{b}', lines, impl, spec, tag=tag, known_key=known_key)
    run.exhaustive = True

    # ---- random coordinates at lengths 1..12 ---------------------------------------------------------
    n = run.scale(5000, 200000)
    lines, classes = [], {}
    for _ in range(n):
        b = rng.choice([16, 32, 64])
        x, y, cls = rand_coord(rng, b)
        L = rng.randint(1, 12) if rng.random() < 0.97 else 0
        op = rng.choice(['enc', 'enc', 'encp', 'rt', 'rt', 'boxhas'])
        ln = f'gh.{op} {b} {L} {rat(x)} {rat(y)}'
        classes[ln] = cls
        lines.append(ln)
    run.run_cases('random-coordinates', lines, impl, spec, known_key=known_key,
                  tag=lambda ln, a: [f'coord:{classes[ln]}', f'{ln.split()[0]}:{"err" if a.startswith("ERR") else "ok"}'])

    # ---- coordinates that carry Z and / or M (0.0 included): the geohash of their longitude / latitude ----------
    n = run.scale(600, 12000)
    lines = []
    for _ in range(n):
        b = rng.choice([16, 32, 64])
        x, y, _cls = rand_coord(rng, b)
        L = rng.randint(1, 12) if rng.random() < 0.95 else 0

        def extra():
            r = rng.random()
            return '-' if r < 0.3 else '0' if r < 0.5 else rat(rng.choice([-0.0, 1.0, -12.5, 8848.0, 1e-3, 1.7e9, rng.uniform(-1e4, 1e4)]))
        z, m = extra(), extra()
        if z == m == '-':
            z = '0'
        lines.append(f'gh.enczm {b} {L} {rat(x)} {rat(y)} {z} {m}')
    run.run_cases('enc-zm', lines, impl, spec, known_key=known_key,
                  tag=lambda ln, a: [f'enczm:z{"-" if ln.split()[5] == "-" else "0" if F(ln.split()[5]) == 0 else "v"}'
                                     f':m{"-" if ln.split()[6] == "-" else "0" if F(ln.split()[6]) == 0 else "v"}'
                                     f':{"err" if a.startswith("ERR") else "ok"}'])

    # ---- random deep cells: decode / centre / children / boxes / neighbours at lengths 1..12 ---------
    n = run.scale(1500, 40000)
    lines = []
    for _ in range(n):
        b = rng.choice([16, 32, 64])
        h = rand_hash(rng, b, rng.randint(1, 12))
        if rng.random() < 0.15:   # easternmost / northernmost columns (F11a lives there)
            L = len(h)
            i, j, nlon, nlat = cell_of_hash(b, h)
            h = hash_of_cell(b, L, 2 ** nlon - 1 if rng.random() < 0.7 else i, j)
        op = rng.choice(['dec', 'cen', 'box', 'gbox', 'poly', 'sur', 'sub', 'tile'])
        lines.append(f'gh.{op} {b} {tok(h)}')
    run.run_cases('random-deep-cells', lines, impl, spec, tag=tag, known_key=known_key)

    # ---- hash_coordinates ----------------------------------------------------------------------------
    n = run.scale(300, 6000)
    lines = []
    for _ in range(n):
        b = rng.choice([16, 32, 64])
        L = rng.randint(1, 6)
        pts = []
        for _ in range(rng.randint(0, 12)):
            if pts and rng.random() < 0.4:
                x, y = rng.choice(pts)
                if rng.random() < 0.5:      # same cell, other coordinate
                    r = cell_rect(b, G._coord_to_niemeyer(Coordinate(x, y), L, b))
                    x = float(r[0] + (r[2] - r[0]) * F(rng.randrange(1, 8), 8))
                    y = float(max(F(-90), min(F(90), r[1] + (r[3] - r[1]) * F(rng.randrange(1, 8), 8))))
            else:
                x, y, _ = rand_coord(rng, b)
            pts.append((x, y))
        lines.append(f'gh.hc {b} {L} {rng.choice(["len", "ids"])} ' + ' '.join(f'{rat(x)} {rat(y)}' for x, y in pts))
    run.run_cases('hash_coordinates', lines, impl, spec, tag=lambda ln, a: ['hc:' + ln.split()[3]])

    # ---- malformed: characters outside the alphabet, unknown bases -----------------------------------
    n = run.scale(1200, 20000)
    lines = []
    for _ in range(n):
        b = rng.choice([16, 32, 64])
        h = corrupt(rng, b, rand_hash(rng, b, rng.randint(0, 8)))
        lines.append(f'gh.{rng.choice(["dec", "dec", "box", "gbox", "poly", "sur", "cen"])} {b} {tok(h)}')
    for b in (0, 8, 10, 33, 128):
        lines += [f'gh.dec {b} s01', f'gh.enc {b} 3 1 1', f'gh.sub {b} s01', f'gh.box {b} s0']
    run.run_cases('invalid-characters', lines, impl, spec, tag=tag, known_key=known_key)

    return run.finish(
        rule='every cell of bases 16/32/64 to depth 3/2(3 thorough)/2 (decode, centre re-encode, box, neighbours, '
             'children + tiling, all corner/edge points re-encoded) — exhaustive; random coordinates (uniform, exactly '
             'on cell edges, one ulp off, range limits, wrapped) at lengths 0..12; random cells at lengths 1..12; '
             'coordinates carrying Z and/or M (absent / 0.0 / a value) through the codec and the hasher; hash_coordinates groupings; corrupted hashes. A case is one protocol line; distinct by line.',
        assumptions=['binary64 arithmetic of the bisection is exact (all end points are k*180/2^n, n <= 44: theorem '
                     'float_exact_bound); comparisons of floats are exact',
                     'Coordinate normalisation is modelled by GV.normalize (C08)',
                     'coordinate ranges per base are data of the code (regenerated into Gen/Geohash.lean each run)'],
        checker_cmd='cd lean && lake build GeoVerif.Props.C11 && lake env lean .lake/audit/C11.lean  (#print axioms)')
