"""C18 — collection filters select exactly the members satisfying the per-shape predicate; bounds are the
union of member bounds; the hull wrapper hands every member vertex to the hull; list protocol.

Protocol lines (stream prefix `fc`):  fc.<op> <K> | <shape tokens> | <section> | ...
K = F (FeatureCollection) | T (Track).  The shape tokens are abstract records (see coll_util); everything a
per-shape method computes (x.intersects(q), x.contains(q), q.contains(x), x.bounds, vertex lists) is *measured
on the implementation* by the generator and travels in the line as a table indexed by shape id, so model,
spec and implementation see the same per-shape facts and can differ only in the collection-level logic.
Every answer ends with ` # <ids of the receiver after the call>` (non-mutation; the implementation side also
compares a deep snapshot and appends MUTATED).
"""
from datetime import date
from fractions import Fraction

import common
from common import tf
import coll_util as U
from c06 import _disjoint

MODULE = 'GeoVerif.Props.C18'
THEOREMS = ['GV.Coll.' + t for t in (
    'IsFilterOf.exact', 'mk_wf', 'rewrap_filter', 'filterByDt_inst', 'filterByDt_ival', 'filterByDt_other',
    'filterByIntersection_exact', 'filterContains_exact', 'filterContainedBy_exact', 'filterByProperty_exact',
    'filterByProperty_keyError', 'properties_datetime_start', 'bounds_is_union', 'vertsList_append', 'verts_mem',
    'verts_multi', 'len_eq', 'iter_eq', 'bool_iff', 'contains_iff', 'add_fc', 'add_mixed', 'add_track',
    'getIdx_nonneg', 'getIdx_neg', 'getIdx_out', 'getSlice_full', 'getSlice_step1', 'getSlice_reverse',
    'getSlice_step0', 'listEq_eq_by', 'listEqBy_iff', 'listEqBy_refl', 'listEqBy_symm', 'sameOrEq_symm', 'eqFC_refl',
    'eqFC_symm', 'eqFC_iff', 'eqColl_refl', 'eqColl_symm', 'eqColl_mixed',
    'add_fc_assoc', 'add_fc_empty', 'add_fc_len', 'add_fc_contains')]

BAD_DT = {'date': date(2020, 1, 1), 'str': '2020-01-01', 'none': None, 'int': 5}


# ---- implementation side ---------------------------------------------------------------------------

def _col(K, shapes):
    L = U.lib()
    return (L['FeatureCollection'] if K == 'F' else L['Track'])(shapes)      # `shapes` is the caller's list object


def _arg_flag(arg, shapes):
    """the constructor must leave the list it was handed as it was (same objects, same order)"""
    return '' if [id(x) for x in arg] == [id(x) for x in shapes] else ' !ARG-CHANGED'


_RECV = [None]      # the receiver(s) of the operation in progress: a result must not share their list objects


def _alias_flag(r):
    for c in _RECV[0] or ():
        if c is not None and (r is c or r.geoshapes is c.geoshapes):
            return ' !ALIAS'
    return ''


def _tag(r):
    n = type(r).__name__
    return {'FeatureCollection': 'F', 'Track': 'T'}.get(n, '?' + n)


def _ids(idmap, xs):
    return ' '.join(str(idmap.get(id(x), '?')) for x in xs)


def _show_plain(idmap, r):
    """tag + member ids only: reads no cached observation of `r` (so it can be shown again after the user changed it)"""
    s = _ids(idmap, r.geoshapes)
    return _tag(r) if not s else _tag(r) + ' ' + s


def _show_col(idmap, r):
    s = _ids(idmap, r.geoshapes)
    return (_tag(r) if not s else _tag(r) + ' ' + s) + U.stale(r) + _alias_flag(r)


def _query(tok):
    geom, dt = tok.split(';')
    return U.build_geom(geom, None if dt == 'n' else tuple(int(x) for x in dt.split(':')))


def _opt(tok):
    return None if tok == '-' else int(tok)


class _HullRecorder:
    """records the vertex list `convex_hull` (the wrapper, collections.py:69-89) hands to `_geometry.convex_hull`"""

    def __enter__(self):
        import geostructures.collections as gc
        self.gc, self.orig, self.args = gc, gc.convex_hull, None

        def rec(vertices):
            self.args = list(vertices)
            return self.orig(vertices)
        gc.convex_hull = rec
        return self

    def __exit__(self, *a):
        self.gc.convex_hull = self.orig


def impl_vertices(line):
    _op, secs = U.sections(line)
    shapes = [U.build_geom(g) for g in secs[0]]
    col = _col('F', shapes)
    with _HullRecorder() as r:
        col.convex_hull
    return ' '.join(f'{common.rat(c.longitude)},{common.rat(c.latitude)}' for c in r.args)


def _do(op, col, shapes, idmap, rest, toks):
    L = U.lib()
    if op == 'len':
        return str(len(col))
    if op == 'bool':
        return tf(bool(col))
    if op == 'iter':
        return _ids(idmap, [x for x in col])
    if op == 'in':
        it = U.Tok(rest[0][0])
        item = shapes[it.id] if it.id < len(shapes) else it.build()
        return tf(item in col)
    if op == 'fdt_inst':
        return _show_col(idmap, col.filter_by_dt(U.mkdt(rest[0][0])))
    if op == 'fdt_ival':
        return _show_col(idmap, col.filter_by_dt(L['TimeInterval'](U.mkdt(rest[0][0]), U.mkdt(rest[0][1]))))
    if op == 'fdt_bad':
        return _show_col(idmap, col.filter_by_dt(BAD_DT[rest[0][0]]))
    if op == 'fisect':
        return _show_col(idmap, col.filter_by_intersection(_query(rest[0][0])))
    if op == 'fcontains':
        return _show_col(idmap, col.filter_contains(_query(rest[0][0])))
    if op == 'fcontained':
        return _show_col(idmap, col.filter_contained_by(_query(rest[0][0])))
    if op == 'intersects':
        return tf(col.intersects(_query(rest[0][0] + ';' + rest[0][1])))
    if op == 'fprop':
        acc = set() if rest[1][0] == '-' else set(rest[1][0].split(','))
        return _show_col(idmap, col.filter_by_property(rest[0][0], lambda v: U.tok_of_val(v) in acc))
    if op == 'bounds':
        return ' '.join(common.rat(x) for x in col.bounds)
    if op == 'geospan':
        return common.rat(col.geospan)
    if op == 'getidx':
        return _ids(idmap, [col[int(rest[0][0])]])
    if op == 'getslice':
        r = col[slice(_opt(rest[0][0]), _opt(rest[0][1]), _opt(rest[0][2]))]
        if not isinstance(r, list):
            return '?' + type(r).__name__
        return ('list ' + _ids(idmap, r))
    raise ValueError('unknown op ' + op)


def impl_eq(line):
    """fc.eq K | shapes | K2 | shapes2 | ab|ba   ->   `<left == right> <left != right> # members of the first # of the second`
    A shape id that occurs more than once (in one operand or in both) is the *same object*.  K2: F / T (a collection of
    that class), L (the plain list of the members), N (not a collection: the first member, or None)."""
    _op, secs = U.sections(line)
    K, K2, order = secs[0][0], secs[2][0], secs[4][0]
    objs = {}

    def obj(t):
        if t.id not in objs:
            objs[t.id] = t.build()
        return objs[t.id]
    s1 = [obj(U.Tok(t)) for t in secs[1]]
    s2 = [obj(U.Tok(t)) for t in secs[3]]
    idmap = {id(o): i for i, o in objs.items()}
    a = _col(K, list(s1))
    if K2 in ('F', 'T'):
        b = _col(K2, list(s2))
        b_members = lambda: b.geoshapes
    else:
        b = list(s2) if K2 == 'L' else (s2[0] if s2 else None)
        b_members = lambda: s2
    before = (U.snapshot(a), [(id(x), U.geom_fp(x)) for x in b_members()])
    left, right = (a, b) if order == 'ab' else (b, a)
    ans = tf(left == right) + ' ' + tf(left != right)
    after = (U.snapshot(a), [(id(x), U.geom_fp(x)) for x in b_members()])
    return f'{ans} # {_ids(idmap, a.geoshapes)} # {_ids(idmap, b_members())}' + (' MUTATED' if before != after else '')


def impl(line):
    op, secs = U.sections(line)
    if op == 'vertices':
        return impl_vertices(line)
    if op == 'eq':
        return impl_eq(line)
    if op == 'hist':
        return impl_hist(line)
    K = secs[0][0]
    toks = [U.Tok(t) for t in secs[1]]
    shapes = [t.build() for t in toks]
    idmap = {id(s): t.id for s, t in zip(shapes, toks)}
    arg = list(shapes)
    col = _col(K, arg)                         # a Track of time-less shapes raises here -> ERR:Value
    rest = secs[2:]
    _RECV[0] = (col,)
    if op == 'add':
        toks2 = [U.Tok(t) for t in rest[1]]
        shapes2 = [t.build() for t in toks2]
        idmap.update({id(s): t.id for s, t in zip(shapes2, toks2)})
        arg2 = list(shapes2)
        col2 = _col(rest[0][0], arg2)
        _RECV[0] = (col, col2)
        U.warm(col)
        U.warm(col2)
        b1, b2 = U.snapshot(col), U.snapshot(col2)
        try:
            ans = _show_col(idmap, col + col2)
        except Exception as e:  # noqa
            ans = common.err_name(e)
        out = f'{ans} # {_ids(idmap, col.geoshapes)} # {_ids(idmap, col2.geoshapes)}'
        return out + (' MUTATED' if (b1, b2) != (U.snapshot(col), U.snapshot(col2)) else '') + \
            _arg_flag(arg, shapes) + _arg_flag(arg2, shapes2)
    U.warm(col)
    before = U.snapshot(col)
    try:
        ans = _do(op, col, shapes, idmap, rest, toks)
    except Exception as e:  # noqa
        ans = common.err_name(e)
    out = f'{ans} # {_ids(idmap, col.geoshapes)}'
    return out + (' MUTATED' if before != U.snapshot(col) else '') + _arg_flag(arg, shapes)


# ---- observe - mutate - observe histories (fc.hist) -------------------------------------------------------------------
# fc.hist K A | shapes || step || step ...      (see Drv/C18.lean)
#   mutations by the *user* (plain Python list operations / in-place member updates, never library calls):
#     m.<g|a|s>.<set i tok | pop i | append tok.. | insert i tok | slice a b tok.. | reverse | sortdesc | clear>
#       g = collection.geoshapes, a = the list object handed to the constructor, s = sibling.geoshapes
#     setdt <id> <dt> | setprop <id> <k> <v>
#   sib K2 A2 (second collection from the same list) | copy (collection.copy())
#   observations: o.<any fc op> ... | in2 <item id> <b:table of (x is item or x == item)> | eqfresh | arg | sibiter

def _hist_split(line):
    head, *steps = line.split(' || ')
    _op, secs = U.sections(head)
    return secs[0][0], secs[0][1], secs[1], [st.split() for st in steps]


def _step_rest(ts):
    """tokens after `o.<op>` -> the sections the single-operation handlers take"""
    if not ts:
        return []
    secs, cur = [], []
    for t in ts:
        if t == '|':
            secs.append(cur)
            cur = []
        else:
            cur.append(t)
    return secs + [cur]


def _list_mut(lst, mut, a, obj):
    if mut == 'set':
        lst[int(a[0])] = obj(a[1])
    elif mut == 'pop':
        lst.pop(int(a[0]))
    elif mut == 'append':
        lst.extend(obj(t) for t in a)
    elif mut == 'insert':
        lst.insert(int(a[0]), obj(a[1]))
    elif mut == 'slice':
        lst[int(a[0]):int(a[1])] = [obj(t) for t in a[2:]]
    elif mut == 'reverse':
        lst.reverse()
    elif mut == 'sortdesc':
        lst.sort(key=lambda x: x.start, reverse=True)
    elif mut == 'clear':
        lst.clear()
    else:
        raise ValueError('unknown mutation ' + mut)


class HistImpl:
    """the real objects of one history; used by impl() and (to measure the per-shape tables) by the generator"""

    def __init__(self, K, tokens):
        self.toks = [U.Tok(t) for t in tokens]
        self.shapes = [t.build() for t in self.toks]
        self.objs = {t.id: s for t, s in zip(self.toks, self.shapes)}
        self.idmap = {id(s): t.id for t, s in zip(self.toks, self.shapes)}
        self.arg = list(self.shapes)
        self.col = _col(K, self.arg)
        self.flag = _arg_flag(self.arg, self.shapes)
        self.sib = None

    def obj(self, tok):
        t = U.Tok(tok)
        if t.id not in self.objs:
            self.objs[t.id] = t.build()
            self.idmap[id(self.objs[t.id])] = t.id
        return self.objs[t.id]

    def step(self, st):
        cmd, a = st[0], st[1:]
        col = self.col
        if cmd == 'setdt':
            self.objs[int(a[0])].set_dt(U.mk_dt(None if a[1] == 'n' else tuple(int(x) for x in a[1].split(':'))))
            return '-'
        if cmd == 'setprop':
            self.objs[int(a[0])].set_property(a[1], U.val_of(a[2]))
            return '-'
        if cmd == 'sib':
            self.sib = None
            self.sib = _col(a[0], self.arg)
            return _show_plain(self.idmap, self.sib)
        if cmd == 'copy':
            self.sib = None
            self.sib = col.copy()
            return _show_plain(self.idmap, self.sib) + (' !ALIAS' if self.sib.geoshapes is col.geoshapes else '')
        if cmd == 'arg':
            return 'A ' + _ids(self.idmap, self.arg)
        if cmd == 'sibiter':
            return 'none' if self.sib is None else _show_plain(self.idmap, self.sib)
        if cmd.startswith('m.'):
            _m, t, mut = cmd.split('.')
            lst = {'g': col.geoshapes, 'a': self.arg, 's': None if self.sib is None else self.sib.geoshapes}[t]
            _list_mut(lst, mut, a, self.obj)
            return '-'
        before = U.snapshot(col)
        _RECV[0] = (col,)
        try:
            if cmd == 'in2':
                ans = tf(self.obj(a[0]) in col)
            elif cmd == 'eqfresh':
                ans = tf(col == type(col)(list(col.geoshapes)) and not (col != type(col)(list(col.geoshapes))))
            else:
                ans = _do(cmd[2:], col, self.shapes, self.idmap, _step_rest(a), self.toks)
        except Exception as e:  # noqa
            ans = common.err_name(e)
        out = f'{ans} # {_ids(self.idmap, col.geoshapes)}'
        return out + (' MUTATED' if before != U.snapshot(col) else '')


def impl_hist(line):
    K, _A, tokens, steps = _hist_split(line)
    h = HistImpl(K, tokens)                    # a Track of time-less shapes raises here -> ERR:Value
    _RECV[0] = None
    U.warm(h.col)
    outs = [_show_col(h.idmap, h.col)]
    for st in steps:
        try:
            outs.append(h.step(st))
        except Exception as e:  # noqa
            outs.append(common.err_name(e))
    return ' ; '.join(outs) + h.flag


class HistSpec:
    """the statement's reading of a history: every observation answers what a collection over the *current* members
    answers.  List objects are real Python lists, so aliasing is literal: a FeatureCollection that keeps the caller's
    list (A = 1, as measured; nothing in the statement forbids or demands it) *is* that list; a Track never is (its
    members are a chronological copy taken at construction)."""

    def __init__(self, K, A, tokens):
        self.K = K
        self.toks = {}
        self.a = [self.tok(t) for t in tokens]
        recv = _receiver(K, self.a)
        if recv is None:
            raise ValueError('ERR:Value')
        self.g = self.a if (K == 'F' and A == '1') else recv
        self.s = self.sK = None

    def tok(self, t):
        t = U.Tok(t)
        return self.toks.setdefault(t.id, t)

    def step(self, st):
        cmd, a = st[0], st[1:]
        if cmd == 'setdt':
            self.toks[int(a[0])].dt = None if a[1] == 'n' else tuple(int(x) for x in a[1].split(':'))
            return '-'
        if cmd == 'setprop':
            t = self.toks[int(a[0])]
            t.props = [(k, a[2] if k == a[1] else v) for k, v in t.props] + ([] if a[1] in dict(t.props) else [(a[1], a[2])])
            return '-'
        if cmd in ('sib', 'copy'):
            K2 = a[0] if cmd == 'sib' else self.K
            src = self.a if cmd == 'sib' else self.g
            self.s, self.sK = None, K2
            recv = _receiver(K2, src)
            if recv is None:
                return 'ERR:Value'
            self.s = src if (cmd == 'sib' and K2 == 'F' and a[1] == '1') else list(recv)
            return _coll(K2, self.s)
        if cmd == 'arg':
            return 'A ' + ' '.join(str(t.id) for t in self.a)
        if cmd == 'sibiter':
            return 'none' if self.s is None else _coll(self.sK, self.s)
        if cmd.startswith('m.'):
            _m, t, mut = cmd.split('.')
            lst = {'g': self.g, 'a': self.a, 's': self.s}[t]
            try:
                if mut == 'sortdesc':
                    lst.sort(key=lambda x: x.start, reverse=True)
                else:
                    _list_mut(lst, mut, a, self.tok)
            except IndexError:
                return 'ERR:Index'
            return '-'
        src = ' '.join(str(t.id) for t in self.g)
        if cmd == 'in2':
            tbl = _bits(a[1])
            return f'{tf(any(tbl[t.id] for t in self.g))} # {src}'     # some member is the item or equals it
        if cmd == 'eqfresh':
            return f'T # {src}'
        return _spec_on(self.K, self.g, cmd[2:], _step_rest(a))


def spec_hist(line):
    K, A, tokens, steps = _hist_split(line)
    try:
        h = HistSpec(K, A, tokens)
    except ValueError as e:
        return str(e)
    outs = [_coll(K, h.g)]
    for st in steps:
        outs.append(h.step(st) or '?')
    return ' ; '.join(outs)


# ---- the property, stated independently of the model ----------------------------------------------

def _receiver(K, toks):
    """members of a freshly built collection in the order the statement demands (None: construction refuses)"""
    if K == 'F':
        return list(toks)
    if any(t.dt is None for t in toks):
        return None
    return U.stable_by_start(toks)


def _coll(K, members):
    return K if not members else K + ' ' + ' '.join(str(t.id) for t in members)


def _bits(tok):
    assert tok.startswith('b:')
    return [c == 'T' for c in tok[2:]]


def spec(line):
    op, secs = U.sections(line)
    if op == 'hist':
        return spec_hist(line)
    if op in ('vertices', 'intersects', 'geospan'):
        return None                              # judged through the model (and np-hull) only
    K = secs[0][0]
    toks = [U.Tok(t) for t in secs[1]]
    recv = _receiver(K, toks)
    if recv is None:
        return 'ERR:Value'
    return _spec_on(K, recv, op, secs[2:])


def _spec_on(K, recv, op, rest):
    """what the statement demands of operation `op` on a collection of class K whose members are `recv` (in this order)"""
    ids = [str(t.id) for t in recv]
    src = ' '.join(ids)

    def out(ans):
        return f'{ans} # {src}'

    def filt(pred):
        # same class, exactly the members satisfying the predicate, original order (a Track: chronological, which is
        # the original order unless the user tampered with the member list; it refuses time-less shapes)
        keep = [t for t in recv if pred(t)]
        if K == 'T':
            if any(t.dt is None for t in keep):
                return out('ERR:Value')
            keep = U.stable_by_start(keep)
        return out(_coll(K, keep))
    if op == 'intersects':
        return None
    if op == 'len':
        return out(str(len(recv)))
    if op == 'bool':
        return out(tf(len(recv) > 0))
    if op == 'iter':
        return out(src)
    if op == 'in':
        it = U.Tok(rest[0][0])
        return out(tf(any(t.id == it.id or t.eqc == it.eqc for t in recv)))
    if op == 'fdt_inst':
        v = int(rest[0][0].partition('@')[0])
        return filt(lambda t: t.dt is not None and t.dt == (v, v))         # I6: equals the instant
    if op == 'fdt_ival':
        a, b = (int(x.partition('@')[0]) for x in rest[0])
        if b < a:
            return None
        return filt(lambda t: t.dt is not None and not _disjoint((a, b), t.dt))
    if op == 'fdt_bad':
        return out('ERR:Value')
    if op in ('fisect', 'fcontains'):
        xq = _bits(rest[1][0])
        return filt(lambda t: xq[t.id])                                    # x.intersects(q) / x.contains(q)
    if op == 'fcontained':
        qx = _bits(rest[1][1])
        return filt(lambda t: qx[t.id])                                    # q.contains(x)
    if op == 'fprop':
        key = rest[0][0]
        acc = set() if rest[1][0] == '-' else set(rest[1][0].split(','))
        if any(key not in t.properties() for t in recv):
            return out('ERR:Key')
        return filt(lambda t: t.properties()[key] in acc)
    if op == 'bounds':
        if not recv:
            return out('ERR:Value')
        boxes = [[Fraction(x) for x in rest[0][t.id].split(',')] for t in recv]
        b = (min(x[0] for x in boxes), min(x[1] for x in boxes), max(x[2] for x in boxes), max(x[3] for x in boxes))
        return out(' '.join(common.rat(x) for x in b))
    if op == 'add':
        K2 = rest[0][0]
        recv2 = _receiver(K2, [U.Tok(t) for t in rest[1]])
        if recv2 is None:
            return 'ERR:Value'
        src2 = ' '.join(str(t.id) for t in recv2)
        if K != K2:
            ans = 'ERR:Value'
        elif K == 'F':
            ans = _coll('F', recv + recv2)
        else:
            ans = _coll('T', U.stable_by_start(recv + recv2))
        return f'{ans} # {src} # {src2}'
    if op == 'getidx':
        try:
            return out(ids[int(rest[0][0])])
        except IndexError:
            return out('ERR:Index')
    if op == 'getslice':
        try:
            return out('list ' + ' '.join(ids[slice(_opt(rest[0][0]), _opt(rest[0][1]), _opt(rest[0][2]))]))
        except ValueError:
            return out('ERR:Value')
    return None


# ---- np-hull: "the convex hull contains every member vertex", judged by exact arithmetic ---------------

def _member_vertices(shape):
    """every vertex of a member, enumerated independently of the wrapper (multi-shapes: all members)"""
    if hasattr(shape, 'geoshapes'):
        return [v for m in shape.geoshapes for v in _member_vertices(m)]
    if hasattr(shape, 'vertices'):
        return list(shape.vertices)
    if hasattr(shape, 'bounding_coords'):
        return list(shape.bounding_coords())
    return [shape.centroid]


def _cross(o, a, b):
    return (a[0] - o[0]) * (b[1] - o[1]) - (a[1] - o[1]) * (b[0] - o[0])


def impl_hull(line):
    _op, secs = U.sections(line)
    shapes = [U.build_geom(g) for g in secs[0]]
    hull = _col('F', shapes).convex_hull
    ring = [(Fraction(c.longitude), Fraction(c.latitude)) for c in hull.bounding_coords()]
    if ring[0] != ring[-1]:
        ring.append(ring[0])
    edges = list(zip(ring, ring[1:]))
    area2 = sum(a[0] * b[1] - b[0] * a[1] for a, b in edges)
    pts = [(Fraction(v.longitude), Fraction(v.latitude)) for s in shapes for v in _member_vertices(s)]
    for p in pts:
        if area2 != 0:
            ok = all(_cross(a, b, p) * area2 >= 0 for a, b in edges)
        else:   # degenerate hull (collinear members): on the carrier line and inside the ring's box
            xs, ys = [q[0] for q in ring], [q[1] for q in ring]
            ok = all(_cross(a, b, p) == 0 for a, b in edges) and min(xs) <= p[0] <= max(xs) and min(ys) <= p[1] <= max(ys)
        if not ok:
            return f'F vertex {float(p[0])},{float(p[1])} outside'
    return 'T'


def impl_for(line):
    return impl_hull if line.startswith('np-hull') else impl


def spec_for(line):
    return (lambda _l: 'T') if line.startswith('np-hull') else spec


# ---- generators ------------------------------------------------------------------------------------

def rand_geom(rng, kinds=None):
    g = lambda: rng.choice([0, 1, 2, 3, 4, 5, 6, 1.5, 2.5])  # noqa: E731
    kind = rng.choice(kinds or ['P', 'P', 'P', 'B', 'B', 'G', 'L', 'C', 'E', 'R', 'MP', 'ML', 'MG'])
    f = lambda v: ('%g' % v)  # noqa: E731
    if kind == 'P':
        return f'P_{f(g())}_{f(g())}'
    if kind == 'B':
        w, e = sorted(rng.sample([0, 1, 2, 3, 4, 5, 6], 2))
        s, n = sorted(rng.sample([0, 1, 2, 3, 4, 5, 6], 2))
        return f'B_{w}_{n}_{e}_{s}'
    if kind in ('G', 'MG'):
        def tri():
            while True:
                p = [(rng.randrange(7), rng.randrange(7)) for _ in range(3)]
                if _cross(*p) != 0:
                    return '_'.join(f'{x}_{y}' for x, y in p)
        return 'G_' + tri() if kind == 'G' else 'MG_' + '+'.join(tri() for _ in range(rng.choice([1, 2])))
    if kind in ('L', 'ML'):
        def ls():
            return '_'.join(f'{f(g())}_{f(g())}' for _ in range(rng.choice([2, 3])))
        return 'L_' + ls() if kind == 'L' else 'ML_' + '+'.join(ls() for _ in range(rng.choice([1, 2])))
    if kind == 'C':
        return f'C_{f(g())}_{f(g())}_{rng.choice([20000, 120000, 300000])}'
    if kind == 'E':
        return f'E_{f(g())}_{f(g())}_{rng.choice([90000, 200000])}_{rng.choice([30000, 60000])}_{rng.choice([0, 30, 90])}'
    if kind == 'R':
        return f'R_{f(g())}_{f(g())}_{rng.choice([20000, 50000])}_{rng.choice([90000, 250000])}'
    if kind == 'MP':
        return 'MP_' + '_'.join(f'{f(g())}_{f(g())}' for _ in range(rng.choice([1, 2, 3])))
    if kind == 'MM':
        return 'MM_' + '_'.join(f'{f(g())}_{f(g())}' for _ in range(rng.choice([2, 3])))
    raise ValueError(kind)


# ---- the globe world: curved shapes where their planar shortcuts are weakest ----------------------------------------
# large circles / ellipses / rings far from the equator (their `.bounds` under-estimate the poleward and eastward
# extent) and across the antimeridian (bounds with min_lon > max_lon), with members and queries placed on both sides of
# the rim; plus the coordinate sentinels (lon -180, the poles).  The measured truth tables stay the reference, so any
# collection-level shortcut (pre-filter on boxes, planar distance …) shows up as a disagreement.

def _dest(lon, lat, bearing, dist, radius=6371000.0):
    import math
    p1, l1, th, d = math.radians(lat), math.radians(lon), math.radians(bearing), dist / radius
    p2 = math.asin(max(-1.0, min(1.0, math.sin(p1) * math.cos(d) + math.cos(p1) * math.sin(d) * math.cos(th))))
    l2 = l1 + math.atan2(math.sin(th) * math.sin(d) * math.cos(p1), math.cos(d) - math.sin(p1) * math.sin(p2))
    return round((math.degrees(l2) + 540.0) % 360.0 - 180.0, 6), round(math.degrees(p2), 6)


def _wrap(lon):
    return round((lon + 540.0) % 360.0 - 180.0, 6)


class Globe:
    CENTRES = [(19.0, 69.6), (-150.0, 75.0), (30.0, -72.0), (0.0, 82.0), (179.9, 10.0), (-179.95, 65.0), (179.5, -40.0),
               (180.0, 0.0), (10.0, 45.0)]

    def __init__(self, rng):
        self.lon, self.lat = rng.choice(self.CENTRES)
        self.r = rng.choice([50_000, 200_000, 200_000, 400_000])

    def pt(self, rng):
        if rng.random() < 0.04:
            return rng.choice([(-180.0, self.lat), (180.0, self.lat), (self.lon, 90.0), (self.lon, -90.0)])
        b = rng.choice([0, 0, 45, 85, 90, 90, 135, 180, 270, 275, 315, rng.uniform(0, 360)])
        d = self.r * rng.choice([0, 0.5, 0.9, 0.99, 0.995, 0.9975, 1.0025, 1.01, 1.5])
        return _dest(self.lon, self.lat, b, d)

    def geom(self, rng, kinds=None):
        kind = rng.choice(kinds or ['P', 'P', 'P', 'P', 'B', 'L', 'G', 'C', 'C', 'E', 'R', 'MP'])
        f = repr
        if kind == 'P':
            x, y = self.pt(rng)
            return f'P_{f(x)}_{f(y)}'
        if kind == 'B':
            (x, y), a = self.pt(rng), rng.choice([0.05, 0.2, 0.5])
            n, so = min(90.0, round(y + a, 6)), max(-90.0, round(y - a, 6))
            return f'B_{f(_wrap(x - 2 * a))}_{f(n)}_{f(_wrap(x + 2 * a))}_{f(so)}'
        if kind == 'L':
            return 'L_' + '_'.join(f'{f(x)}_{f(y)}' for x, y in (self.pt(rng) for _ in range(rng.choice([2, 3]))))
        if kind == 'G':
            for _ in range(20):
                p = [self.pt(rng) for _ in range(3)]
                if abs(_cross(*p)) > 1e-6 and max(abs(a[0] - b[0]) for a in p for b in p) < 180:
                    return 'G_' + '_'.join(f'{f(x)}_{f(y)}' for x, y in p)
            return self.geom(rng, ['P'])
        big = rng.random() < 0.6
        (x, y), r = ((self.lon, self.lat), self.r) if big else (self.pt(rng), self.r // 10)
        if abs(y) > 89:
            y = 89.0 if y > 0 else -89.0
        if kind == 'C':
            return f'C_{f(x)}_{f(y)}_{r}'
        if kind == 'E':
            return f'E_{f(x)}_{f(y)}_{r}_{r // 2}_{rng.choice([0, 30, 90])}'
        if kind == 'R':
            return f'R_{f(x)}_{f(y)}_{r // 3}_{r}'
        if kind == 'MP':
            return 'MP_' + '_'.join(f'{f(x)}_{f(y)}' for x, y in (self.pt(rng) for _ in range(rng.choice([1, 2, 3]))))
        raise ValueError(kind)

    def query(self, rng):
        if rng.random() < 0.5:
            return self.geom(rng, ['C', 'C', 'E', 'R'])
        return self.geom(rng, ['P', 'P', 'B', 'L', 'C'])


def rand_dt(rng, p_none):
    r = rng.random()
    if r < p_none:
        return None
    nt = 8
    if rng.random() < 0.12:
        # sentinel bounds: open-ended (end = datetime.max), since-forever (start = datetime.min), eternal, and the
        # two extreme instants
        t = U.T(rng.randrange(nt))
        return rng.choice([(t, U.MAX_US), (t, U.MAX_US), (U.MIN_US, t), (U.MIN_US, t), (U.MIN_US, U.MAX_US),
                           (U.MAX_US, U.MAX_US), (U.MIN_US, U.MIN_US)])
    if r < p_none + (1 - p_none) * 0.45:
        s = rng.randrange(nt)
        return (U.T(s), U.T(s))
    if rng.random() < 0.2:
        return (U.T(0), U.T(nt - 1))                 # long: starts early, ends late
    s = rng.randrange(nt - 1)
    e = rng.randrange(s + 1, nt)
    off = rng.choice([0, 0, 0, 1, 500_000])          # sub-tick offsets too
    return (U.T(s) + off, U.T(e) + off)


def rand_props(rng, all_c):
    props = []
    if all_c or rng.random() < 0.7:
        v = f'u{rng.randrange(len(U.VALS))}' if rng.random() < 0.9 else f't{U.T(rng.randrange(8))}'
        props.append(('c', v))
    if rng.random() < 0.3:
        props.append(('n', f'u{rng.randrange(len(U.VALS))}'))
    if rng.random() < 0.06:
        props.append(('datetime_start', f'u{rng.randrange(len(U.VALS))}'))   # shadowed by the real start when timed
    rng.shuffle(props)
    return props


def rand_specs(rng, n, p_none, all_c, geomf=None):
    geomf = geomf or rand_geom
    specs = []
    for _ in range(n):
        if specs and rng.random() < 0.15:
            g, dt, props = rng.choice(specs)         # an equal but distinct object
            specs.append((g, dt, list(props)))
        else:
            specs.append((geomf(rng), rand_dt(rng, p_none), rand_props(rng, all_c)))
    return specs


def inst_tok(rng, v):
    r = rng.random()
    if U.near_sentinel(v):
        return str(v) if r < 0.6 else f'{v}@n'
    if r < 0.5:
        return str(v)
    if r < 0.75:
        return f'{v}@n'
    return f'{v}@o{rng.choice([-720, -330, -60, 60, 345, 840])}'


def _table(shapes, fn):
    return 'b:' + ''.join(tf(fn(x)) for x in shapes)


def scenario_lines(rng, K, n, hist, world=None):
    """all op lines for one random collection; returns (lines, geospan_lines)"""
    p_none = 0.3 if K == 'F' else (0.0 if rng.random() < 0.9 else 0.1)
    all_c = rng.random() < 0.7
    geomf = world.geom if world else rand_geom
    specs = rand_specs(rng, n, p_none, all_c, geomf)
    toks, shapes = U.make_tokens(specs)
    head = f'{K} | ' + ' '.join(toks)
    lines, span = [], []
    add = lambda op, tail=None: lines.append(f'fc.{op} {head}' + ('' if tail is None else f' | {tail}'))  # noqa: E731
    for op in ('len', 'bool', 'iter'):
        add(op)
    # time filters
    ticks = sorted({d for _g, dt, _p in specs if dt for d in dt}) or [U.T(0)]
    extra = [U.T(rng.randrange(9)) + rng.choice([0, 1])] + ([rng.choice([U.MIN_US, U.MAX_US])] if rng.random() < 0.25 else [])
    for v in rng.sample(ticks, min(2, len(ticks))) + extra:
        add('fdt_inst', inst_tok(rng, v))
    for _ in range(2):
        a, b = sorted(rng.choice(ticks + [U.T(rng.randrange(9)), rng.choice([U.MIN_US, U.MAX_US, U.T(4)])]) for _ in range(2))
        add('fdt_ival', f'{inst_tok(rng, a)} {inst_tok(rng, b)}')
    add('fdt_bad', rng.choice(sorted(BAD_DT)))
    # shape queries: tables measured on the implementation, in both argument orders
    for _ in range(3 if world else 2):
        if world:
            qg = world.query(rng)
        else:
            qg = rand_geom(rng, ['P', 'P', 'B', 'B', 'G', 'C', 'L', 'MP']) if rng.random() < 0.7 else \
                rng.choice(['B_0_6_6_0', 'B_-1_7_7_-1', 'B_0_6_3_0', 'C_3_3_400000'])
        if shapes and rng.random() < 0.3:
            qg = rng.choice(specs)[0]
        qdt = rand_dt(rng, 0.5)
        q = U.build_geom(qg, qdt)
        try:
            ixq, iqx = _table(shapes, lambda x: x.intersects(q)), _table(shapes, lambda x: q.intersects(x))
            cxq, cqx = _table(shapes, lambda x: x.contains(q)), _table(shapes, lambda x: q.contains(x))
        except Exception as e:  # noqa
            hist['gen:predicate-raises:' + type(e).__name__] += 1
            continue
        qt = f'{qg};{U.show_dt(qdt)}'
        add('fisect', f'{qt} | {ixq} {iqx}')
        add('fcontains', f'{qt} | {cxq} {cqx}')
        add('fcontained', f'{qt} | {cxq} {cqx}')
        add('intersects', f'{qg} {U.show_dt(qdt)} | {ixq}')
        hist['gen:contains-asymmetric' if cxq != cqx else 'gen:contains-symmetric'] += 1
    # property filters
    seen = sorted({v for _g, _d, props in specs for k, v in props if k == 'c'})
    for _ in range(2):
        acc = [v for v in seen if rng.random() < 0.5] + ([f'u{rng.randrange(len(U.VALS))}'] if rng.random() < 0.3 else [])
        add('fprop', f'c | {",".join(sorted(set(acc))) or "-"}')
    starts = sorted({f't{dt[0]}' for _g, dt, _p in specs if dt})
    acc = [v for v in starts if rng.random() < 0.5] + [f'u{rng.randrange(len(U.VALS))}']
    add('fprop', f'{rng.choice(["datetime_start", "datetime_end", "n", "missing"])} | {",".join(acc)}')
    # bounds
    try:
        boxes = ' '.join(','.join(common.rat(v) for v in x.bounds) for x in shapes)
        add('bounds', boxes)
        span.append(f'fc.geospan {head} | {boxes}')
    except Exception as e:  # noqa
        hist['gen:bounds-raises:' + type(e).__name__] += 1
    # membership: a member, an equal copy, a stranger
    items = []
    if toks:
        items.append(rng.choice(toks))
        g, dt, props = rng.choice(specs)
        items.append((g, dt, props))
    items.append((geomf(rng), rand_dt(rng, 0.3), []))
    for it in items:
        if isinstance(it, str):
            add('in', it)
            continue
        x = U.build_geom(it[0], it[1])
        eqc = next((int(t.split(';')[1]) for t, s in zip(toks, shapes) if s == x), n)
        lon, lat = x.centroid.to_float()[:2]
        add('in', f'{n};{eqc};{it[0]};{U.show_dt(it[1])};-;{common.rat(lon)},{common.rat(lat)}')
    # concatenation
    K2 = K if rng.random() < 0.75 else ('T' if K == 'F' else 'F')
    m = rng.randrange(0, 5)
    specs2 = rand_specs(rng, m, 0.3 if K2 == 'F' else (0.0 if rng.random() < 0.9 else 0.2), False, geomf)
    if specs and specs2 and rng.random() < 0.4:
        specs2[0] = specs[0]
    both, _ = U.make_tokens(specs + specs2)
    lines.append(f'fc.add {K} | {" ".join(both[:n])} | {K2} | {" ".join(both[n:])}')
    # indexing (FeatureCollection; Track.__getitem__ is C17's datetime slicing, I10)
    if K == 'F':
        for i in rng.sample(range(-n - 2, n + 2), min(4, 2 * n + 4)):
            add('getidx', str(i))
        for _ in range(4):
            o = lambda: rng.choice(['-', '-', str(rng.randrange(-n - 2, n + 3))])  # noqa: E731
            add('getslice', f'{o()} {o()} {rng.choice(["-", "-", "1", "2", "-1", "-2", "3", "0"])}')
    return lines, span


def hist_line(rng, K, hist):
    """one observe - mutate - observe history.  The generator walks the real objects (to measure the per-shape tables
    at every observation: they change with in-place member updates) and the statement's state machine (to know the
    current lengths); neither reads the collection under test."""
    n, m = rng.randrange(1, 7), 4
    world = Globe(rng) if rng.random() < 0.15 else None
    specs = rand_specs(rng, n + m, 0.0 if K == 'T' else 0.3, True, world.geom if world else None)
    toks, _ = U.make_tokens(specs)
    try:
        h = HistImpl(K, toks[:n])
    except Exception:  # noqa
        return None
    pool = [h.obj(t) for t in toks[n:]]                                  # shapes the user will put in later
    everyone = h.shapes + pool
    A = '1' if h.col.geoshapes is h.arg else '0'
    probe = []
    AF = '1' if _col('F', probe).geoshapes is probe else '0'             # does a FeatureCollection keep the caller's list?
    sp = HistSpec(K, A, toks[:n])
    steps = []
    mutated = [False]
    dirty = set()       # ids updated in place: their tokens are stale and are not used to (re)introduce them

    def do(st):
        steps.append(st)
        try:
            h.step(st.split())
        except Exception:  # noqa   (raises on the implementation: the step stays in the history)
            pass
        sp.step(st.split())

    items = [toks[rng.randrange(n)], toks[n], toks[n + 1]] + ([toks[rng.randrange(n)]] if n > 1 else [])
    qg = (world.query(rng) if world else rand_geom(rng, ['P', 'B', 'B', 'C', 'G']))
    qdt = rand_dt(rng, 0.5)
    inst = rng.choice([d for _g, dt, _p in specs if dt for d in dt] or [U.T(0)])

    def observe():
        for it in items:
            x = h.obj(it)
            do(f'in2 {it} ' + _table(everyone, lambda y: y is x or y == x))
        ng = len(sp.g)
        obs = ['len', 'iter', 'bool', 'idx', 'slice', 'fdt_inst', 'fdt_ival', 'fisect', 'fcontains', 'fcontained',
               'intersects', 'fprop'] + (['bounds'] if not mutated[0] else []) + (['eqfresh'] if K == 'F' else [])
        for o in rng.sample(obs, rng.randrange(4, 8)):
            if o in ('len', 'iter', 'bool'):
                do('o.' + o)
            elif o == 'eqfresh':
                do('eqfresh')
            elif o == 'idx' and K == 'F':
                do(f'o.getidx {rng.randrange(-ng - 1, ng + 1)}')
            elif o == 'slice' and K == 'F':
                do(f'o.getslice {rng.choice(["-", "0", "1", "-1"])} {rng.choice(["-", "2", "-1"])} {rng.choice(["-", "-1", "2"])}')
            elif o == 'fdt_inst':
                do(f'o.fdt_inst {inst}')
            elif o == 'fdt_ival':
                do(f'o.fdt_ival {min(inst, U.T(3))} {max(inst, U.T(3))}')
            elif o in ('fisect', 'fcontains', 'fcontained', 'intersects'):
                q = U.build_geom(qg, qdt)
                try:
                    if o in ('fisect', 'intersects'):
                        t1, t2 = _table(everyone, lambda x: x.intersects(q)), _table(everyone, lambda x: q.intersects(x))
                    else:
                        t1, t2 = _table(everyone, lambda x: x.contains(q)), _table(everyone, lambda x: q.contains(x))
                except Exception:  # noqa
                    continue
                if o == 'intersects':
                    do(f'o.intersects {qg} {U.show_dt(qdt)} | {t1}')
                else:
                    do(f'o.{o} {qg};{U.show_dt(qdt)} | {t1} {t2}')
            elif o == 'fprop':
                do(f'o.fprop c | {",".join(sorted({f"u{rng.randrange(len(U.VALS))}" for _ in range(3)}))}')
            elif o == 'bounds':
                try:
                    do('o.bounds ' + ' '.join(','.join(common.rat(v) for v in x.bounds) for x in everyone))
                except Exception:  # noqa
                    pass

    def new_dt():
        while True:
            dt = rand_dt(rng, 0.0 if K == 'T' else 0.2)
            if K != 'T' or dt is not None:
                return dt

    def mutate():
        ng, na = len(sp.g), len(sp.a)
        kinds = ['set', 'popappend', 'setdt', 'setdt', 'setprop', 'insert', 'pop', 'slice', 'arg', 'arg', 'sib', 'copy']
        if K == 'F':
            kinds += ['reverse']
        k = rng.choice(kinds)
        fresh = [t for t in toks[n:] if int(t.split(';')[0]) not in dirty]
        if not fresh:
            k = 'setdt'
        newtok = rng.choice(fresh or toks[n:])
        mutated[0] = True
        if k == 'set' and ng:
            do(f'm.g.set {rng.randrange(ng)} {newtok}')
        elif k == 'popappend' and ng:
            do(f'm.g.pop {rng.randrange(ng)}')
            do(f'm.g.append {newtok}')
        elif k == 'setdt':
            i = rng.choice(sorted(sp.toks))                               # a member, or a shape that was one
            dirty.add(i)
            do(f'setdt {i} {U.show_dt(new_dt())}')
        elif k == 'setprop':
            i = rng.choice(sorted(sp.toks))
            dirty.add(i)
            do(f'setprop {i} c u{rng.randrange(len(U.VALS))}')
        elif k == 'insert':
            do(f'm.g.insert {rng.randrange(ng + 1)} {newtok}')
        elif k == 'pop' and ng:
            do(f'm.g.pop {rng.randrange(ng)}')
        elif k == 'slice':
            i = rng.randrange(ng + 1)
            j = rng.randrange(i, ng + 1)
            do(f'm.g.slice {i} {j} ' + ' '.join(rng.sample(fresh, min(len(fresh), rng.randrange(0, 3)))))
        elif k == 'reverse':
            do('m.g.reverse')
        elif k == 'arg':
            # the caller keeps using the list it handed to the constructor
            timed = all(t.dt is not None for t in sp.a)
            c = rng.choice(['append', 'append', 'reverse', 'pop', 'clear'] + (['sortdesc'] if timed and na > 1 else []))
            if c == 'append':
                do(f'm.a.append {newtok}')
            elif c == 'pop' and na:
                do(f'm.a.pop {na - 1}')
            elif c in ('reverse', 'sortdesc', 'clear'):
                do(f'm.a.{c}')
            do('arg')
        elif k == 'sib':
            K2 = rng.choice(['F', 'T'])
            if K2 == 'T' and any(t.dt is None for t in sp.a):
                K2 = 'F'
            do(f'sib {K2} {AF if K2 == "F" else "0"}')
            if sp.s is not None:
                do(f'm.s.append {newtok}')
                if len(sp.s) > 1 and K2 == 'F':
                    do('m.s.reverse')
                do('sibiter')
                do('arg')
        elif k == 'copy':
            do('copy')
            if sp.s is not None:
                do(f'm.s.append {newtok}')
                if sp.g:
                    do(f'm.g.pop {rng.randrange(len(sp.g))}')
                do('sibiter')

    do('arg')
    observe()
    for _ in range(rng.choice([1, 1, 2, 3])):
        for _ in range(rng.choice([1, 1, 2])):
            mutate()
        observe()
    hist['hist:' + K + ('-aliased' if A == '1' else '')] += 1
    return f'fc.hist {K} {A} | ' + ' '.join(toks[:n]) + ' || ' + ' || '.join(steps)


def eq_lines(rng, count):
    """`==` / `!=` between collections (stream `list-eq`).  One pool of distinct objects per scenario (equality classes
    measured once over the whole pool, so twins in the two operands are comparable); the second operand is derived from
    the first: the same objects in the same order, permutations, a member replaced by an equal-valued twin / by an
    unequal shape, prefix, extension, empty, the same object twice, every member a twin, and a member that is not `==`
    to itself (a ring with a NaN radius: only the list's identity test `x is y` makes `a == a` true).  Each pair against
    both classes, the plain list and a non-collection, in both argument orders."""
    lines = []
    NAN = ('R_0_0_nan_5', None, [])

    def scenario(base, timed):
        n = len(base)
        pool = list(base)
        variants = {}

        def twin(i):
            g, dt, props = pool[i]
            pool.append((g, dt, list(props)))
            return len(pool) - 1

        def other(i):
            g, dt, props = pool[i]
            # unequal: another geometry at the same time bounds, or (timed) the same geometry one tick later
            if dt is not None and not U.near_sentinel(dt[0]) and not U.near_sentinel(dt[1]) and rng.random() < 0.5:
                pool.append((g, (dt[0] + U.TICK, dt[1] + U.TICK), list(props)))
            else:
                pool.append((f'P_{50 + len(pool)}_{7}', dt, list(props)))
            return len(pool) - 1
        ids = list(range(n))
        variants['same'] = list(ids)
        variants['empty'] = []
        if n:
            variants['prefix'] = ids[:-1]
            variants['ext'] = ids + [twin(rng.randrange(n))]
            k = rng.randrange(n)
            variants['twin1'] = ids[:k] + [twin(k)] + ids[k + 1:]
            variants['alltwins'] = [twin(i) for i in ids]
            k = rng.randrange(n)
            variants['other1'] = ids[:k] + [other(k)] + ids[k + 1:]
            variants['twice'] = [ids[0], ids[0]] + ids[1:]
        if n >= 2:
            variants['reversed'] = ids[::-1]
            variants['rotated'] = ids[1:] + ids[:1]
            sh = list(ids)
            rng.shuffle(sh)
            variants['shuffled'] = sh
        toks, _ = U.make_tokens(pool)
        firsts = [('base', ids)] + ([('twice', variants['twice'])] if n else [])
        for fname, first in firsts:
            for vname, second in variants.items():
                for K in ('F', 'T') if timed else ('F',):
                    for K2 in ('F', 'T', 'L', 'N') if timed else ('F', 'L', 'N'):
                        for order in ('ab', 'ba'):
                            lines.append(f'fc.eq {K} | {" ".join(toks[i] for i in first)} | {K2} | '
                                         f'{" ".join(toks[i] for i in second)} | {order} | {fname}/{vname}')

    # systematic: 0..3 points at distinct / equal instants, and with a member that is not `==` to itself
    for n in range(0, 4):
        scenario([(f'P_{i}_{i}', (U.T(i // 2), U.T(i // 2)), []) for i in range(n)], True)
        scenario([(f'P_{i}_{i}', (U.T(3 - i), U.T(4)), []) for i in range(n)], True)
    scenario([NAN], False)
    scenario([('P_1_1', None, []), NAN, ('B_0_2_2_0', None, [])], False)
    while len(lines) < count:
        timed = rng.random() < 0.6
        n = rng.choice([1, 2, 2, 3, 3, 4, 5, 6])
        base = rand_specs(rng, n, 0.0 if timed else 0.4, False)
        if not timed and rng.random() < 0.2:
            base[rng.randrange(n)] = NAN
        scenario(base, timed)
    return lines


def hull_lines(rng, count):
    """(vertices lines for the model, np-hull lines)"""
    vl, hl = [], []
    for _ in range(count):
        n = rng.randrange(1, 8)
        if rng.random() < 0.3:
            w = Globe(rng)
            geoms = [w.geom(rng) for _ in range(n)]
        else:
            geoms = [rand_geom(rng, ['P', 'P', 'B', 'G', 'L', 'C', 'E', 'R', 'MP', 'ML', 'MG', 'MM']) for _ in range(n)]
        shapes = [U.build_geom(g) for g in geoms]

        def tree(s):
            if hasattr(s, 'geoshapes'):
                return f'M {len(s.geoshapes)} ' + ' '.join(tree(m) for m in s.geoshapes)
            pts = lambda cs: ' '.join(f'{common.rat(c.longitude)} {common.rat(c.latitude)}' for c in cs)  # noqa: E731
            if type(s).__name__ == 'GeoPoint':
                return 'P ' + pts([s.centroid])
            if hasattr(s, 'vertices'):
                return f'L {len(s.vertices)} ' + pts(s.vertices)
            bc = s.bounding_coords()
            return f'G {len(bc)} ' + pts(bc)
        vl.append('fc.vertices ' + ' '.join(geoms) + ' | ' + ' '.join(tree(s) for s in shapes))
        pts = {(v.longitude, v.latitude) for s in shapes for v in _member_vertices(s)}
        if len(pts) >= 3:
            hl.append('np-hull.contains ' + ' '.join(geoms))
    return vl, hl


def check(run):
    run.prove(MODULE, THEOREMS)
    run.source_tie(['SrcColl', 'SrcTime'], 'GeoVerif.Props.C18Src',
                   ['GV.C18Src.' + t for t in ('filterByDtIval_eq', 'filterByDtInst_eq', 'filterByIntersection_eq', 'filterContainedBy_eq', 'filterContains_eq', 'intersects_eq', 'filterProp_loop_eq', 'filterByProperty_eq', 'bool_eq', 'add_eq', 'src_filterByDt_inst', 'src_filterByDt_ival', 'src_filterByIntersection_exact', 'src_filterContains_exact', 'src_filterContainedBy_exact',
                                                  'contains_eq', 'iter_eq', 'len_eq', 'fcGetIdx_eq', 'fcGetSlice_eq', 'fcEq_eq', 'src_contains_iff', 'src_getIdx', 'src_getSlice', 'src_fcEq_refl',
                                                  'trackEq_eq', 'eqColl_eq', 'src_fcEq_symm')])
    rng = run.rng

    def tag(ln, a):
        p = ln.split()
        ans = a.split(' # ')[0]
        if p[0] in ('fc.in', 'fc.bool', 'fc.intersects'):
            return [f'{p[0]}:{ans[:1]}']
        if p[0] in ('fc.len', 'fc.iter', 'fc.geospan'):
            return [p[0]]
        cls = 'err' if ans.startswith('ERR') else 'empty' if ans in ('F', 'T', 'list ', '') else 'some'
        if cls == 'some' and p[0][3] == 'f' and len(ans.split()) - 1 == len(a.split(' # ')[1].split()):
            cls = 'all'
        return [f'{p[0]}:{cls}', 'recv:' + p[1]]

    # exhaustive small world: the list protocol on 0..3 members, every index and slice triple
    lines = []
    for n in range(0, run.scale(4, 5)):
        specs = [(f'P_{i}_{i}', None if i % 2 else (U.T(3 - i), U.T(3 - i)), []) for i in range(n)]
        toks, _ = U.make_tokens(specs)
        head = 'F | ' + ' '.join(toks)
        lines += [f'fc.getidx {head} | {i}' for i in range(-n - 2, n + 3)]
        bnd = ['-'] + [str(i) for i in range(-n - 2, n + 3)]
        lines += [f'fc.getslice {head} | {a} {b} {c}' for a in bnd for b in bnd for c in ('-', '1', '2', '-1', '-2', '0')]
    run.run_cases('exhaustive-index-slice', lines, impl, spec, tag=tag)

    # random collections x every operation
    nsc = run.scale(260, 5000)
    lines, span = [], []
    for k in range(nsc):
        K = 'F' if k % 2 == 0 else 'T'
        n = rng.choice([0, 1, 2, 3]) if rng.random() < 0.2 else rng.randrange(0, 13)
        world = Globe(rng) if k % 4 >= 2 and rng.random() < 0.6 else None      # ~30 % of the collections live on the globe world
        run.hist['world:' + ('globe' if world else 'grid')] += 1
        ls, sp = scenario_lines(rng, K, n, run.hist, world)
        lines += ls
        span += sp
        if len(lines) > 40000:
            run.run_cases('random-collections', lines, impl, spec, tag=tag)
            lines = []
    run.run_cases('random-collections', lines, impl, spec, tag=tag)

    # `==` / `!=` between collections: correspondence only (the property text does not speak about equality, so there is
    # no oracle: `spec` is None); the model side is `eqColl` = `eqFC` / `eqTrack` by the class of the left operand
    def eq_tag(ln, a):
        secs = U.sections(ln)[1]
        return ['fc.eq:' + a[:1], 'eq-variant:' + secs[5][0], 'eq-classes:' + secs[0][0] + secs[2][0] + ':' + secs[4][0]]
    run.run_cases('list-eq', eq_lines(rng, run.scale(3200, 20000)), impl, None, tag=eq_tag)

    # observe - mutate - observe histories on the list protocol and every query, incl. constructor-argument aliasing
    lines = [ln for ln in (hist_line(rng, 'F' if k % 2 == 0 else 'T', run.hist) for k in range(run.scale(200, 5000))) if ln]
    def same_steps(a, sp):
        x, y = a.split(' ; '), sp.split(' ; ')
        return len(x) == len(y) and all(p == q or q == '?' for p, q in zip(x, y))     # `?`: the statement is silent
    run.run_cases('observe-mutate-observe', lines, impl, spec, spec_compare=same_steps,
                  tag=lambda ln, a: ['fc.hist'] + ['hist-step:' + st.split()[0] for st in ln.split(' || ')[1:]])

    def close(a, m):
        (x, _, sa), (y, _, sm) = a.partition(' # '), m.partition(' # ')
        if sa != sm:
            return False
        try:
            fx, fy = Fraction(x), Fraction(y)
        except ValueError:
            return x == y
        return abs(fx - fy) <= Fraction(1, 10**9) * max(1, abs(fy))
    run.run_cases('geospan', span, impl, None, compare=close, tag=tag)

    # the hull wrapper: vertex collection (model) and containment of every member vertex (exact arithmetic)
    vl, hl = hull_lines(rng, run.scale(150, 4000))
    run.run_cases('hull-vertices', vl, impl, None, tag=lambda ln, a: ['fc.vertices'])
    run.run_cases('np-hull-contains', hl, impl_hull, lambda _l: 'T', model=False, tag=lambda ln, a: ['np-hull:' + a[:1]])

    return run.finish(
        rule='~30 % of the collections live on a globe world (large circles / ellipses / rings at high latitude and across '
             'the antimeridian, members and queries on both sides of the rim, lon -180 and the poles); time bounds include '
             'the sentinels datetime.min / datetime.max (open-ended, since-forever, eternal).  '
             'random FeatureCollections and Tracks of 0..12 mixed shapes (points, boxes, polygons, linestrings, circles, '
             'ellipses, rings, multi-shapes; time-less / instants / intervals / long intervals; equal-but-distinct '
             'duplicates) x every collection operation (time, intersection, contains, contained-by and property filters, '
             'bounds, membership, concatenation, indexing, slicing); per-shape predicate tables measured on the '
             'implementation in both argument orders; exhaustive index/slice world on 0..3 members; `==` / `!=` between '
             'collections (stream list-eq, correspondence only: the statement does not speak about equality): same members, '
             'permutations, twins, unequal members, prefix / extension / empty, the same object twice, a member that is not '
             '`==` to itself, against both classes, a plain list and a non-collection, both argument orders. A case is one '
             'protocol line (one operation on one collection), distinct by line.',
        assumptions=['per-shape predicates, bounds and vertex lists are taken as measured on the implementation (their '
                     'correctness is C01-C05/C09)',
                     'shape `==` is an equivalence relation (C15); the equality classes are measured',
                     'the hull of the collected vertices is C10; here: the wrapper hands over every member vertex'],
        checker_cmd='cd lean && lake build GeoVerif.Props.C18 && lake env lean .lake/audit/C18.lean  (#print axioms)')
