"""
Independent geodesic oracle for C03 / C07 / C09 (harness-side *specification*, never the model).

Everything here works on unit vectors of the sphere (rotation of the position vector, angle from the
norms of cross and dot product, azimuth from the local east/north frame).  None of the haversine /
spherical-triangle formulas of `geostructures.calc` is used, so a wrong sign, a swapped argument or a
missing cos(lat) there cannot cancel against the same slip here.  Sums go through `math.fsum`.
"""
import math

R_EARTH = 6371000.0      # the property statement's sphere (C07: "a 6,371,000 m sphere")
PI_R = math.pi * R_EARTH


def uvec(lon, lat):
    p, l = math.radians(lat), math.radians(lon)
    cp = math.cos(p)
    return (cp * math.cos(l), cp * math.sin(l), math.sin(p))


def cross(u, v):
    return (u[1] * v[2] - u[2] * v[1], u[2] * v[0] - u[0] * v[2], u[0] * v[1] - u[1] * v[0])


def dot(u, v):
    return math.fsum((u[0] * v[0], u[1] * v[1], u[2] * v[2]))


def norm(u):
    return math.sqrt(math.fsum((u[0] * u[0], u[1] * u[1], u[2] * u[2])))


def angle(u, v):
    """angle between two unit vectors, well conditioned everywhere in [0, pi]"""
    return math.atan2(norm(cross(u, v)), dot(u, v))


def gc_dist(lon1, lat1, lon2, lat2):
    return R_EARTH * angle(uvec(lon1, lat1), uvec(lon2, lat2))


def frame(lon, lat):
    """local (east, north) unit vectors at a point"""
    p, l = math.radians(lat), math.radians(lon)
    e = (-math.sin(l), math.cos(l), 0.0)
    n = (-math.sin(p) * math.cos(l), -math.sin(p) * math.sin(l), math.cos(p))
    return e, n


def azimuth(lon1, lat1, lon2, lat2):
    """initial great-circle azimuth in degrees [0, 360) of point 2 seen from point 1"""
    e, n = frame(lon1, lat1)
    v = uvec(lon2, lat2)
    return math.degrees(math.atan2(dot(v, e), dot(v, n))) % 360.0


def to_lonlat(w):
    lat = math.degrees(math.atan2(w[2], math.hypot(w[0], w[1])))
    lon = math.degrees(math.atan2(w[1], w[0]))
    return lon, lat


def destination(lon, lat, az_rad, dist_m):
    """rotate the position vector by dist/R towards the azimuth: u cos d + t sin d"""
    u = uvec(lon, lat)
    e, n = frame(lon, lat)
    ca, sa = math.cos(az_rad), math.sin(az_rad)
    t = tuple(n[i] * ca + e[i] * sa for i in range(3))
    d = dist_m / R_EARTH
    cd, sd = math.cos(d), math.sin(d)
    return to_lonlat(tuple(u[i] * cd + t[i] * sd for i in range(3)))


def circ_diff(a, b, period=360.0):
    """signed circular difference a-b folded into [-period/2, period/2]"""
    d = math.fmod(a - b, period)
    if d > period / 2:
        d -= period
    elif d < -period / 2:
        d += period
    return d


def dist_tol(d_true):
    """
    float tolerance granted to a *distance* computed by any of the library's closed formulas.
    1 micrometre in general; the haversine form is ill-conditioned within a few km of the antipode
    (1 - a cancels), where  ~5e-9 m / (angular gap to the antipode)  is pure rounding (2e-8 granted).
    """
    gap = max(math.pi - d_true / R_EARTH, 2e-8)
    return 1e-6 + 2e-8 / gap


def bearing_tol_deg(d_true):
    """conditioning of an azimuth: an error of 2e-8 m across the track at the nearer of point /
    antipode, plus float noise"""
    s = abs(math.sin(d_true / R_EARTH))
    return 1e-9 + math.degrees(2e-8 / (R_EARTH * max(s, 1e-12)))
