"""
Shared helpers of the C15 / C16 checks: shape descriptions <-> protocol tokens <-> real objects,
the template shapes / pools of the object-state streams, observation strings.

A shape *description* is a plain tuple (no library objects):
  ('P', flag, dt, [coord...], [hole...])      GeoPolygon(outline, _is_hole=flag)   (constructor input)
  ('B', dt, nw, se, [hole...])                GeoBox
  ('C', dt, c, r, [hole...])                  GeoCircle
  ('E', dt, c, major, minor, rot, [hole...])  GeoEllipse
  ('R', dt, c, ri, ro, amin, amax, [hole...]) GeoRing
  ('L', dt, [coord...])                       GeoLineString
  ('T', dt, coord)                            GeoPoint
  ('MP'|'ML'|'MG', dt, [member...])           MultiGeoPoint / MultiGeoLineString / MultiGeoPolygon
coord = (lon, lat, z|None, m|None) floats; dt = None | (start_us, end_us); a hole is a polygon-like
description with an empty hole list.
"""
import pickle
from datetime import datetime, timedelta, timezone, tzinfo
from fractions import Fraction

from common import rat

EPOCH = datetime(1970, 1, 1, tzinfo=timezone.utc)
BASE_US = int((datetime(2020, 1, 1, tzinfo=timezone.utc) - EPOCH) / timedelta(microseconds=1))
US = timedelta(microseconds=1)


def G():
    import geostructures
    import geostructures.multistructures as ms
    from geostructures.time import TimeInterval
    return geostructures, ms, TimeInterval


def us_of(d):
    if d.tzinfo is None:
        d = d.replace(tzinfo=timezone.utc)
    return int((d - EPOCH) / US)


# An *instant* of a description / token is an int (µs since the epoch, written as a UTC-aware datetime) or a string
# `<µs>@n` (the same instant as a naive datetime: the library reads naive as UTC) / `<µs>@o<minutes>` (the same
# instant in another UTC offset).  Spellings of one instant are one value: the model sees only the µs.

def ival(x):
    return int(str(x).partition('@')[0])


class StepZone(tzinfo):
    """A zone with a daylight-saving jump written out by hand (no tz database needed): UTC-5, and UTC-4 between
    BASE+30 min and BASE+10 days.  Arithmetic on its datetimes is wall-clock arithmetic, `start + (end - start)` is NOT
    `end` when the two ends carry different tzinfo objects and a jump lies in between.  Every datetime gets its own
    instance (two ends never share a tzinfo object: Python would subtract / compare them by wall clock)."""
    ON = datetime(2020, 1, 1, 0, 30)            # UTC
    OFF = datetime(2020, 1, 11, 0, 30)          # UTC
    STD, DST = timedelta(hours=-5), timedelta(hours=-4)

    def _dst_wall(self, dt):
        w = dt.replace(tzinfo=None)
        return self.ON + self.DST <= w < self.OFF + self.DST

    def utcoffset(self, dt):
        return self.DST if self._dst_wall(dt) else self.STD

    def dst(self, dt):
        return timedelta(hours=1) if self._dst_wall(dt) else timedelta(0)

    def tzname(self, dt):
        return 'VDT' if self._dst_wall(dt) else 'VST'

    def fromutc(self, dt):
        u = dt.replace(tzinfo=None)
        return (u + (self.DST if self.ON <= u < self.OFF else self.STD)).replace(tzinfo=self)

    def __repr__(self):
        return 'StepZone()'


def _zone(name):
    if name == 'NY':
        try:
            from zoneinfo import ZoneInfo
            return ZoneInfo('America/New_York')       # jumps at 2020-03-08T07:00Z (BASE_NY is half an hour before)
        except Exception:  # noqa  -- no tz database: the hand-written zone stands in
            return StepZone()
    return StepZone()


def mk_datetime(x):
    us, _, rep = str(x).partition('@')
    d = EPOCH + timedelta(microseconds=int(us))
    if rep == 'n':
        return d.replace(tzinfo=None)
    if rep.startswith('o'):
        return d.astimezone(timezone(timedelta(minutes=int(rep[1:]))))
    if rep.startswith('z'):
        return d.astimezone(_zone(rep[1:]))
    return d


def inst(dt):
    """the value of a dt description: None | (start µs, end µs)"""
    return None if dt is None else (ival(dt[0]), ival(dt[1]))


# the two ends of an interval may carry different tzinfo objects, also zones whose offset varies (`@zE` hand-written,
# `@zNY` tz database); a zone-spelled pair never shares one tzinfo object between its ends
SPELLINGS = [('', ''), ('@n', '@n'), ('@o120', '@o120'), ('@o-330', '@n'), ('', '@o345'), ('@o840', '@o-720'), ('@n', ''),
             ('@zE', ''), ('@zE', '@zE'), ('@o60', '@zE'), ('@zNY', '@n'), ('@zE', '@o-300')]
BASE_NY = int((datetime(2020, 3, 8, 6, 30, tzinfo=timezone.utc) - EPOCH) / US)


def respell(dt, k):
    """the same time bounds written with other UTC offsets / naive"""
    if dt is None:
        return None
    a, b = SPELLINGS[k % len(SPELLINGS)]
    return (f'{ival(dt[0])}{a}' if a else ival(dt[0]), f'{ival(dt[1])}{b}' if b else ival(dt[1]))


def mk_dt(dt):
    if dt is None:
        return None
    _, _, TimeInterval = G()
    return TimeInterval(mk_datetime(dt[0]), mk_datetime(dt[1]))


def dt_of(obj):
    return None if obj.dt is None else (us_of(obj.dt.start), us_of(obj.dt.end))


# ---- tokens --------------------------------------------------------------------------------------

def opt(x):
    return '_' if x is None else rat(x)


def ctok(c):
    return f'{rat(c[0])},{rat(c[1])},{opt(c[2])},{opt(c[3])}'


def ktok(k):
    return f'{rat(k[0])},{rat(k[1])},{opt(k[2])}'


def dttok(dt):
    return '_' if dt is None else f'{dt[0]}:{dt[1]}'


def key_of(coord):
    """(lon, lat, z) of a library Coordinate"""
    return (coord.longitude, coord.latitude, coord.z)


def mk_coord(c):
    g, _, _ = G()
    return g.Coordinate(c[0], c[1], z=c[2], m=c[3])


def build(d):
    """description -> real object"""
    g, ms, _ = G()
    k = d[0]
    if k == 'P':
        return g.GeoPolygon([mk_coord(c) for c in d[3]], holes=[build(h) for h in d[4]] or None, dt=mk_dt(d[2]),
                            _is_hole=bool(d[1]))
    if k == 'B':
        return g.GeoBox(mk_coord(d[2]), mk_coord(d[3]), holes=[build(h) for h in d[4]] or None, dt=mk_dt(d[1]))
    if k == 'C':
        return g.GeoCircle(mk_coord(d[2]), d[3], holes=[build(h) for h in d[4]] or None, dt=mk_dt(d[1]))
    if k == 'E':
        return g.GeoEllipse(mk_coord(d[2]), d[3], d[4], d[5], holes=[build(h) for h in d[6]] or None, dt=mk_dt(d[1]))
    if k == 'R':
        return g.GeoRing(mk_coord(d[2]), d[3], d[4], d[5], d[6], holes=[build(h) for h in d[7]] or None,
                         dt=mk_dt(d[1]))
    if k == 'L':
        return g.GeoLineString([mk_coord(c) for c in d[2]], dt=mk_dt(d[1]))
    if k == 'T':
        return g.GeoPoint(mk_coord(d[2]), dt=mk_dt(d[1]))
    cls = {'MP': ms.MultiGeoPoint, 'ML': ms.MultiGeoLineString, 'MG': ms.MultiGeoPolygon}[k]
    return cls([build(m) for m in d[2]], dt=mk_dt(d[1]))


_HOLE_IX = {'P': 4, 'B': 4, 'C': 4, 'E': 6, 'R': 7}


def holes_of(d):
    i = _HOLE_IX.get(d[0])
    return list(d[i]) if i is not None else []


def with_holes(d, holes):
    i = _HOLE_IX[d[0]]
    return d[:i] + (list(holes),) + d[i + 1:]


def with_dt(d, dt):
    i = 2 if d[0] == 'P' else 1
    return d[:i] + (dt,) + d[i + 1:]


def head_tokens(d, as_hole):
    """tokens of a polygon-like without its hole list; curved holes carry their generated vertices,
    wedges their centroid (data the model does not compute: C03's subject)"""
    k = d[0]
    if k == 'P':
        return ['P', str(int(bool(d[1]))), dttok(d[2]), str(len(d[3]))] + [ctok(c) for c in d[3]]
    if k == 'B':
        return ['B', dttok(d[1]), ctok(d[2]), ctok(d[3])]
    obj = None
    bc = []
    if as_hole:
        obj = build(with_holes(d, []))
        bc = [ktok(key_of(c)) for c in obj.bounding_coords()]
    if k == 'C':
        return ['C', dttok(d[1]), ctok(d[2]), rat(d[3]), str(len(bc))] + bc
    if k == 'E':
        return ['E', dttok(d[1]), ctok(d[2]), rat(d[3]), rat(d[4]), rat(d[5]), str(len(bc))] + bc
    if k == 'R':
        cen = '_'
        if d[5] and d[6]:
            obj = obj or build(with_holes(d, []))
            try:
                cen = ktok(key_of(obj.centroid))
            except Exception:  # noqa  -- the line is still produced; the implementation side will show the error
                cen = '_'
        return ['R', dttok(d[1]), ctok(d[2]), rat(d[3]), rat(d[4]), rat(d[5]), rat(d[6]), cen, str(len(bc))] + bc
    raise ValueError(k)


def tokens(d):
    k = d[0]
    if k == 'L':
        return ['L', dttok(d[1]), str(len(d[2]))] + [ctok(c) for c in d[2]]
    if k == 'T':
        return ['T', dttok(d[1]), ctok(d[2])]
    if k in ('MP', 'ML', 'MG'):
        out = [k, dttok(d[1]), str(len(d[2]))]
        for m in d[2]:
            out += tokens(m)
        return out
    hs = holes_of(d)
    out = head_tokens(d, False) + [str(len(hs))]
    for h in hs:
        out += head_tokens(h, True)
    return out


# ---- parsing tokens back (the implementation side reads the same line as the model) -------------------

def _optf(s):
    return None if s == '_' else float(Fraction(s))


def p_coord(s):
    a, b, c, d = s.split(',')
    return (float(Fraction(a)), float(Fraction(b)), _optf(c), _optf(d))


def p_key(s):
    a, b, c = s.split(',')
    return (float(Fraction(a)), float(Fraction(b)), _optf(c))


def p_inst(t):
    return t if '@' in t else int(t)


def p_dt(s):
    if s == '_':
        return None
    a, b = s.split(':')
    return (p_inst(a), p_inst(b))


def f_(s):
    return float(Fraction(s))


class Aux:
    """side data found in the tokens: generated vertices of curved holes / wedge centroids"""
    def __init__(self):
        self.bc = {}


def p_head(ts, i, aux):
    k = ts[i]
    if k == 'P':
        n = int(ts[i + 3])
        cs = [p_coord(t) for t in ts[i + 4:i + 4 + n]]
        if len(cs) != n:
            raise IndexError('short')
        return ('P', int(ts[i + 1]), p_dt(ts[i + 2]), cs, []), i + 4 + n
    if k == 'B':
        return ('B', p_dt(ts[i + 1]), p_coord(ts[i + 2]), p_coord(ts[i + 3]), []), i + 4

    def bc(j, d):
        n = int(ts[j])
        ks = [p_key(t) for t in ts[j + 1:j + 1 + n]]
        if n:
            aux.bc[repr(d)] = ks
        return j + 1 + n
    if k == 'C':
        d = ('C', p_dt(ts[i + 1]), p_coord(ts[i + 2]), f_(ts[i + 3]), [])
        return d, bc(i + 4, d)
    if k == 'E':
        d = ('E', p_dt(ts[i + 1]), p_coord(ts[i + 2]), f_(ts[i + 3]), f_(ts[i + 4]), f_(ts[i + 5]), [])
        return d, bc(i + 6, d)
    if k == 'R':
        d = ('R', p_dt(ts[i + 1]), p_coord(ts[i + 2]), f_(ts[i + 3]), f_(ts[i + 4]), f_(ts[i + 5]), f_(ts[i + 6]), [])
        return d, bc(i + 8, d)
    raise ValueError('bad kind ' + k)


def p_shape(ts, i, aux):
    k = ts[i]
    if k == 'L':
        n = int(ts[i + 2])
        return ('L', p_dt(ts[i + 1]), [p_coord(t) for t in ts[i + 3:i + 3 + n]]), i + 3 + n
    if k == 'T':
        return ('T', p_dt(ts[i + 1]), p_coord(ts[i + 2])), i + 3
    d, j = p_head(ts, i, aux)
    nh = int(ts[j])
    j += 1
    hs = []
    for _ in range(nh):
        h, j = p_head(ts, j, aux)
        hs.append(h)
    return with_holes(d, hs), j


def p_any(ts, aux=None):
    aux = aux or Aux()
    if ts[0] in ('MP', 'ML', 'MG'):
        n = int(ts[2])
        j = 3
        ms = []
        for _ in range(n):
            m, j = p_shape(ts, j, aux)
            ms.append(m)
        d = (ts[0], p_dt(ts[1]), ms)
    else:
        d, j = p_shape(ts, 0, aux)
    if j != len(ts):
        raise ValueError('trailing tokens')
    return d, aux


def split_semis(args):
    out, cur = [], []
    for t in args:
        if t == ';':
            out.append(cur)
            cur = []
        else:
            cur.append(t)
    out.append(cur)
    return out


# ---- the property's own notion of "the same shape" (independent of the model) -----------------------------

def ckey(c):
    return (Fraction(c[0]), Fraction(c[1]), None if c[2] is None else Fraction(c[2]))


def open_cycle(keys):
    """drop the closing vertex of a ring written self-closing"""
    if len(keys) >= 2 and keys[0] == keys[-1]:
        return keys[:-1]
    return keys


def canon_cycle(keys, directed=False):
    """canonical representative of a vertex cycle up to start vertex (and direction)"""
    ks = list(keys)
    if not ks:
        return ()
    cands = []
    for seq in ([ks] if directed else [ks, ks[::-1]]):
        for i in range(len(seq)):
            cands.append(tuple(seq[i:] + seq[:i]))
    return min(cands, key=lambda t: [(x[0], x[1], (0, 0) if x[2] is None else (1, x[2])) for x in t])


def shoelace2(keys):
    n = len(keys)
    return sum(keys[i][0] * keys[(i + 1) % n][1] - keys[(i + 1) % n][0] * keys[i][1] for i in range(n))


def hole_canon(h, aux):
    """a hole as the vertex cycle it cuts out (what a polygon compares) — None when degenerate"""
    if h[0] == 'P':
        ks = open_cycle([ckey(c) for c in h[3]])
        if len(set(ks)) < 3 or shoelace2(ks) == 0:
            return None
        return ('cyc', canon_cycle(ks))
    if h[0] == 'B':
        nw, se = h[2], h[3]
        z = nw[2] if nw[2] is not None else se[2]       # repo fix 68e2a82: a Z of 0.0 is kept
        ks = [ckey(nw), ckey((nw[0], se[1], z, None)), ckey(se), ckey((se[0], nw[1], z, None))]
        return ('cyc', canon_cycle(ks))
    ks = aux.bc.get(repr(h))
    if ks is None:
        return None
    return ('cyc', canon_cycle(open_cycle([ckey(k + (None,)) for k in ks])))


def geom_fields(d):
    """the defining fields other than holes/dt, M ignored"""
    k = d[0]
    if k == 'B':
        return (k, ckey(d[2]), ckey(d[3]))
    if k == 'C':
        return (k, ckey(d[2]), Fraction(d[3]))
    if k == 'E':
        return (k, ckey(d[2]), Fraction(d[3]), Fraction(d[4]), Fraction(d[5]))
    if k == 'R':
        return (k, ckey(d[2]), Fraction(d[3]), Fraction(d[4]), Fraction(d[5]), Fraction(d[6]))
    if k == 'L':
        return (k, tuple(ckey(c) for c in d[2]))
    if k == 'T':
        return (k, ckey(d[2]))
    raise ValueError(k)


def same_single(a, b, aux):
    """'T' the property demands a == b, 'F' it demands a != b, None it leaves the pair open"""
    if a[0] != b[0]:
        return 'F'
    k = a[0]
    dta, dtb = (a[2], b[2]) if k == 'P' else (a[1], b[1])
    if inst(dta) != inst(dtb):
        return 'F'
    if k in ('L', 'T'):
        return 'T' if geom_fields(a) == geom_fields(b) else 'F'
    ha, hb = holes_of(a), holes_of(b)
    if k == 'P':
        ka = open_cycle([ckey(c) for c in a[3]])
        kb = open_cycle([ckey(c) for c in b[3]])
        if len(set(ka)) < 3 or len(set(kb)) < 3:
            # degenerate outlines: only the plain statements
            if [ckey(c) for c in a[3]] == [ckey(c) for c in b[3]] and a[1] == b[1]:
                outline = 'T'
            elif set(ka) != set(kb):
                outline = 'F'
            else:
                outline = None
        else:
            outline = 'T' if canon_cycle(ka) == canon_cycle(kb) else 'F'
        if outline == 'F':
            return 'F'
        ca = [hole_canon(h, aux) for h in ha]
        cb = [hole_canon(h, aux) for h in hb]
        if None in ca or None in cb:
            holes = 'T' if ha == hb else None
        elif sorted(ca, key=repr) == sorted(cb, key=repr):
            holes = 'T'
        elif set(ca) != set(cb) or len(ca) != len(cb):
            holes = 'F'
        else:
            holes = None
        if holes == 'F':
            return 'F'
        return 'T' if (outline == 'T' and holes == 'T') else None
    # box / circle / ellipse / ring
    if geom_fields(a) != geom_fields(b):
        return 'F'
    if len(ha) != len(hb):
        return 'F'
    verdicts = [same_single(x, y, aux) for x, y in zip(ha, hb)]
    if all(v == 'T' for v in verdicts):
        return 'T'
    # different hole geometry (whatever the order / the time of the hole objects) must be unequal: vertex-defined holes
    # by the ring they cut out, curved holes by their exact defining fields (a radius differing in the last bit is another hole)
    def geo(h):
        if h[0] in ('P', 'B'):
            return hole_canon(h, aux)
        return ('fields',) + tuple(repr(x) for x in geom_fields(h))
    ca = [geo(h) for h in ha]
    cb = [geo(h) for h in hb]
    if None not in ca and None not in cb and sorted(ca, key=repr) != sorted(cb, key=repr):
        return 'F'
    return None


def same_any(a, b, aux):
    ma, mb = a[0] in ('MP', 'ML', 'MG'), b[0] in ('MP', 'ML', 'MG')
    if ma != mb:
        return 'F'
    if not ma:
        return same_single(a, b, aux)
    if a[0] != b[0] or inst(a[1]) != inst(b[1]):
        return 'F'
    # members: a one-to-one matching of members the property calls equal => equal;
    # a member that is different from every member of the other => unequal
    A, B = list(a[2]), list(b[2])

    def rel(x, y):
        return same_single(x, y, aux)
    if len(A) == len(B):
        rest = list(B)
        ok = True
        for x in A:
            j = next((i for i, y in enumerate(rest) if rel(x, y) == 'T'), None)
            if j is None:
                ok = False
                break
            rest.pop(j)
        if ok:
            return 'T'
    for X, Y in ((A, B), (B, A)):
        for x in X:
            if all(rel(x, y) == 'F' for y in Y):
                return 'F'
    return None


# ---- object-state streams: templates, pools, observation ----------------------------------------------

KINDS = ['polygon', 'box', 'circle', 'ellipse', 'ring', 'linestring', 'point', 'mpoint', 'mline', 'mpoly']
HAS_HOLES = {'polygon', 'box', 'circle', 'ellipse', 'ring'}
HAS_SEQ = {'polygon', 'linestring', 'mpoint', 'mline', 'mpoly'}
HAS_VOLUME = {'polygon', 'box', 'circle', 'ellipse', 'ring', 'mpoly'}

HOLE_POOL = [
    [(1.0, 1.0), (2.0, 1.0), (2.0, 2.0), (1.0, 2.0)],
    [(3.0, 3.0), (4.0, 3.0), (4.0, 4.0), (3.5, 4.5), (3.0, 4.0)],
    [(5.0, 1.0), (6.0, 1.0), (5.5, 2.0)],
    [(1.0, 5.0), (2.0, 5.0), (2.0, 6.0), (1.0, 6.0)],
    [(6.0, 6.0), (7.0, 6.0), (7.0, 7.0)],
    [(4.0, 0.5), (4.5, 0.5), (4.5, 1.0), (4.0, 1.0)],
]

SEQ_POOL = [(0.0, 0.0), (8.0, 0.0), (8.0, 8.0), (4.0, 9.0), (0.0, 8.0), (-0.5, 4.0), (-0.5, 2.0), (-0.25, 1.0)]


def mk_hole(i):
    g, _, _ = G()
    return g.GeoPolygon([g.Coordinate(x, y) for x, y in HOLE_POOL[i]])


def hole_id(h):
    g, _, _ = G()
    if isinstance(h, g.GeoPolygon):
        ks = open_cycle([(c.longitude, c.latitude) for c in h.outline])
        for i, p in enumerate(HOLE_POOL):
            if canon_cycle([(x, y, None) for x, y in ks]) == canon_cycle([(x, y, None) for x, y in p]):
                return i
    return -1


def template(kind, variant, nh, nseq, dt, props, dt_obj=None):
    """the shape of the object-state streams: kind x geometry variant, `nh` holes from the pool,
    `nseq` vertices / members"""
    g, ms, _ = G()
    C = g.Coordinate
    holes = [mk_hole(i) for i in range(nh)] if kind in HAS_HOLES else None
    kw = dict(dt=dt_obj if dt_obj is not None else mk_dt(dt), properties=props)
    v = float(variant)
    if kind == 'polygon':
        pts = SEQ_POOL[:max(nseq - 1, 1)]
        return g.GeoPolygon([C(x + v, y) for x, y in pts] + [C(pts[0][0] + v, pts[0][1])], holes=holes, **kw)
    if kind == 'box':
        return g.GeoBox(C(0.0 + v, 8.0), C(8.0 + v, 0.0), holes=holes, **kw)
    if kind == 'circle':
        return g.GeoCircle(C(4.0 + v, 4.0), 500000.0, holes=holes, **kw)
    if kind == 'ellipse':
        return g.GeoEllipse(C(4.0 + v, 4.0), 600000.0, 400000.0, 30.0, holes=holes, **kw)
    if kind == 'ring':
        if variant % 2 == 0:
            return g.GeoRing(C(4.0 + v, 4.0), 20000.0, 600000.0, holes=holes, **kw)
        return g.GeoRing(C(4.0 + v, 4.0), 20000.0, 600000.0, 30.0, 170.0, holes=holes, **kw)   # a wedge
    if kind == 'linestring':
        return g.GeoLineString([C(x + v, y) for x, y in SEQ_POOL[:nseq]], **kw)
    if kind == 'point':
        return g.GeoPoint(C(1.5 + v, 2.5), **kw)
    if kind == 'mpoint':
        return ms.MultiGeoPoint([g.GeoPoint(C(x + v, y)) for x, y in SEQ_POOL[:nseq]], **kw)
    if kind == 'mline':
        return ms.MultiGeoLineString(
            [g.GeoLineString([C(x + v, y), C(x + v + 0.5, y + 0.5), C(x + v, y + 1.0)]) for x, y in SEQ_POOL[:nseq]], **kw)
    if kind == 'mpoly':
        return ms.MultiGeoPolygon(
            [g.GeoPolygon([C(x + v, y), C(x + v + 0.5, y), C(x + v + 0.5, y + 0.5), C(x + v, y)])
             for x, y in SEQ_POOL[:nseq]], **kw)
    raise ValueError(kind)


def seq_list(obj):
    g, ms, _ = G()
    if isinstance(obj, g.GeoPolygon):
        return obj.outline
    if isinstance(obj, g.GeoLineString):
        return obj.vertices
    if hasattr(obj, 'geoshapes'):
        return obj.geoshapes
    return None


def _item_val(x):
    g, _, _ = G()
    if isinstance(x, g.Coordinate):
        return ('c', x.longitude, x.latitude, x.z, x.m)
    if isinstance(x, g.GeoPoint):
        return ('T', _item_val(x.coordinate), dt_of(x))
    if isinstance(x, g.GeoLineString):
        return ('L', tuple(_item_val(c) for c in x.vertices), dt_of(x))
    if isinstance(x, g.GeoPolygon):
        return ('P', tuple(_item_val(c) for c in x.outline), dt_of(x), len(x.holes))
    return ('?', repr(x))


def seq_ids(obj, pristine):
    """position i if the i-th item has the value it was constructed with, -1 otherwise"""
    cur = seq_list(obj)
    if cur is None:
        return '_'
    ref = seq_list(pristine)
    out = []
    for i, x in enumerate(cur):
        out.append(str(i) if i < len(ref) and _item_val(x) == _item_val(ref[i]) else '-1')
    return '[' + ';'.join(out) + ']'


def show_val(v):
    if isinstance(v, list):
        return '[' + ';'.join(str(int(x)) for x in v) + ']'
    return str(int(v))


def show_props(d):
    if not d:
        return '-'
    return ','.join(f'{k}={show_val(v)}' for k, v in d.items())


def show_fields(obj, pristine):
    holes = '_'
    if hasattr(obj, 'holes'):
        holes = '[' + ';'.join(str(hole_id(h)) for h in obj.holes) + ']'
    return f'dt={dttok(dt_of(obj))};props={show_props(obj._properties)};holes={holes};seq={seq_ids(obj, pristine)}'


def parse_props(s):
    if s == '-':
        return {}
    out = {}
    for e in s.split(','):
        k, v = e.split('=')
        out[k] = parse_val(v)
    return out


def parse_val(v):
    if v.startswith('['):
        inner = v[1:-1]
        return [int(x) for x in inner.split(';')] if inner else []
    return int(v)


def apply_mut(obj, m, inplace=True):
    """one mutator token on a real object; returns what the call returned"""
    p = m.split(':')
    if p[0] == 'setdt':
        if p[1] == '_':
            return obj.set_dt(None, inplace=inplace)
        return obj.set_dt(mk_dt((p_inst(p[1]), p_inst(p[2]))), inplace=inplace)     # a TimeInterval argument
    if p[0] == 'setdtd':
        return obj.set_dt(mk_datetime(p_inst(p[1])), inplace=inplace)                # a datetime becomes an instant
    if p[0] == 'buffer':
        return obj.buffer_dt(timedelta(microseconds=int(p[1])), inplace=inplace)
    if p[0] == 'strip':
        return obj.strip_dt(inplace=inplace)
    if p[0] == 'setprop':
        k, v = p[1].split('=')
        return obj.set_property(k, parse_val(v), inplace=inplace)
    if p[0] == 'hpop':
        obj.holes.pop()
        return obj
    if p[0] == 'hpush':
        obj.holes.append(mk_hole(int(p[1])))
        return obj
    if p[0] == 'ddel':
        del obj._properties[p[1]]
        return obj
    if p[0] == 'npush':
        k, v = p[1].split('=')
        obj._properties[k].append(int(v))
        return obj
    raise ValueError('unknown mutator ' + m)


def roundtrip(obj):
    return pickle.loads(pickle.dumps(obj))
