"""C01 — polygon and box point-membership is exact."""
import itertools
from fractions import Fraction as F

import common
import planar
from common import rat, tf

MODULE = ['GeoVerif.Props.C01', 'GeoVerif.Props.C01Convex', 'GeoVerif.Props.C01Parity']
THEOREMS = ['GV.C01.' + t for t in (
    'pointInRing_eq_spec', 'pointInRing_boundary_false', 'pointInRing_inclB', 'insideEO_perm', 'insideEO_flip',
    'pointInRing_rotate', 'pointInRing_reverse', 'ringContains_eq_spec', 'ringContains_rotate', 'ringContains_reverse', 'bbox_prefilter_sound',
    'polyContains_iff', 'poly_hole_boundary_true', 'poly_outer_boundary_false', 'boxContains_iff',
    'box_edge_contained', 'polyContains_mk_invariant', 'rect_pip_iff', 'parity_ray_independent',
    # Props/C01Convex.lean: crossing parity = geometric insideness for convex rings and triangles (no Jordan assumption)
    'separated_pip_false', 'strictConvexCCW_weak_and_turns', 'convex_pip_iff', 'convex_pip_inclB_iff',
    'triangle_convex', 'triangle_swap', 'triangle_pip_iff', 'triangle_pip_inclB_iff', 'triangle_edge_false',
    'triangle_boundary_iff',
    # Props/C01Parity.lean: the crossing parity is constant along EVERY segment / polyline that avoids the ring (any
    # ring, any direction); False when joined to a point outside the bounding box; the same for polygons with holes
    'pointInRing_shear', 'parityConst_all', 'parityConst_all_inclB', 'seg_meets_of_pip_ne', 'pip_const_on_paths',
    'pip_false_of_not_inBBox', 'pip_false_of_path_to_far', 'pip_true_separated', 'pip_true_path_end_inBBox',
    'ringContains_eq_pointInRing', 'polyContains_eq_rings', 'polyContains_const_seg', 'polyContains_const_on_paths',
    'polyContains_false_of_path_to_far', 'polyContains_true_separated', 'polyContains_false_of_path_into_hole',
    'lRing_path')] + ['GV.PipParity.segAvoidsC_sound']


def _coord(x, y):
    from geostructures import Coordinate
    return Coordinate(float(F(x)), float(F(y)))


def impl(line):
    from geostructures import GeoPolygon
    from geostructures._geometry import is_counter_clockwise
    cmd, *a = line.split()
    op = cmd.split('.', 1)[1]
    if op in ('mk', 'mkhole'):
        pts = planar._pts(a)
        p = GeoPolygon([_coord(*q) for q in pts], _is_hole=(op == 'mkhole'))
        return planar.show_pts(p.outline)
    if op == 'ccw':
        return tf(is_counter_clockwise([_coord(*q) for q in planar._pts(a)]))
    if op in ('ring', 'ringb'):
        ring = [_coord(*q) for q in planar._pts(a[2:])]
        return tf(GeoPolygon._point_in_polygon(_coord(a[0], a[1]), ring, include_boundary=(op == 'ringb')))
    if op == 'in':
        s, disturb = planar.to_impl_live(planar.parse_shape(a[2:]), line)
        c = _coord(a[0], a[1])
        r1 = s.contains_coordinate(c)
        r2 = c in s
        if r1 != r2:
            return f'contains_coordinate={r1} but `in`={r2}'
        # observe - mutate - observe: nothing the caller does to its own containers afterwards, and no earlier query,
        # may change the answer
        what = disturb()
        r3 = s.contains_coordinate(_coord(a[0], a[1]))
        if r3 != r1:
            return f'UNSTABLE {tf(r1)} then {tf(r3)} after {what}'
        return tf(r1)
    if op == 'boxmove':
        # a box whose corners are re-assigned between two questions (public attributes): `pip.boxmove x y  w1 n1 e1 s1  w2 n2 e2 s2`
        from geostructures import GeoBox
        b = GeoBox(_coord(a[2], a[3]), _coord(a[4], a[5]))
        c = _coord(a[0], a[1])
        r1 = b.contains_coordinate(c)
        _ = (b.bounds, b.centroid)                       # whatever is derived from the corners is looked at in between
        b.nw_bound, b.se_bound = _coord(a[6], a[7]), _coord(a[8], a[9])
        return tf(r1) + tf(b.contains_coordinate(_coord(a[0], a[1])))
    if op == 'inseq':
        # ONE live object asked a whole sequence of queries: `pip.inseq k x1 y1 … xk yk <shape>`; an answer must not depend
        # on what the object was asked before
        k = int(a[0])
        s = planar.to_impl(planar.parse_shape(a[1 + 2 * k:]))
        out = []
        for i in range(k):
            out.append(tf(s.contains_coordinate(_coord(a[1 + 2 * i], a[2 + 2 * i]))))
        return ''.join(out)
    raise ValueError(op)


def spec(line):
    """strictly inside the outer boundary and not strictly inside any hole; a box includes its edges"""
    cmd, *a = line.split()
    op = cmd.split('.', 1)[1]
    if op in ('ring', 'ringb'):
        p = (F(a[0]), F(a[1]))
        ring = planar.close(planar._pts(a[2:]))
        if not planar.is_simple(ring[:-1]):
            return None
        v = planar.in_ring(p, ring)
        return tf(v == 1 or (v == 0 and op == 'ringb'))
    if op == 'in':
        p = (F(a[0]), F(a[1]))
        s = planar.parse_shape(a[2:])
        if s.kind == 'box':
            inside = s.nw[0] <= p[0] <= s.se[0] and s.se[1] <= p[1] <= s.nw[1]
        else:
            if not planar.is_simple(s.shell[:-1]):
                return None
            inside = planar.in_ring(p, s.shell) == 1
        if not inside:
            return 'F'
        return tf(not any(planar.in_ring(p, h) == 1 for h in s.holes))
    if op == 'boxmove':
        x, y = F(a[0]), F(a[1])
        box = lambda w, n, e, s_: tf(F(w) <= x <= F(e) and F(s_) <= y <= F(n))  # noqa: E731
        return box(*a[2:6]) + box(*a[6:10])
    if op == 'inseq':
        k = int(a[0])
        shape = ' '.join(a[1 + 2 * k:])
        outs = [spec(f'pip.in {a[1 + 2 * i]} {a[2 + 2 * i]} {shape}') for i in range(k)]
        return None if any(o is None for o in outs) else ''.join(outs)
    if op in ('mk', 'mkhole'):
        # closed, counter-clockwise (clockwise for a hole), same cyclic vertex sequence up to reversal
        pts = planar._pts(a)
        ring = planar.close(pts)
        area2 = sum((ring[i + 1][0] - ring[i][0]) * (ring[i + 1][1] + ring[i][1]) for i in range(len(ring) - 1))
        if area2 == 0:
            return None
        ccw = area2 < 0
        want = ring if (ccw != (op == 'mkhole')) else ring[::-1]
        return ' '.join(f'{rat(x)},{rat(y)}' for x, y in want)
    return None


def impl_for(_l):
    return impl


def spec_for(_l):
    return spec


def flat(ps):
    return ' '.join(f'{rat(x)} {rat(y)}' for x, y in ps)


def classify(line, ans):
    """branch tag: where the query sits relative to the shape"""
    a = line.split()
    op = a[0].split('.', 1)[1]
    if op not in ('in', 'ring', 'ringb'):
        return [op]
    p = (F(a[1]), F(a[2]))
    if op == 'in':
        s = planar.parse_shape(a[3:])
        ring = s.shell
        holes = s.holes
    else:
        ring, holes = planar.close(planar._pts(a[3:])), []
    v = planar.in_ring(p, ring)
    tags = []
    if v == 0:
        tags.append('on-vertex' if p in ring else ('on-horizontal-edge' if any(
            planar.on_seg(p, x, y) and x[1] == y[1] for x, y in zip(ring, ring[1:])) else 'on-edge'))
    else:
        level = any(q[1] == p[1] for q in ring)
        tags.append(('inside' if v == 1 else 'outside') + ('-level-with-vertex' if level else ''))
    for h in holes:
        w = planar.in_ring(p, h)
        if w == 0:
            tags.append('on-hole-edge')
        elif w == 1:
            tags.append('in-hole')
    return [f'{op}:{t}' for t in tags]


def simple_rings(rng, grid, sizes, limit):
    """simple rings with vertices on grid x grid; all of them when few, else a seeded sample"""
    pts = [(F(x), F(y)) for x in range(grid) for y in range(grid)]
    out = []
    for n in sizes:
        combos = []
        total = 1
        for i in range(n):
            total *= (len(pts) - i)
        if total <= limit * 20:
            for seq in itertools.permutations(pts, n):
                if seq[0] == min(seq) and seq[1] < seq[-1] and planar.is_simple(list(seq)):
                    combos.append(list(seq))
        else:
            tries = 0
            seen = set()
            while len(combos) < limit and tries < limit * 60:
                tries += 1
                seq = tuple(rng.sample(pts, n))
                if seq in seen:
                    continue
                seen.add(seq)
                if planar.is_simple(list(seq)):
                    combos.append(list(seq))
        if len(combos) > limit:
            combos = rng.sample(combos, limit)
        out += combos
    return out


def variants(ring, rng, all_of_them):
    """rotations and reversals of an open outline"""
    n = len(ring)
    vs = []
    for rev in (False, True):
        r = ring[::-1] if rev else ring
        for k in range(n):
            vs.append(r[k:] + r[:k])
    return vs if all_of_them else rng.sample(vs, min(3, len(vs)))


def check(run):
    run.prove(MODULE, THEOREMS)
    run.source_tie(['SrcPip', 'SrcMember'], 'GeoVerif.Props.C01Src',
                   ['GV.C01Src.' + t for t in ('loop_eq', 'pointInPolygon_eq', 'pointInPolygonDefault_eq', 'boxContainsCoordinate_eq',
                                               'boxContainsCoordinate_model', 'polyContainsCoordinate_model',
                                               'src_pointInRing_eq_spec', 'src_boundary_false', 'src_inclB')])
    run.corpus(impl, spec)
    rng = run.rng
    grid = run.scale(4, 5)
    rings = simple_rings(rng, grid, (3, 4, 5) if run.quick else (3, 4, 5, 6), run.scale(60, 180))
    queries = [(F(x, 2), F(y, 2)) for x in range(-1, 2 * grid) for y in range(-1, 2 * grid)]

    # 1. constructor normalisation
    lines = []
    for r in rings:
        for v in variants(r, rng, False):
            lines.append('pip.mk ' + flat(v))
            lines.append('pip.mk ' + flat(v + [v[0]]))
            lines.append('pip.mkhole ' + flat(v))
            lines.append('pip.ccw ' + flat(v + [v[0]]))
    run.run_cases('constructor-normalisation', lines, impl, spec)

    # 2. raw ring test on every query of the half-step grid, all rotations / reversals
    lines = []
    for r in rings:
        qs = queries if not run.quick else rng.sample(queries, 30) + [q for q in queries if q in r][:3]
        for v in variants(r, rng, not run.quick)[:run.scale(2, 6)]:
            closed = v + [v[0]]
            for q in qs:
                lines.append(f'pip.ring {rat(q[0])} {rat(q[1])} ' + flat(closed))
            for q in rng.sample(qs, 3):
                lines.append(f'pip.ringb {rat(q[0])} {rat(q[1])} ' + flat(closed))
    run.run_cases('ring-halfstep-grid', lines, impl, spec, tag=classify)

    # 3. polygons with 0-2 grid-aligned holes, and boxes
    lines = []
    big = [(F(0), F(0)), (F(8), F(0)), (F(8), F(8)), (F(0), F(8))]
    shapes = []
    hole_pool = [[(F(1), F(1)), (F(3), F(1)), (F(3), F(3)), (F(1), F(3))],
                 [(F(5), F(5)), (F(7), F(5)), (F(6), F(7))],
                 [(F(4), F(1)), (F(7), F(2)), (F(5), F(2)), (F(5), F(4))],
                 [(F(1), F(5)), (F(2), F(4)), (F(3), F(5)), (F(2), F(6))]]
    # two disjoint triangular holes whose bounding boxes overlap (the second one is "behind" the first one's box)
    interlock = [[(F(1), F(1)), (F(3), F(1)), (F(1), F(3))], [(F(7, 2), F(3, 2)), (F(7, 2), F(7, 2)), (F(3, 2), F(7, 2))]]
    outers = [big, [(F(0), F(0)), (F(8), F(0)), (F(8), F(8)), (F(4), F(7)), (F(0), F(8))],
              [(F(4), F(-1)), (F(9), F(4)), (F(4), F(9)), (F(-1), F(4))]]
    for o in outers:
        for nh in (0, 1, 2):
            for hs in itertools.combinations(hole_pool, nh):
                shapes.append(('poly', o, list(hs)))
    for nh in (0, 1, 2):
        for hs in itertools.combinations(hole_pool, nh):
            shapes.append(('box', [(F(0), F(8)), (F(8), F(0))], list(hs)))
    for o in outers[:2]:
        shapes.append(('poly', o, interlock))
        shapes.append(('poly', o, interlock[::-1]))
    shapes.append(('box', [(F(0), F(8)), (F(8), F(0))], interlock))
    shapes.append(('box', [(F(0), F(8)), (F(8), F(0))], interlock[::-1]))
    qs = [(F(x, 2), F(y, 2)) for x in range(-3, 20) for y in range(-3, 20)]
    overlap_qs = [(F(x, 4), F(y, 4)) for x in range(5, 15) for y in range(5, 15)]   # inside both hole boxes
    for kind, o, hs in shapes:
        use = qs if not run.quick else rng.sample(qs, 70)
        if hs is interlock or hs == interlock[::-1]:
            use = use + (overlap_qs if not run.quick else rng.sample(overlap_qs, 40))
        for var in (variants(o, rng, False)[:2] if kind == 'poly' else [o]):
            hv = [rng.choice(variants(h, rng, True)) for h in hs]
            txt = f'{kind} {flat(var)}' + ''.join(' h ' + flat(h) for h in hv)
            for q in use:
                lines.append(f'pip.in {rat(q[0])} {rat(q[1])} {txt}')
    run.run_cases('polygons-boxes-with-holes', lines, impl, spec, tag=classify)

    # 3b. boxes: all relative positions per axis (below / on min / inside / on max / above), with and without a hole
    lines = []
    for _ in range(run.scale(40, 600)):
        x0, y0 = F(rng.randint(-40, 40), 8), F(rng.randint(-40, 40), 8)
        w, h = F(rng.randint(1, 32), 8), F(rng.randint(1, 32), 8)
        txt = f'box {rat(x0)} {rat(y0 + h)} {rat(x0 + w)} {rat(y0)}'
        if rng.random() < 0.4:
            hole = [(x0 + w / 4, y0 + h / 4), (x0 + w / 2, y0 + h / 4), (x0 + w / 2, y0 + h / 2), (x0 + w / 4, y0 + h / 2)]
            txt += ' h ' + flat(rng.choice(variants(hole, rng, True)))
        for qx in (x0 - F(1, 8), x0, x0 + w / 4, x0 + w / 2, x0 + w * F(3, 8), x0 + w, x0 + w + F(1, 8)):
            for qy in (y0 - F(1, 8), y0, y0 + h / 4, y0 + h / 2, y0 + h * F(3, 8), y0 + h, y0 + h + F(1, 8)):
                lines.append(f'pip.in {rat(qx)} {rat(qy)} {txt}')
    run.run_cases('boxes-all-relative-positions', lines, impl, spec, tag=classify)

    # 3c. the same geometry at every scale: dyadic scaling / translation keeps all arithmetic exact, so metre-scale
    #     shapes (vertex spacing ~1e-6 deg) must answer exactly like their grid-scale originals
    lines = []
    for r in rng.sample(rings, min(len(rings), run.scale(25, 200))):
        k = rng.choice([8, 16, 20, 24, 30])
        sc = F(1, 2 ** k)
        ox, oy = F(rng.randint(-170, 170)), F(rng.randint(-80, 80))
        if k >= 24:
            ox, oy = ox / 64, oy / 64          # keep lon/lat + offset within the 53-bit mantissa
        ring = [(ox + x * sc, oy + y * sc) for x, y in r]
        for q in rng.sample(queries, run.scale(12, 40)):
            lines.append(f'pip.in {rat(ox + q[0] * sc)} {rat(oy + q[1] * sc)} poly {flat(ring)}')
    run.run_cases('scaled-and-translated', lines, impl, spec, tag=classify)

    # 3d. continent- and globe-sized shapes: rings whose extent exceeds 180 degrees of longitude (no single edge does, so
    #     nothing wraps) or reaches the poles; plane geometry does not change with size, and nothing in the membership
    #     path may read a wide extent as "crosses the antimeridian" (seeded change C01-q2 swapped the bounds of any polygon
    #     wider than 180 degrees)
    lines = []
    for _ in range(run.scale(12, 120)):
        x0 = F(rng.choice([-170, -150, -120, -100]))
        x1 = F(rng.choice([100, 120, 150, 170]))
        y0 = F(rng.choice([-80, -60, -30, -10]))
        y1 = F(rng.choice([10, 30, 60, 85]))
        nx = rng.choice([3, 4, 5])
        xs_ = [x0 + (x1 - x0) * F(i, nx) for i in range(nx + 1)]
        ring = [(x, y0) for x in xs_] + [(x, y1) for x in reversed(xs_)]
        if rng.random() < 0.5:      # a notch from the top edge, so the ring is not a plain rectangle
            m = len(xs_) // 2
            ring = ring[:nx + 1] + [(x, y1) for x in reversed(xs_[m + 1:])] + [(xs_[m], (y0 + y1) / 2)] + \
                [(x, y1) for x in reversed(xs_[:m])]
        holes = []
        if rng.random() < 0.5:
            hx, hy = (x0 + x1) / 2 + 20, y0 + (y1 - y0) / 8
            holes.append([(hx, hy), (hx + 30, hy), (hx + 30, hy + (y1 - y0) / 8), (hx, hy + (y1 - y0) / 8)])
        var = rng.choice(variants(ring, rng, True))
        txt = f'poly {flat(var)}' + ''.join(' h ' + flat(h) for h in holes)
        qs = [(F(qx), F(qy)) for qx in (-175, x0, x0 + 1, -45, 0, 30, (x0 + x1) / 2 + 25, x1 - 1, x1, 175)
              for qy in (y0 - 1, y0, y0 + 1, y0 + (y1 - y0) * F(3, 16), (y0 + y1) / 2, y1 - 1, y1, min(y1 + 2, 90))]
        for q in rng.sample(qs, run.scale(24, 60)):
            lines.append(f'pip.in {rat(q[0])} {rat(q[1])} {txt}')
    run.run_cases('globe-sized-rings', lines, impl, spec, tag=classify)

    # 4. random: star-shaped and orthogonal rings up to 12 vertices on a 1/8 grid, queries snapped to vertex
    #    latitudes / longitudes with probability 1/2
    lines = []
    n = run.scale(400, 8000)
    for _ in range(n):
        ring = random_ring(rng)
        if ring is None:
            continue
        ring = rng.choice(variants(ring, rng, True))
        xs = [p[0] for p in ring]
        ys = [p[1] for p in ring]
        for _q in range(6):
            qx = rng.choice(xs) if rng.random() < 0.5 else F(rng.randint(int(min(xs) * 8) - 4, int(max(xs) * 8) + 4), 8)
            qy = rng.choice(ys) if rng.random() < 0.5 else F(rng.randint(int(min(ys) * 8) - 4, int(max(ys) * 8) + 4), 8)
            if rng.random() < 0.15:   # a point on an edge
                i = rng.randrange(len(ring))
                a, b = ring[i], ring[(i + 1) % len(ring)]
                t = F(rng.randint(0, 4), 4)
                qx, qy = a[0] + (b[0] - a[0]) * t, a[1] + (b[1] - a[1]) * t
            lines.append(f'pip.in {rat(qx)} {rat(qy)} poly {flat(ring)}')
    run.run_cases('random-rings', lines, impl, spec, tag=classify)

    # 7. one object, many questions: a polygon (with a hole) around the origin is asked every point of the whole-degree lattice
    #    -3..3 in a seeded order — whole degrees so that ordinates with equal CPython hashes meet (hash(-1.0) == hash(-2.0):
    #    seeded change C01-s2 memoised the answer per polygon object under hash(coord)) — and its exact answer is compared
    #    per position (no Lean side: the theorems are about single queries; the oracle is the exact even-odd test)
    lines = []
    lattice = [(F(x), F(y)) for x in range(-3, 4) for y in range(-3, 4)]
    seq_shapes = [
        'poly ' + flat([(F(-5, 2), F(-5, 2)), (F(5, 2), F(-5, 2)), (F(5, 2), F(5, 2)), (F(-5, 2), F(5, 2))])
        + ' h ' + flat([(F(-3, 2), F(-3, 2)), (F(-1, 2), F(-3, 2)), (F(-1, 2), F(1, 2)), (F(-3, 2), F(1, 2))]),
        'poly ' + flat([(F(-3, 2), F(-7, 2)), (F(7, 2), F(-3, 2)), (F(3, 2), F(7, 2)), (F(-7, 2), F(3, 2))]),
        'poly ' + flat([(F(-3, 2), F(-5, 2)), (F(5, 2), F(-5, 2)), (F(5, 2), F(5, 2)), (F(-3, 2), F(5, 2))]),
        'box ' + flat([(F(-3, 2), F(5, 2)), (F(5, 2), F(-5, 2))]) + ' h ' + flat([(F(-1, 2), F(-3, 2)), (F(3, 2), F(-3, 2)), (F(1, 2), F(-1, 2))]),
    ]
    for txt in seq_shapes:
        for _ in range(run.scale(6, 60)):
            qs = rng.sample(lattice, len(lattice))
            lines.append(f'pip.inseq {len(qs)} ' + ' '.join(f'{rat(q[0])} {rat(q[1])}' for q in qs) + ' ' + txt)
    # … and one box whose corners are re-assigned between two identical questions (seeded change C01-v2: `bounds` became a
    # cached_property that `contains_coordinate` reads)
    for _ in range(run.scale(60, 600)):
        w1, e1 = sorted(rng.sample(range(-4, 5), 2))
        s1, n1 = sorted(rng.sample(range(-4, 5), 2))
        w2, e2 = sorted(rng.sample(range(-4, 5), 2))
        s2, n2 = sorted(rng.sample(range(-4, 5), 2))
        q = (F(rng.randint(-9, 9), 2), F(rng.randint(-9, 9), 2))
        lines.append(f'pip.boxmove {rat(q[0])} {rat(q[1])} {w1} {n1} {e1} {s1} {w2} {n2} {e2} {s2}')
    run.run_cases('same-object-query-sequences', lines, impl, spec, model=False,
                  tag=lambda ln, a: ['inseq:' + ('ok' if set(a) <= set('TF') else a[:12])])

    return run.finish(
        rule='simple rings with 3-5(6) vertices on a small integer grid (all / seeded sample), every rotation and reversal, '
             'x every query of the half-step grid (on a vertex, on an edge, on a horizontal edge, level with a vertex '
             'inside and outside occur by construction); polygons and boxes with 0-2 holes; random star/orthogonal '
             'rings on a 1/8 grid with queries snapped to vertex coordinates. Distinct by protocol line; all are '
             'non-trivial (each is a distinct ring/query placement); the histogram gives the split per position class.',
        assumptions=['Jordan link between even-odd crossing parity and topological insideness for simple polygons is assumed '
                     '(validated here against an independent winding-number oracle)',
                     'exact rational model; correspondence on dyadic grids where binary64 arithmetic is exact',
                     'antimeridian-spanning shapes are outside the statement'],
        checker_cmd='cd lean && lake build GeoVerif.Props.C01 && lake env lean .lake/audit/C01.lean  (#print axioms)')


def random_ring(rng):
    kind = rng.random()
    cx, cy = F(rng.randint(-16, 16), 4), F(rng.randint(-16, 16), 4)
    if kind < 0.5:
        # star-shaped: sort random directions by exact angle (half-plane + cross product)
        n = rng.randint(3, 12)
        dirs = set()
        while len(dirs) < n:
            d = (rng.randint(-8, 8), rng.randint(-8, 8))
            if d != (0, 0):
                g = _gcd(abs(d[0]), abs(d[1]))
                dirs.add((d[0] // g, d[1] // g))
        import functools
        def half(d):
            return 0 if (d[1] > 0 or (d[1] == 0 and d[0] > 0)) else 1
        def cmp(a, b):
            if half(a) != half(b):
                return half(a) - half(b)
            c = a[0] * b[1] - a[1] * b[0]
            return -1 if c > 0 else (1 if c < 0 else 0)
        ds = sorted(dirs, key=functools.cmp_to_key(cmp))
        ring = [(cx + F(d[0] * rng.randint(1, 4), 8), cy + F(d[1] * rng.randint(1, 4), 8)) for d in ds]
    else:
        # orthogonal staircase polygon
        k = rng.randint(2, 5)
        xs = sorted(rng.sample(range(0, 24), k + 1))
        hs = [rng.randint(1, 12) for _ in range(k)]
        ring = [(cx + F(xs[0], 8), cy)]
        for i in range(k):
            ring.append((cx + F(xs[i], 8), cy + F(hs[i], 8)))
            ring.append((cx + F(xs[i + 1], 8), cy + F(hs[i], 8)))
        ring.append((cx + F(xs[k], 8), cy))
        # drop repeated points
        out = []
        for p in ring:
            if not out or out[-1] != p:
                out.append(p)
        ring = out
    return ring if planar.is_simple(ring) else None


def _gcd(a, b):
    while b:
        a, b = b, a % b
    return a or 1
