"""C19 — coordinate text (DMS, QDMS) and grid (MGRS, projection) formats round-trip within their resolution."""
import math
from fractions import Fraction

import common
from common import rat

MODULE = 'GeoVerif.Props.C19'
THEOREMS = ['GV.C19.' + t for t in (
    'roundHalfUp_err', 'roundHalfUp_grid', 'convertRaw_exact', 'dms_fields_range', 'dmsValue_mkDMS',
    'dms_roundtrip_bound', 'dms_roundtrip_coord', 'dms_hemisphere', 'dms_sign',
    'natStr_length', 'digitsVal_natStr', 'parse_zeroPad', 'hundredths_le', 'axis_length', 'qdms_lengths',
    'qconvert_axis', 'qdms_parse_format', 'axisValue_err', 'round6_on_hundredths', 'qdms_roundtrip_bound',
    'qdms_roundtrip_bound_tight', 'qdms_roundtrip_coord', 'sec5_exact_6dec', 'qdms_roundtrip_6dec')]

ARCSEC = Fraction(1, 3600)
KEY_F19B = 'Coordinate.to_projection/wrapped'
KEY_F19C = 'Coordinate.from_qdms/6-decimal-rounding'
# the model's proved (and attained) worst case of to_qdms -> from_qdms, GV.C19.qdmsWorst:
# 0.005" + 0.000005" + 4/9 of 1e-6 degree = 0.006605"
QDMS_WORST = (Fraction(5, 1000) + Fraction(5, 10 ** 6)) * ARCSEC + Fraction(4, 9 * 10 ** 6)


def dec(x):
    """the decimal a float's repr denotes (what `round(x, p)` / `f'{x:.2f}'` mean as text), exact"""
    return Fraction(repr(float(x)))


def stok(s):
    return "'" + s


def unstok(t):
    assert t.startswith("'")
    return t[1:]


def circ(d):
    d = abs(d) % 360
    return min(d, 360 - d)


# ---- implementation side ---------------------------------------------------------------------------

def _c(lon, lat):
    from geostructures.coordinates import Coordinate
    return Coordinate(float(Fraction(lon)), float(Fraction(lat)))


def _show_dms(t):
    d, m, s, h = t
    if not (isinstance(d, int) and isinstance(m, int) and isinstance(s, float) and isinstance(h, str)):
        return 'TYPE!'
    return f'{d} {m} {rat(dec(s))} {h}'


def _show_c(c):
    return f'{rat(c.longitude)} {rat(c.latitude)}'


def _show_c_dec(c):
    return f'{rat(dec(c.longitude))} {rat(dec(c.latitude))}'


def haversine_m(lon1, lat1, lon2, lat2):
    R = 6371008.8
    p1, p2 = math.radians(lat1), math.radians(lat2)
    dl = math.radians(lon2 - lon1)
    a = math.sin((p2 - p1) / 2) ** 2 + math.cos(p1) * math.cos(p2) * math.sin(dl / 2) ** 2
    return 2 * R * math.asin(min(1.0, math.sqrt(a)))


def _num(tok):
    """number token of a fromdms line: `i<int>` -> int, `p/q` -> float"""
    return int(tok[1:]) if tok.startswith('i') else float(Fraction(tok))


_TIMEOUTS = {'n': 0}


def impl(line):
    """after three watchdog time-outs every further model-stream call gets 50 ms instead of 2-10 s"""
    # (the framework's own patience ends after five confirmed time-outs: common.Run.call_impl)
    try:
        return _impl(line)
    except common.ImplTimeout:
        _TIMEOUTS['n'] += 1
        raise


def _impl(line):
    from geostructures.coordinates import Coordinate
    cmd, *a = line.split()
    pre, op = cmd.split('.', 1)
    if pre == 'np':
        return impl_np(op, a)
    if op == 'todms':
        lo, la = _c(a[0], a[1]).to_dms()
        return _show_dms(lo) + ' ' + _show_dms(la)
    if op == 'fromdms':
        lo = (_num(a[0]), _num(a[1]), _num(a[2]), a[3])
        la = (_num(a[4]), _num(a[5]), _num(a[6]), a[7])
        return _show_c(Coordinate.from_dms(lo, la))
    if op == 'dmsrt':
        return _show_c(Coordinate.from_dms(*_c(a[0], a[1]).to_dms()))
    if op == 'toqdms':
        r = _c(a[1], a[2]).to_qdms(a[0] == 'T')
        if not (isinstance(r, tuple) and len(r) == 2 and all(isinstance(x, str) and x and ' ' not in x for x in r)):
            return 'TYPE!'
        return f'{r[0]} {r[1]}'
    if op == 'fromqdms':
        return _show_c_dec(Coordinate.from_qdms(unstok(a[0]), unstok(a[1])))
    if op == 'fromqdmsw':        # values outside the canonical range: the wrapped float is not a 6-decimal
        return _show_c(Coordinate.from_qdms(unstok(a[0]), unstok(a[1])))
    if op == 'qdmsrt':
        return _show_c_dec(Coordinate.from_qdms(*_c(a[0], a[1]).to_qdms()))
    raise ValueError('unknown op ' + op)


_MG = None


def _mgrs():
    global _MG
    if _MG is None:
        import mgrs
        _MG = mgrs.MGRS()
    return _MG


def impl_np(op, a):
    from geostructures.coordinates import Coordinate
    if op.startswith('mgrs'):
        lon, lat = float(Fraction(a[0])), float(Fraction(a[1]))
        # a height / measure on the coordinate must not reach the grid reference (seeded change C19-u1 spilled
        # `to_float()` — which carries Z and M — into the MGRS call, where they became `inDegrees` and the precision)
        zm = {t[0]: float(t[2:]) for t in a[2:] if t[:2] in ('z=', 'm=')}
        c = Coordinate(lon, lat, **zm)
        if op == 'mgrs-rt':          # our writer, our reader
            c2 = Coordinate.from_mgrs(c.to_mgrs())
        elif op == 'mgrs-to':        # our writer, the library's reader
            la, lo = _mgrs().toLatLon(c.to_mgrs())
            c2 = Coordinate(lo, la)
        elif op == 'mgrs-from':      # the library's writer (optionally blank-separated), our reader
            s = _mgrs().toMGRS(c.latitude, c.longitude)
            if len(a) > 2 and a[2] == 'sp':
                n = (len(s) - 5 + (len(s) % 2 == 0)) // 2 if s[0].isdigit() else (len(s) - 3) // 2
                s = s[:len(s) - 2 * n] + ' ' + s[len(s) - 2 * n:len(s) - n] + ' ' + s[len(s) - n:]
            c2 = Coordinate.from_mgrs(s)
        else:
            raise ValueError(op)
        d = haversine_m(c.longitude, c.latitude, c2.longitude, c2.latitude)
        return 'ok' if d <= 1.5 else f'far:{d:.3f}m'
    if op.startswith('proj'):
        from pyproj import Transformer
        crs = a[0]
        lon, lat = float(Fraction(a[1])), float(Fraction(a[2]))
        c = Coordinate(lon, lat)
        x, y = Transformer.from_crs('EPSG:4326', crs).transform(c.latitude, c.longitude)   # independent forward
        if op == 'proj-from':        # independent forward, our inverse
            c2 = Coordinate.from_projection(y, x, crs)
            d = haversine_m(c.longitude, c.latitude, c2.longitude, c2.latitude)
            return 'ok' if d <= 1.0 else f'far:{d:.3f}m'
        p = c.to_projection(crs)
        if op == 'proj-to':          # projected values as-is (to 1e-6 of a unit)
            ok = abs(p.longitude - y) <= 1e-6 + 1e-12 * abs(y) and abs(p.latitude - x) <= 1e-6 + 1e-12 * abs(x)
            return 'ok' if ok else f'differs:({p.longitude!r},{p.latitude!r})!=({y!r},{x!r})'
        if op == 'proj-rt':          # our forward, our inverse
            c2 = Coordinate.from_projection(p.longitude, p.latitude, crs)
            d = haversine_m(c.longitude, c.latitude, c2.longitude, c2.latitude)
            return 'ok' if d <= 1.0 else f'far:{d:.3f}m'
    raise ValueError('unknown op ' + op)


# ---- the property, stated independently of the model -------------------------------------------------

def canon(lon, lat):
    """canonical representative of a point (closed form; same as the C08 oracle)"""
    t = (lat + 90) % 360
    if t <= 180:
        la, shift = t - 90, 0
    else:
        la, shift = 270 - t, 180
    return (lon + shift + 180) % 360 - 180, la


def spec(line):
    cmd, *a = line.split()
    pre, op = cmd.split('.', 1)
    if pre == 'np':
        return 'ok'
    if op in ('todms', 'dmsrt', 'qdmsrt'):
        lo, la = canon(Fraction(a[0]), Fraction(a[1]))
        return f'{op} {rat(lo)} {rat(la)}'
    if op == 'toqdms':
        lo, la = canon(Fraction(a[1]), Fraction(a[2]))
        return f'toqdms{a[0]} {rat(lo)} {rat(la)}'
    if op == 'fromdms':
        def v(d, m, s, h):
            return (-1 if h in ('S', 'W') else 1) * (Fraction(_num(d)) + Fraction(_num(m)) / 60 + Fraction(_num(s)) / 3600)
        lo, la = canon(v(*a[0:4]), v(*a[4:8]))
        return f'fromdms {rat(lo)} {rat(la)}'
    if op in ('fromqdms', 'fromqdmsw'):
        lon, lat = unstok(a[0]), unstok(a[1])
        if not (len(lon) == 10 and len(lat) == 9 and lon[1:].isdigit() and lat[1:].isdigit()
                and lon[1:].isascii() and lat[1:].isascii() and lon[0] in 'EW' and lat[0] in 'NS'):
            return None                            # the property only speaks about well-formed QDMS text

        def v(q, d, m, s):
            return (-1 if q in 'WS' else 1) * (Fraction(int(d)) + Fraction(int(m), 60) + Fraction(int(s), 360000))
        lo, la = canon(v(lon[0], lon[1:4], lon[4:6], lon[6:]), v(lat[0], lat[1:3], lat[3:5], lat[5:]))
        return f'fromqdms {rat(lo)} {rat(la)}'
    return None


def _close(a, lo, la, tol):
    p = a.split()
    x, y = Fraction(p[0]), Fraction(p[1])
    if abs(la) == 90 and y == la:
        return True
    return circ(x - lo) <= tol and abs(y - la) <= tol


def _dms_ok(f, dd, letters, tol):
    d, m, s, h = int(f[0]), int(f[1]), Fraction(f[2]), f[3]
    if not (0 <= d and 0 <= m <= 59 and 0 <= s <= 60):
        return False
    if h not in letters or (dd > 0 and h != letters[0]) or (dd < 0 and h != letters[1]):
        return False
    return abs(d + Fraction(m, 60) + s / 3600 - abs(dd)) <= tol


def _qdms_ok(s, w, dd, letters, tol):
    if len(s) != w + 7 or not (s[1:].isdigit() and s[1:].isascii()):
        return False
    h = s[0]
    if h not in letters or (dd > 0 and h != letters[0]) or (dd < 0 and h != letters[1]):
        return False
    v = int(s[1:1 + w]) + Fraction(int(s[1 + w:3 + w]), 60) + Fraction(int(s[3 + w:]), 360000)
    return abs(v - abs(dd)) <= tol


NOISE = Fraction(1, 10 ** 9) * ARCSEC     # float noise of abs(dd)*3600 (<= 1.5e-10") with margin


def spec_compare(a, s):
    """does the implementation's answer `a` satisfy what the property demands (`s` = op + exact stored lon lat)"""
    if a == s:
        return True
    if a.startswith('ERR') or a in ('TIMEOUT', 'TYPE!') or ' ' not in s:
        return False
    op, lo, la = s.split()
    lo, la = Fraction(lo), Fraction(la)
    p = a.split()
    if op == 'todms':          # hemisphere = sign, fields in range, value within the 5-decimal resolution
        tol = Fraction(1, 10 ** 5) * ARCSEC + NOISE
        return len(p) == 8 and _dms_ok(p[0:4], lo, 'EW', tol) and _dms_ok(p[4:8], la, 'NS', tol)
    if op == 'dmsrt':          # 0.00001"
        return _close(a, lo, la, Fraction(1, 10 ** 5) * ARCSEC + NOISE)
    if op == 'fromdms':
        return _close(a, lo, la, Fraction(1, 10 ** 11))
    if op in ('toqdmsF', 'toqdmsT'):   # 10 and 9 characters, hemisphere = sign, value within 0.005" (+ first rounding)
        tol = (Fraction(5, 1000) + Fraction(5, 10 ** 6)) * ARCSEC + NOISE
        x, y = (p[1], p[0]) if op.endswith('T') else (p[0], p[1])
        return _qdms_ok(x, 3, lo, 'EW', tol) and _qdms_ok(y, 2, la, 'NS', tol)
    if op == 'fromqdms':       # the text's own value, to the 0.005" the format resolves
        return _close(a, lo, la, Fraction(5, 1000) * ARCSEC)
    if op == 'qdmsrt':         # 0.005"
        return _close(a, lo, la, Fraction(5, 1000) * ARCSEC)
    return False


def known_key(line, a, s):
    """classify a spec mismatch: F19c = qdms round trip of a >6-decimal input off by more than 0.005" but within
    the model's proved worst case; F19b = projected values wrapped into degree ranges"""
    cmd, *args = line.split()
    if cmd == 'dms.qdmsrt' and not (a.startswith('ERR') or a in ('TIMEOUT', 'TYPE!')):
        _op, lo, la = s.split()
        if _close(a, Fraction(lo), Fraction(la), QDMS_WORST + NOISE):
            return KEY_F19C
    if cmd in ('np.proj-to', 'np.proj-rt'):
        from pyproj import Transformer
        c = _c(args[1], args[2])
        x, y = Transformer.from_crs('EPSG:4326', args[0]).transform(c.latitude, c.longitude)
        if not (-180 <= y < 180 and -90 <= x <= 90):        # the raw projected pair is not a degree pair
            return KEY_F19B
    return cmd


def impl_for(_line):
    return impl


def spec_for(_line):
    return spec


# ---- classification: is any rounding / floor boundary of the exact model within float noise? ----------

def axis_safe(dd):
    """to_dms on this value: the float chain and the exact chain provably pick the same branch"""
    t = abs(dd) * 3600
    r = t % 60
    eps = Fraction(1, 10 ** 6)
    if t.denominator == 1:
        return True                     # abs(dd) * 3600 is an integer: the float product is exact
    if not (eps < r < 60 - eps):
        return False
    u = (r * 10 ** 5) % 1
    return abs(u - Fraction(1, 2)) > Fraction(1, 1000)


def safe(lon, lat):
    return axis_safe(Fraction(lon)) and axis_safe(Fraction(lat))


def num_compare(tol):
    def cmp(a, m):
        if a == m:
            return True
        if a.startswith('ERR') or m.startswith('ERR') or a in ('TIMEOUT', 'TYPE!'):
            return False
        p, q = a.split(), m.split()
        return (circ(Fraction(p[0]) - Fraction(q[0])) <= tol and abs(Fraction(p[1]) - Fraction(q[1])) <= tol)
    return cmp


def _dms_total(f):
    return int(f[0]) * 3600 + int(f[1]) * 60 + Fraction(f[2]), f[3]


def todms_near_compare(a, m):
    """near a boundary the float chain may write (d, m-1, 60.0) for (d, m, 0.0) or round the 5th decimal the
    other way: same hemisphere, total seconds within one unit of the last place"""
    if a == m:
        return True
    p, q = a.split(), m.split()
    if len(p) != 8 or len(q) != 8:
        return False
    for i in (0, 4):
        (ta, ha), (tm, hm) = _dms_total(p[i:i + 4]), _dms_total(q[i:i + 4])
        if ha != hm or abs(ta - tm) > Fraction(1, 10 ** 5):
            return False
    return True


def _qdms_total(s, w):
    return int(s[1:1 + w]) * 360000 + int(s[1 + w:3 + w]) * 6000 + int(s[3 + w:])


def toqdms_near_compare(a, m):
    if a == m:
        return True
    p, q = a.split(), m.split()
    if len(p) != 2 or len(q) != 2 or [len(x) for x in p] != [len(x) for x in q]:
        return False
    for x, y in zip(p, q):
        w = len(x) - 7
        if x[0] != y[0] or not x[1:].isdigit() or abs(_qdms_total(x, w) - _qdms_total(y, w)) > 1:
            return False
    return True


# ---- generators -------------------------------------------------------------------------------------

def dms_value(d, m, s):
    return Fraction(d) + Fraction(m, 60) + Fraction(s) / 3600


def gen_coords(run):
    """(lon, lat) floats inside the canonical range, tagged"""
    rng = run.rng
    out = []
    signs = [(1, 1), (1, -1), (-1, 1), (-1, -1)]
    # exhaustive: seconds whole / trailing-zero hundredths / rounding up to 60 / minute and degree boundaries
    secs = [Fraction(0), Fraction(12), Fraction(1, 5), Fraction(101, 10), Fraction(3, 2), Fraction(5997, 100),
            Fraction(59996, 1000), Fraction(599951, 10000), Fraction(59999996, 10 ** 6), Fraction(30005, 1000),
            Fraction(12004999, 10 ** 6), Fraction(9), Fraction(999, 100), Fraction(59)]
    for (sx, sy) in signs:
        for s in secs:
            for (d, m) in ((0, 0), (0, 7), (12, 59), (89, 59), (51, 30)):
                lon = sx * dms_value(d + (90 if d < 89 else 0), m, s)
                lat = sy * dms_value(d, m, s)
                out.append((float(lon), float(lat), 'grid'))
                out.append((float(round(lon, 6)), float(round(lat, 6)), '6dec'))
    for lon, lat in ((0.0, 0.0), (-0.0, -0.0), (-180.0, 90.0), (-180.0, -90.0), (179.999999, 89.999999),
                     (-179.999999, -89.999999), (179.99999999999997, 89.99999999999999), (1e-7, -1e-7),
                     (5e-324, -5e-324), (-0.118092, 51.509865), (100.0, 10.0), (9.999999, 9.999999), (99.5, 9.5)):
        out.append((lon, lat, 'special'))
    n = run.scale(1500, 60000)
    for _ in range(n):
        r = rng.random()
        sx, sy = rng.choice(signs)
        if r < 0.35:                                # <= 6 decimals
            k = rng.choice([1, 2, 3, 4, 5, 6])
            lon = round(sx * rng.uniform(0, 180), k)
            lat = round(sy * rng.uniform(0, 90), k)
            tag = '6dec'
        elif r < 0.55:                              # whole / hundredth seconds typed as d + m/60 + s/3600
            s = Fraction(rng.randrange(0, 6000), rng.choice([1, 10, 100])) % 60
            lon = float(sx * dms_value(rng.randrange(0, 180), rng.randrange(0, 60), s))
            lat = float(sy * dms_value(rng.randrange(0, 90), rng.randrange(0, 60), s))
            tag = 'grid'
        elif r < 0.65:                              # multiples of 0.05 degrees: whole minutes (floor boundary)
            lon = sx * rng.randrange(0, 3600) / 20
            lat = sy * rng.randrange(0, 1800) / 20
            tag = '6dec'
        elif r < 0.72:                              # just below a whole minute: seconds round up to 60
            lon = float(sx * (dms_value(rng.randrange(0, 180), rng.randrange(1, 60), 0) - Fraction(rng.randrange(1, 40), 10 ** 10)))
            lat = float(sy * (dms_value(rng.randrange(0, 90), rng.randrange(1, 60), 0) - Fraction(rng.randrange(1, 40), 10 ** 10)))
            tag = 'float'
        else:
            lon = sx * rng.uniform(0, 180)
            lat = sy * rng.uniform(0, 90)
            tag = 'float'
        if lon >= 180:
            lon = -180.0
        out.append((lon, lat, tag))
    return out


def gen_qdms_text(run):
    rng = run.rng
    ok, wrapped, bad = [], [], []

    def txt(q, w, d, m, h):
        return f'{q}{d:0{w}d}{m:02d}{h:04d}'
    hs = [0, 1, 10, 100, 120, 1200, 1201, 513, 5999, 6000, 999, 1000, 3551]
    for qx in 'EW':
        for qy in 'NS':
            for h in hs:
                for (d, m) in ((0, 0), (0, 7), (51, 30), (89, 59), (12, 0)):
                    ok.append((txt(qx, 3, d + (90 if d < 89 else 0), m, h), txt(qy, 2, d, m, h)))
    ok += [('E1800000000', 'N90000000'), ('W1800000000', 'S90000000'), ('E0000000000', 'S00000000'),
           ('W0000000000', 'N00000000'), ('W000070513', 'N51303551')]
    for _ in range(run.scale(1200, 40000)):
        ok.append((txt(rng.choice('EW'), 3, rng.randrange(0, 180), rng.randrange(0, 60), rng.randrange(0, 6001)),
                   txt(rng.choice('NS'), 2, rng.randrange(0, 90), rng.randrange(0, 60), rng.randrange(0, 6001))))
    for _ in range(run.scale(200, 4000)):           # out-of-range fields: still numbers, wrapped by the constructor
        wrapped.append((txt(rng.choice('EW'), 3, rng.randrange(180, 1000), rng.randrange(0, 100), rng.randrange(0, 10000)),
                        txt(rng.choice('NS'), 2, rng.randrange(0, 100), rng.randrange(0, 100), rng.randrange(0, 10000))))
    # malformed: letters Python's float() rejects too, wrong lengths, empty, odd hemisphere letters
    good = ('W000070513', 'N51303551')
    bad += [('', good[1]), (good[0], ''), ('E', 'N'), ('E0', 'N0'), ('E000', 'N00'), ('E00007', 'N5130'),
            ('E0000705', 'N513035'), ('E00007051', 'N5130355'), ('E0000705131', 'N513035511'),
            ('E00007051312345', 'N5130355112345'), ('X000070513', 'Q51303551'), ('w000070513', 's51303551'),
            ('EX00070513', good[1]), ('E000X70513', good[1]), ('E00007X513', good[1]), ('E0000705X3', good[1]),
            (good[0], 'NX1303551'), (good[0], 'N51X03551'), (good[0], 'N5130X551'), (good[0], 'N513035X1'),
            ('E000070', 'N51303'), ('E0000705', 'N5130355'), ('#000070513', '#51303551'), ('E00007051Z', 'N5130355Z'),
            ('E00007051399', 'N51303551999'), ('E0000705139999', 'N5130355199'), (good[0], 'N513035519'),
            ('E0000705139', good[1])]
    for _ in range(run.scale(150, 3000)):
        lo, la = list(good[0]), list(good[1])
        which = rng.choice([lo, la])
        r = rng.random()
        if r < 0.3:
            which[rng.randrange(1, len(which))] = rng.choice('XQZ#')
        elif r < 0.5:
            del which[rng.randrange(0, len(which)):]
        elif r < 0.8:                                # over-long: extra digits extend the seconds' decimals
            which += [rng.choice('0123456789') for _ in range(rng.randrange(1, 4))]
        else:
            which[0] = rng.choice('EWNSXews')
        bad.append((''.join(lo), ''.join(la)))
    return ok, wrapped, bad


CRS = ['EPSG:3857', 'EPSG:32631', 'EPSG:3395', 'EPSG:4087', 'EPSG:2154', 'EPSG:4326', 'EPSG:5041', 'EPSG:32733',
       'EPSG:4277', 'EPSG:4230']     # the last two: geographic CRSs on another datum (a degree pair that is *not* the input, C19-t2)


SRC_THEOREMS = ['GV.C19Src.' + t for t in (
    'convert_eq', 'toDms_eq', 'fromDms_convert_eq', 'fromDms_eq', 'zeroPadStr_eq', 'zeroPadInt_eq', 'toQdms_eq',
    'parseFloat_seconds', 'fromQdms_convert_eq', 'fromQdms_eq', 'toQdms_dotFree',
    'src_dms_roundtrip', 'src_dms_hemisphere', 'src_qdms_roundtrip', 'src_qdms_lengths')]


def check(run):
    run.prove(MODULE, THEOREMS)
    run.source_tie(['SrcDms'], 'GeoVerif.Props.C19Src', SRC_THEOREMS)
    rng = run.rng
    coords = gen_coords(run)

    def tag_c(ln, a):
        p = ln.split()
        lo, la = Fraction(p[-2]), Fraction(p[-1])
        dlo, dla = (lo * 10 ** 6).denominator == 1, (la * 10 ** 6).denominator == 1
        t = ['sign:' + ('+' if lo >= 0 else '-') + ('+' if la >= 0 else '-'),
             'decimals:' + ('<=6' if (dec(float(lo)) * 10 ** 6).denominator == 1 else '>6')]
        r = round((abs(lo) * 3600) % 60, 8)
        if r in (0, 60):
            t.append('sec:whole-minute')
        elif r.denominator == 1:
            t.append('sec:whole')
        elif (r * 10).denominator == 1:
            t.append('sec:trailing-zero-hundredths')
        if r >= Fraction(59995, 1000):
            t.append('sec:rounds-up-to-60')
        return t

    # ---- to_dms / from_dms --------------------------------------------------------------------------------
    ex, near = [], []
    for lon, lat, _t in coords:
        (ex if safe(lon, lat) else near).append(f'{rat(lon)} {rat(lat)}')
    ex, near = list(dict.fromkeys(ex)), list(dict.fromkeys(near))
    run.run_cases('todms-exact', ['dms.todms ' + x for x in ex], impl, spec, spec_compare=spec_compare, tag=tag_c)
    run.run_cases('todms-nearboundary', ['dms.todms ' + x for x in near], impl, spec, spec_compare=spec_compare,
                  compare=todms_near_compare, tag=tag_c)
    run.run_cases('dms-roundtrip', ['dms.dmsrt ' + x for x in ex + near], impl, spec, spec_compare=spec_compare,
                  compare=num_compare(Fraction(1, 10 ** 11) + Fraction(1, 10 ** 5) * ARCSEC), tag=tag_c)
    lines = []
    for _ in range(run.scale(800, 20000)):
        def one(dmax):
            d, m = rng.randrange(0, dmax + 1), rng.randrange(0, 60)
            s = float(Fraction(rng.randrange(0, 6000001), 10 ** rng.choice([0, 2, 5])) % 61)
            dt = f'i{d}' if rng.random() < 0.7 else rat(float(d))
            mt = f'i{m}' if rng.random() < 0.7 else rat(float(m))
            return f'{dt} {mt} {rat(s)}'
        lines.append(f'dms.fromdms {one(180)} {rng.choice("EWew")} {one(90)} {rng.choice("NSnX")}')
    lines += ['dms.fromdms i0 i0 0 E i0 i0 0 N', f'dms.fromdms i0 i7 {rat(5.1312)} W i51 i30 {rat(35.514)} N',
              'dms.fromdms i180 i0 0 E i90 i0 0 N', 'dms.fromdms i180 i0 0 W i90 i0 0 S',
              f'dms.fromdms i179 i59 {rat(60.0)} E i89 i59 {rat(60.0)} S']
    run.run_cases('fromdms', lines, impl, spec, spec_compare=spec_compare, compare=num_compare(Fraction(1, 10 ** 11)),
                  tag=lambda ln, a: ['hemi:' + ln.split()[4] + ln.split()[8]])

    # ---- to_qdms / from_qdms ------------------------------------------------------------------------------
    run.run_cases('toqdms-exact', [f'dms.toqdms {rng.choice("FFT")} {x}' for x in ex], impl, spec,
                  spec_compare=spec_compare, tag=tag_c)
    run.run_cases('toqdms-nearboundary', [f'dms.toqdms F {x}' for x in near], impl, spec, spec_compare=spec_compare,
                  compare=toqdms_near_compare, tag=tag_c)
    ok, wrapped, bad = gen_qdms_text(run)
    run.run_cases('fromqdms-exact', [f'dms.fromqdms {stok(a)} {stok(b)}' for a, b in dict.fromkeys(ok)], impl, spec,
                  spec_compare=spec_compare, tag=lambda ln, a: ['fromqdms:' + ln.split()[1][1] + ln.split()[2][1]])
    run.run_cases('fromqdms-wrapped', [f'dms.fromqdmsw {stok(a)} {stok(b)}' for a, b in dict.fromkeys(wrapped)], impl, spec,
                  spec_compare=spec_compare, compare=num_compare(Fraction(1, 10 ** 11)), tag=lambda ln, a: ['fromqdms:wrapped'])
    # over-long digit strings are still numbers (more decimals of a second): there the 1e-6 rounding can sit on
    # an exact tie, which the float program resolves by noise -> numeric comparison (one unit of 1e-6)
    def overlong(a, b):
        return (a[1:].isdigit() and b[1:].isdigit() and len(a) >= 10 and len(b) >= 9 and (len(a) > 10 or len(b) > 9))
    bad = list(dict.fromkeys(bad))
    run.run_cases('fromqdms-malformed', [f'dms.fromqdms {stok(a)} {stok(b)}' for a, b in bad if not overlong(a, b)],
                  impl, spec, spec_compare=spec_compare,
                  tag=lambda ln, a: ['malformed:' + (a if a.startswith('ERR') else 'value')])
    run.run_cases('fromqdms-overlong', [f'dms.fromqdms {stok(a)} {stok(b)}' for a, b in bad if overlong(a, b)],
                  impl, spec, spec_compare=spec_compare, compare=num_compare(Fraction(11, 10 ** 7)),
                  tag=lambda ln, a: ['malformed:overlong'])
    six, flt_safe, flt_near = [], [], []
    for lon, lat, _t in coords:
        ln = f'dms.qdmsrt {rat(lon)} {rat(lat)}'
        is6 = (dec(lon) * 10 ** 6).denominator == 1 and (dec(lat) * 10 ** 6).denominator == 1
        if is6 and safe(lon, lat):
            six.append(ln)
        elif safe(lon, lat):
            flt_safe.append(ln)
        else:
            flt_near.append(ln)
    run.run_cases('qdms-roundtrip-6dec', list(dict.fromkeys(six)), impl, spec, spec_compare=spec_compare,
                  known_key=known_key, tag=tag_c)
    run.run_cases('qdms-roundtrip-float', list(dict.fromkeys(flt_safe)), impl, spec, spec_compare=spec_compare,
                  known_key=known_key, tag=tag_c)
    run.run_cases('qdms-roundtrip-nearboundary', list(dict.fromkeys(flt_near)), impl, spec, spec_compare=spec_compare,
                  known_key=known_key, compare=num_compare(Fraction(11, 10 ** 7)), tag=tag_c)

    # ---- external libraries (support, not the deciding technique) -----------------------------------------
    lines = []
    for lon, lat in ((0, 0), (180, 0), (-180, 0), (0, 90), (0, -90), (0, 84), (0, -80), (6, 0), (5.9999999, 0),
                     (179.9999999, 10), (0, 72), (9, 60), (3, 56), (21, 75), (-0.118092, 51.509865), (33, 84.5), (-120, -80.5)):
        for op in ('mgrs-rt', 'mgrs-to', 'mgrs-from', 'mgrs-from sp'):
            o, _, sp = op.partition(' ')
            lines.append(f'np.{o} {rat(float(lon))} {rat(float(lat))}' + (' sp' if sp else ''))
    for _ in range(run.scale(600, 20000)):
        lon = rng.uniform(-180, 180)
        lat = rng.choice([rng.uniform(-80, 84), rng.uniform(-80, 84), rng.uniform(84, 90), rng.uniform(-90, -80),
                          rng.uniform(-80.01, -79.99), rng.uniform(83.99, 84.01)])
        op = rng.choice(['mgrs-rt', 'mgrs-to', 'mgrs-from', 'mgrs-from'])
        zm = rng.choice(['', '', ' z=0.0', ' z=12.5', ' m=3.0', ' z=0.0 m=0.0', ' z=-4.0 m=7.0']) if op != 'mgrs-from' else ''
        lines.append(f'np.{op} {rat(lon)} {rat(lat)}' + (' sp' if op == 'mgrs-from' and rng.random() < 0.5 else '') + zm)
    run.run_cases('np-mgrs', lines, impl, spec, model=False,
                  tag=lambda ln, a: [ln.split()[0] + ':' + ('UPS' if not (-80 <= Fraction(ln.split()[2]) < 84) else 'UTM')])
    lines = []
    for crs in CRS:
        pts = [(0.026949, 0.017966), (2.5, 48.7), (0.0001, 0.0002), (-0.0005, -0.0003)]
        for _ in range(run.scale(6, 150)):
            pts.append((rng.uniform(-179, 179), rng.uniform(-80, 84)))
        for _ in range(run.scale(3, 60)):
            pts.append((rng.uniform(-0.0008, 0.0008), rng.uniform(-0.0008, 0.0008)))   # projected pair stays a degree pair
        for lon, lat in pts:
            if crs == 'EPSG:32631':
                lon = lon % 6 if abs(lon) > 1 else lon
            if crs == 'EPSG:32733':
                lon, lat = 12 + lon % 6, -abs(lat)
            if crs == 'EPSG:2154':
                lon, lat = -5 + lon % 14, 41 + abs(lat) % 10
            if crs == 'EPSG:5041':
                lat = 60 + abs(lat) % 30
            if crs == 'EPSG:4277':      # OSGB36: Great Britain
                lon, lat = -5 + lon % 6, 50.5 + abs(lat) % 7
            if crs == 'EPSG:4230':      # ED50: continental Europe
                lon, lat = -8 + lon % 30, 37 + abs(lat) % 25
            for op in ('proj-from', 'proj-to', 'proj-rt'):
                lines.append(f'np.{op} {crs} {rat(lon)} {rat(lat)}')
    run.run_cases('np-proj', lines, impl, spec, model=False, known_key=known_key,
                  tag=lambda ln, a: [ln.split()[0] + ':' + ln.split()[1] + ':' + ('ok' if a == 'ok' else 'not-ok')])

    return run.finish(
        rule='coordinates in every sign combination: exhaustive table of seconds that are whole / have a trailing '
             'zero in the hundredths / round up to 60 / sit on minute and degree boundaries, plus seeded random '
             '<=6-decimal and arbitrary floats; to_dms, to_qdms, from_qdms compared as exact text/decimals with the '
             'Lean model wherever no rounding boundary of the exact model is within float noise (classified in '
             'exact arithmetic), numerically otherwise; every round trip judged against the resolution the '
             'property states. MGRS (UTM and UPS) and pyproj (8 CRSs) run against the real libraries (np- streams, '
             'no model). A case is one protocol line; distinct by line.',
        assumptions=['round_half_up is modelled as exact round-half-up; the float program differs only within float '
                     'noise (1.5e-10") of a rounding or floor boundary, where the streams compare numerically',
                     'repr(float) / float(str) / format(float, ".2f") are CPython runtime (correctly rounded)',
                     'mgrs and pyproj are trusted as independent references for the glue code'],
        checker_cmd='cd lean && lake build GeoVerif.Props.C19 && lake env lean .lake/audit/C19.lean  (#print axioms)')
