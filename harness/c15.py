"""C15 — shapes have value semantics: equality, hashing, copy and pickle agree."""
import itertools

import common
from common import tf
import c15_objgen as og

MODULE = ['GeoVerif.Props.C15', 'GeoVerif.Props.C15b']
THEOREMS = ['GV.Obj.' + t for t in (
    'Coord.eq_refl', 'Coord.eq_symm', 'Coord.eq_trans', 'Coord.eq_imp_hashKey', 'Coord.hashKey_imp_eq',
    'Coord.differs_lon_ne', 'Coord.differs_lat_ne', 'Coord.differs_z_ne', 'Coord.m_irrelevant',
    'dt_eq_iff', 'dt_eq_imp_hashKey',
    'Shape.eq_refl', 'Shape.eq_symm', 'Shape.eq_trans', 'Hole.eq_as_shape', 'Shape.eq_imp_hashKey',
    'closed_mkOutlineC', 'poly_eq_rewrite', 'poly_eq_rotate', 'poly_eq_reverse', 'poly_rewrite_hashKey',
    'hole_edges_rotate', 'hole_rotation_eq', 'poly_eq_of_hole_edges', 'hole_rewrite_eq', 'poly_holes_perm',
    'Multi.eq_refl', 'Multi.eq_symm', 'Multi.eq_trans', 'multi_eq_perm', 'multi_eq_of_members_eq',
    'Multi.eq_imp_hashKey',
    'Any.eq_refl', 'Any.eq_symm', 'Any.eq_trans', 'Any.single_ne_multi', 'Any.eq_imp_hashKey',
    'set_collapse', 'dict_lookup',
    'poly_eq_iff', 'box_eq_iff', 'circle_eq_iff', 'ellipse_eq_iff', 'ring_eq_iff', 'line_eq_iff', 'point_eq_iff',
    'multi_eq_iff', 'differs_kind_ne', 'multi_differs_kind_ne', 'differs_dt_ne', 'multi_differs_dt_ne',
    'differs_holes_ne', 'poly_differs_hole_count_ne', 'poly_differs_hole_ne', 'poly_differs_outline_ne',
    'differs_one_field_ne', 'multi_differs_member_ne')] + ['GV.OS.' + t for t in (
    'construct_wf', 'copy_fields', 'pickle_fields', 'copy_eq', 'pickle_eq', 'copy_keeps_original',
    'pickle_keeps_original', 'copy_isolated', "copy_isolated'", 'pickle_isolated', "pickle_isolated'",
    'copy_new_containers', 'copy_linestring_shares_vertices', 'copy_new_seq', 'copy_multi_shares_dt',
    'copy_cache', 'pickle_cache')]

PAIR_OPS = ['eq', 'ne', 'hasheq', 'setlen', 'dictget']


# ---- implementation side ------------------------------------------------------------------------------

def _pair(args):
    parts = og.split_semis(args)
    if len(parts) != 2:
        raise ValueError('two shapes expected')
    a, _ = og.p_any(parts[0])
    b, _ = og.p_any(parts[1])
    return og.build(a), og.build(b)


def impl(line):
    cmd, *args = line.split()
    op = cmd.split('.', 1)[1]
    if op in ('ceq', 'chasheq'):
        a, b = og.mk_coord(og.p_coord(args[0])), og.mk_coord(og.p_coord(args[1]))
        return tf(a == b) if op == 'ceq' else tf(hash(a) == hash(b))
    if op == 'iso':
        return impl_iso(args)
    if op == 'after':
        return impl_after(args)
    if op == 'eq3':
        parts = og.split_semis(args)
        a, b, c = (og.build(og.p_any(p)[0]) for p in parts)
        return (tf(a == b) + tf(b == c) + tf(a == c) + ':' + tf(hash(a) == hash(b)) + tf(hash(b) == hash(c)) + tf(hash(a) == hash(c)))
    a, b = _pair(args)
    if op == 'eq':
        return tf(a == b)
    if op == 'ne':
        return tf(a != b)
    if op == 'hasheq':
        return tf(hash(a) == hash(b))
    if op == 'setlen':
        return str(len({a, b}))
    if op == 'dictget':
        return tf(b in {a: 1})
    raise ValueError('unknown op ' + op)


def _share(o, c):
    def flag(x, y):
        return 'T' if x is y else 'F'
    so, sc = og.seq_list(o), og.seq_list(c)
    return ''.join([
        flag(o._properties, c._properties),
        flag(o.holes, c.holes) if hasattr(o, 'holes') else '_',
        flag(so, sc) if so is not None else '_',
        flag(o.dt, c.dt) if o.dt is not None and c.dt is not None else '_',
        (flag(so[0], sc[0]) if so and sc else '_') if so is not None else '_',
    ])


def impl_iso(args):
    parts = og.split_semis(args)
    how, side, kind, variant, dt, props, nh, nseq = parts[0]
    muts = [' '.join(p) for p in parts[1:]]
    mk = lambda: og.template(kind, int(variant), int(nh), int(nseq), og.p_dt(dt), og.parse_props(props))  # noqa: E731
    o = mk()
    pristine = mk()
    c = o.copy() if how == 'copy' else og.roundtrip(o)
    eq0 = (c == o) and (o == c) and hash(c) == hash(o)
    share = _share(o, c)
    tgt, other = (c, o) if side == 'c' else (o, c)
    errs = []
    for m in muts:
        try:
            og.apply_mut(tgt, m, True)
            errs.append('ok')
        except Exception as e:  # noqa
            errs.append(common.err_name(e))
    return (f'eq={tf(eq0)} share={share} errs={",".join(errs) if errs else "-"} # '
            f'{og.show_fields(tgt, pristine)} # {og.show_fields(other, pristine)}')


def impl_after(args):
    """observe - mutate in place - observe again, on ONE object; then compare it with a freshly built shape"""
    parts = og.split_semis(args)
    op, steps = parts[0][0], parts[0][1:]
    da, _ = og.p_any(parts[1])
    db, _ = og.p_any(parts[2])
    a = og.build(da)
    keep = []
    for st in steps:
        try:
            if st == 'hash':
                keep.append(hash(a))
            elif st == 'set':
                keep.append(({a}, {a: 1}))
            elif st == 'copy':
                a = a.copy()
            elif st == 'pickle':
                a = og.roundtrip(a)
            elif st == 'deepcopy':
                import copy as _copy
                a = _copy.deepcopy(a)
            elif st[0] == 'm' and '/' in st:
                i, m = st[1:].split('/')
                og.apply_mut(a.geoshapes[int(i)], m, True)
            else:
                og.apply_mut(a, st, True)
        except common.ImplTimeout:
            raise
        except Exception:  # noqa  -- a failing call leaves the object as it was
            pass
    b = og.build(db)
    if op == 'eq':
        return tf(a == b)
    if op == 'req':
        return tf(b == a)
    if op == 'hasheq':
        return tf(hash(a) == hash(b))
    if op == 'setlen':
        return str(len({a, b}))
    if op == 'dictget':
        return tf(b in {a: 1})
    if op == 'rdictget':
        return tf(a in {b: 1})
    raise ValueError('unknown op ' + op)


def dt_after(dt, m):
    """value-level meaning of a time mutator token (a failing call changes nothing)"""
    p = m.split(':')
    if p[0] == 'setdt':
        return None if p[1] == '_' else (og.ival(p[1]), og.ival(p[2]))
    if p[0] == 'setdtd':
        return (og.ival(p[1]), og.ival(p[1]))
    if p[0] == 'strip':
        return None
    if p[0] == 'buffer':
        d = int(p[1])
        v = og.inst(dt)
        if v is None or v[1] + d < v[0] - d:
            return dt
        return (v[0] - d, v[1] + d)
    return dt


def _top_dt(d):
    return d[2] if d[0] == 'P' else d[1]


def _set_top_dt(d, dt):
    if d[0] in ('MP', 'ML', 'MG'):
        return (d[0], dt, d[2])
    return og.with_dt(d, dt)


def desc_after(d, steps):
    """the description of the shape the steps leave behind"""
    for st in steps:
        if st in ('hash', 'set', 'copy', 'pickle', 'deepcopy'):
            continue
        if st[0] == 'm' and '/' in st:
            i, m = st[1:].split('/')
            ms = list(d[2])
            ms[int(i)] = _set_top_dt(ms[int(i)], dt_after(_top_dt(ms[int(i)]), m))
            d = (d[0], d[1], ms)
        else:
            d = _set_top_dt(d, dt_after(_top_dt(d), st))
    return d


# ---- the property, independently of the model --------------------------------------------------------

def spec(line):
    cmd, *args = line.split()
    op = cmd.split('.', 1)[1]
    if op in ('ceq', 'chasheq'):
        a, b = og.p_coord(args[0]), og.p_coord(args[1])
        same = og.ckey(a) == og.ckey(b)
        if op == 'ceq':
            return tf(same)
        return 'T' if same else None
    if op == 'iso':
        # the untouched side still shows the fields it was built with; the copy compared equal
        parts = og.split_semis(args)
        how, side, kind, variant, dt, props, nh, nseq = parts[0]
        holes = '[' + ';'.join(str(i) for i in range(int(nh))) + ']' if kind in og.HAS_HOLES else '_'
        seq = '[' + ';'.join(str(i) for i in range(_nseq_eff(kind, int(nseq)))) + ']' if kind in og.HAS_SEQ else '_'
        return f'dt={og.dttok(og.inst(og.p_dt(dt)))};props={props};holes={holes};seq={seq}'
    parts = og.split_semis(args)
    if op == 'eq3':
        try:
            aux = og.Aux()
            a, b, c = (og.p_any(p, aux)[0] for p in parts)
        except Exception:  # noqa
            return None
        v = [og.same_any(a, b, aux), og.same_any(b, c, aux), og.same_any(a, c, aux)]
        return ''.join(x or '?' for x in v)
    try:
        aux = og.Aux()
        if op == 'after':
            op, steps = parts[0][0], parts[0][1:]
            op = {'req': 'eq', 'rdictget': 'dictget'}.get(op, op)
            a, _ = og.p_any(parts[1], aux)
            b, _ = og.p_any(parts[2], aux)
            a = desc_after(a, steps)
        else:
            a, _ = og.p_any(parts[0], aux)
            b, _ = og.p_any(parts[1], aux)
    except Exception:  # noqa
        return None
    for d in (a, b):
        if d[0] == 'P' and not d[3]:
            return None
    v = og.same_any(a, b, aux)
    if v is None:
        return None
    if op == 'eq':
        return v
    if op == 'ne':
        return tf(v == 'F')
    if op == 'hasheq':
        return 'T' if v == 'T' else None
    if op == 'setlen':
        return '1' if v == 'T' else '2'
    if op == 'dictget':
        return v
    return None


def _nseq_eff(kind, nseq):
    """length of the stored sequence for the template of that kind"""
    if kind == 'polygon':
        return max(nseq - 1, 1) + 1
    return nseq


def eq3_ok(answer, want):
    """the three verdicts where the property fixes them; == must be transitive and symmetric-consistent; equal => same hash"""
    try:
        e, h = answer.split(':')
    except ValueError:
        return False
    if any(w != '?' and w != x for x, w in zip(e, want)):
        return False
    if e[0] == 'T' and e[1] == 'T' and e[2] != 'T':
        return False
    return all(not (x == 'T' and y != 'T') for x, y in zip(e, h))


def iso_spec_ok(answer, want):
    """eq=T, the property dict and the hole list are not shared (I8), the untouched side is unchanged"""
    try:
        head, _mut, other = [x.strip() for x in answer.split('#')]
        f = dict(x.split('=', 1) for x in head.split())
    except Exception:  # noqa
        return False
    return f.get('eq') == 'T' and f['share'][0] == 'F' and f['share'][1] in 'F_' and other == want


def impl_for(line):
    return impl_usable if line.startswith('ob.usable') else impl


def spec_for(line):
    if line.startswith('ob.eq3'):
        return None     # judged by eq3_ok (a predicate on the answer)
    if line.startswith('ob.iso'):
        return None     # the demand is a predicate on the answer (iso_spec_ok), not a string
    if line.startswith('ob.usable'):
        return lambda _ln: 'T'
    return spec


# ---- generators ---------------------------------------------------------------------------------------

def C(x, y, z=None, m=None):
    return (float(x), float(y), z, m)


OUTLINES = {
    'tri': [C(0, 0), C(4, 0), C(0, 3)],
    'square': [C(0, 0), C(2, 0), C(2, 2), C(0, 2)],
    'pent': [C(0, 0), C(3, 0), C(3, 3), C(1.5, 1), C(0, 3)],
    'ell6': [C(0, 0), C(4, 0), C(4, 1.5), C(2, 1.5), C(2, 3), C(0, 3)],
    'sq_z': [C(0, 0, 5.0), C(2, 0, 5.0), C(2, 2, 5.0), C(0, 2, 5.0)],
    'sq_z0': [C(0, 0, 0.0), C(2, 0, 0.0), C(2, 2, 0.0), C(0, 2, 0.0)],
    'sq_m': [C(0, 0, None, 1.0), C(2, 0), C(2, 2, None, 7.0), C(0, 2)],
    'anti': [C(179, 0), C(-179, 0), C(-179, 2), C(179, 2)],
    'neg': [C(-4.5, -3), C(-0.5, -3), C(-0.5, 0.5), C(-4.5, 0.5)],
    'collinear': [C(0, 0), C(1, 1), C(2, 2)],
    'bowtie': [C(0, 0), C(2, 2), C(2, 0), C(0, 2)],
    'repeat': [C(0, 0), C(2, 0), C(2, 2), C(2, 0), C(3, 3)],
}


def rewrites(open_outline):
    """every way of writing the same ring: start vertex x direction x explicit closing x hole flag"""
    n = len(open_outline)
    for rev in (False, True):
        seq = open_outline[::-1] if rev else list(open_outline)
        for k in range(n):
            rot = seq[k:] + seq[:k]
            for closed in (True, False):
                for flag in (0, 1):
                    yield (f'rot{k}{"r" if rev else "f"}{"c" if closed else "o"}{flag}',
                           rot + [rot[0]] if closed else rot, flag)


def pair_lines(a, b, ops=PAIR_OPS):
    ta, tb = ' '.join(og.tokens(a)), ' '.join(og.tokens(b))
    return [f'ob.{op} {ta} ; {tb}' for op in ops]


T0 = og.BASE_US
T1 = og.BASE_NY          # half an hour before a jump of the tz database zone `@zNY`; T0 is half an hour before the jump of `@zE`
DTS = [None, (T0, T0), (T0, T0 + 3_600_000_000), (T0 + 1, T0 + 3_600_000_000), (T0, T0 + 3_600_000_001),
       (T1, T1 + 3_600_000_000), (T1 + 1, T1 + 3_600_000_000)]

H1 = ('P', 0, None, [C(1, 1), C(2, 1), C(2, 2), C(1, 2)], [])
H2 = ('P', 0, None, [C(4, 4), C(6, 4), C(6, 6), C(5, 7), C(4, 6)], [])
H3 = ('P', 0, None, [C(3, 1), C(3.5, 1), C(3.5, 2.5)], [])
HB = ('B', None, C(1, 2), C(2, 1), [])                       # the same ring as H1, as a box
HC = ('C', None, C(5, 2), 30000.0, [])
# a box hole whose NW corner has Z = 0.0 (kept on the derived corners, fix 68e2a82) and the same ring as a polygon
HBZ = ('B', None, C(1, 2, 0.0), C(2, 1), [])
HPZ = ('P', 0, None, [C(1, 2, 0.0), C(1, 1, 0.0), C(2, 1), C(2, 2, 0.0)], [])
HBZ5 = ('B', None, C(1, 2), C(2, 1, 5.0), [])
HPZ5 = ('P', 0, None, [C(1, 2), C(1, 1, 5.0), C(2, 1, 5.0), C(2, 2, 5.0)], [])
BIG = [C(0, 0), C(8, 0), C(8, 8), C(0, 8)]


def respell_desc(d, k):
    """the same shape with every time bound (own, members', holes') written in other UTC offsets / naive"""
    kind = d[0]
    if kind in ('MP', 'ML', 'MG'):
        return (kind, og.respell(d[1], k), [respell_desc(m, k + 1 + i) for i, m in enumerate(d[2])])
    if kind in ('L', 'T'):
        return og.with_dt(d, og.respell(d[1], k))
    hs = [respell_desc(h, k + 2 + i) for i, h in enumerate(og.holes_of(d))]
    return og.with_holes(og.with_dt(d, og.respell(_top_dt(d), k)), hs)


def base_shapes():
    """one representative per kind, with the list of (field name, variant differing in that field only)"""
    dt = DTS[2]
    out = []
    P = ('P', 0, dt, BIG + [BIG[0]], [H1])
    out.append(('polygon', P, [
        ('dt', og.with_dt(P, DTS[3])), ('dt-none', og.with_dt(P, None)), ('dt-end', og.with_dt(P, DTS[4])),
        ('vertex', ('P', 0, dt, [C(0, 0), C(8, 0), C(8, 8), C(0, 8.5), C(0, 0)], [H1])),
        ('vertex-z', ('P', 0, dt, [C(0, 0, 1.0), C(8, 0), C(8, 8), C(0, 8), C(0, 0, 1.0)], [H1])),
        ('extra-vertex', ('P', 0, dt, [C(0, 0), C(4, 0), C(8, 0), C(8, 8), C(0, 8), C(0, 0)], [H1])),
        ('order', ('P', 0, dt, [C(0, 0), C(8, 8), C(8, 0), C(0, 8), C(0, 0)], [H1])),
        ('holes-none', og.with_holes(P, [])), ('holes-other', og.with_holes(P, [H2])),
        ('holes-more', og.with_holes(P, [H1, H2])),
    ]))
    B = ('B', dt, C(0, 8), C(8, 0), [H1])
    out.append(('box', B, [
        ('dt', og.with_dt(B, DTS[3])), ('dt-none', og.with_dt(B, None)),
        ('nw', ('B', dt, C(0, 8.5), C(8, 0), [H1])), ('se', ('B', dt, C(0, 8), C(8.5, 0), [H1])),
        ('nw-z', ('B', dt, C(0, 8, 2.0), C(8, 0), [H1])),
        ('holes-none', og.with_holes(B, [])), ('holes-other', og.with_holes(B, [H2])),
        ('holes-more', og.with_holes(B, [H1, H2])),
    ]))
    Ci = ('C', dt, C(4, 4), 500000.0, [H1])
    out.append(('circle', Ci, [
        ('dt', og.with_dt(Ci, DTS[3])), ('dt-none', og.with_dt(Ci, None)),
        ('center', ('C', dt, C(4, 4.5), 500000.0, [H1])), ('radius', ('C', dt, C(4, 4), 500000.5, [H1])),
        ('holes-none', og.with_holes(Ci, [])), ('holes-other', og.with_holes(Ci, [H2])),
    ]))
    E = ('E', dt, C(4, 4), 600000.0, 400000.0, 30.0, [H1])
    out.append(('ellipse', E, [
        ('dt', og.with_dt(E, DTS[3])), ('center', ('E', dt, C(4.5, 4), 600000.0, 400000.0, 30.0, [H1])),
        ('major', ('E', dt, C(4, 4), 600001.0, 400000.0, 30.0, [H1])),
        ('minor', ('E', dt, C(4, 4), 600000.0, 400001.0, 30.0, [H1])),
        ('rotation', ('E', dt, C(4, 4), 600000.0, 400000.0, 31.0, [H1])),
        # the same figure on the ground, another value of the field: equality is field-wise, and whatever it is it must
        # agree with the hash (seeded change C15-v2 compared rotations modulo 180 but hashed the raw value)
        ('rotation+180', ('E', dt, C(4, 4), 600000.0, 400000.0, 210.0, [H1])),
        ('rotation-180', ('E', dt, C(4, 4), 600000.0, 400000.0, -150.0, [H1])),
        ('rotation+360', ('E', dt, C(4, 4), 600000.0, 400000.0, 390.0, [H1])),
        ('holes-none', og.with_holes(E, [])), ('holes-other', og.with_holes(E, [H2])),
    ]))
    R = ('R', dt, C(4, 4), 20000.0, 600000.0, 0.0, 360.0, [H1])
    out.append(('ring', R, [
        ('dt', og.with_dt(R, DTS[3])), ('center', ('R', dt, C(4, 4.5), 20000.0, 600000.0, 0.0, 360.0, [H1])),
        ('inner', ('R', dt, C(4, 4), 20001.0, 600000.0, 0.0, 360.0, [H1])),
        ('outer', ('R', dt, C(4, 4), 20000.0, 600001.0, 0.0, 360.0, [H1])),
        ('amin', ('R', dt, C(4, 4), 20000.0, 600000.0, 10.0, 360.0, [H1])),
        ('amax', ('R', dt, C(4, 4), 20000.0, 600000.0, 0.0, 350.0, [H1])),
        ('holes-none', og.with_holes(R, [])), ('holes-other', og.with_holes(R, [H2])),
    ]))
    Wd = ('R', dt, C(4, 4), 20000.0, 600000.0, 30.0, 170.0, [])
    out.append(('wedge', Wd, [
        ('dt', og.with_dt(Wd, DTS[3])), ('center', ('R', dt, C(4, 4.5), 20000.0, 600000.0, 30.0, 170.0, [])),
        ('amin', ('R', dt, C(4, 4), 20000.0, 600000.0, 31.0, 170.0, [])),
        ('outer', ('R', dt, C(4, 4), 20000.0, 600001.0, 30.0, 170.0, [])),
    ]))
    L = ('L', dt, [C(0, 0), C(1, 1), C(2, 0.5)])
    out.append(('linestring', L, [
        ('dt', og.with_dt(L, DTS[3])), ('dt-none', og.with_dt(L, None)),
        ('vertex', ('L', dt, [C(0, 0), C(1, 1.5), C(2, 0.5)])), ('reversed', ('L', dt, [C(2, 0.5), C(1, 1), C(0, 0)])),
        ('shorter', ('L', dt, [C(0, 0), C(1, 1)])), ('vertex-z', ('L', dt, [C(0, 0, 3.0), C(1, 1), C(2, 0.5)])),
    ]))
    Pt = ('T', dt, C(1.5, 2.5))
    out.append(('point', Pt, [
        ('dt', og.with_dt(Pt, DTS[3])), ('dt-none', og.with_dt(Pt, None)),
        ('lon', ('T', dt, C(1.25, 2.5))), ('lat', ('T', dt, C(1.5, 2.25))), ('z', ('T', dt, C(1.5, 2.5, 0.0))),
    ]))
    p1, p2, p3 = ('T', None, C(0, 0)), ('T', None, C(1, 1)), ('T', None, C(2, 0.5))
    MP = ('MP', dt, [p1, p2, p3])
    out.append(('mpoint', MP, [
        ('dt', ('MP', DTS[3], [p1, p2, p3])), ('dt-none', ('MP', None, [p1, p2, p3])),
        ('member', ('MP', dt, [p1, p2, ('T', None, C(2, 0.75))])), ('fewer', ('MP', dt, [p1, p2])),
        ('member-dt', ('MP', dt, [p1, p2, ('T', DTS[1], C(2, 0.5))])),
    ]))
    l1, l2 = ('L', None, [C(0, 0), C(1, 1)]), ('L', None, [C(2, 2), C(3, 1), C(4, 4)])
    ML = ('ML', dt, [l1, l2])
    out.append(('mline', ML, [
        ('dt', ('ML', DTS[3], [l1, l2])), ('member', ('ML', dt, [l1, ('L', None, [C(2, 2), C(3, 1.5), C(4, 4)])])),
        ('fewer', ('ML', dt, [l1])),
    ]))
    g1 = ('P', 0, None, OUTLINES['square'] + [OUTLINES['square'][0]], [])
    g2 = ('P', 0, None, [C(4, 4), C(6, 4), C(6, 6), C(4, 4)], [])
    MG = ('MG', dt, [g1, g2])
    out.append(('mpoly', MG, [
        ('dt', ('MG', DTS[3], [g1, g2])), ('member', ('MG', dt, [g1, ('P', 0, None, [C(4, 4), C(6, 4), C(6, 6.5), C(4, 4)], [])])),
        ('member-hole', ('MG', dt, [('P', 0, None, BIG + [BIG[0]], [H1]), g2])), ('fewer', ('MG', dt, [g2])),
    ]))
    return out


def gen_fields():
    lines = []
    for _kind, base, variants in base_shapes():
        lines += pair_lines(base, base)
        # the same time bounds spelled naive / in other UTC offsets: one value (eq, hash, sets, dicts)
        for k in range(1, len(og.SPELLINGS)):
            lines += pair_lines(respell_desc(base, k), base, ['eq', 'hasheq', 'setlen', 'dictget'])
            lines += pair_lines(base, respell_desc(base, k + 1), ['eq', 'hasheq'])
        for _name, v in variants:
            lines += pair_lines(base, v) + pair_lines(v, base)
        for (_n1, v1), (_n2, v2) in itertools.combinations(variants, 2):
            lines += pair_lines(v1, v2, ['eq', 'hasheq'])
    return lines


def _ulp_variants(x):
    """values next to a float: neighbouring doubles, last-bit arithmetic noise, 1e-9 relative"""
    import math
    out = [math.nextafter(x, math.inf), math.nextafter(x, -math.inf)]
    if x:
        out += [x * (1 + 1e-9), x * (1 - 1e-9), x * (1 + 2.0 ** -52), (x / 3.0) * 3.0 if (x / 3.0) * 3.0 != x else x + abs(x) * 2.0 ** -51]
    return [v for v in dict.fromkeys(out) if v != x]


def _coord_fine(c):
    for i in (0, 1, 2):
        if c[i] is None:
            continue
        for v in _ulp_variants(c[i]):
            yield ('lon', 'lat', 'z')[i], c[:i] + (v,) + c[i + 1:]


def fine_descs(d):
    """every numeric defining field of the shape moved by the smallest amounts: (field tag, variant description)"""
    k = d[0]
    if k in ('MP', 'ML', 'MG'):
        for tag, m in fine_descs(d[2][0]):
            yield 'member.' + tag, (k, d[1], [m] + list(d[2][1:]))
        yield from _dt_fine(d, lambda dt: (k, dt, d[2]), d[1])
        return
    if k == 'T':
        for tag, c in _coord_fine(d[2]):
            yield tag, ('T', d[1], c)
    elif k == 'L':
        for i in (0, len(d[2]) - 1):
            for tag, c in _coord_fine(d[2][i]):
                vs = list(d[2])
                vs[i] = c
                yield f'v{i}.{tag}', ('L', d[1], vs)
    elif k == 'P':
        o = list(d[3])
        i = 1
        for tag, c in _coord_fine(o[i]):
            yield f'v{i}.{tag}', ('P', d[1], d[2], o[:i] + [c] + o[i + 1:], d[4])
    elif k == 'B':
        for j in (2, 3):
            for tag, c in _coord_fine(d[j]):
                yield ('nw.', 'se.')[j - 2] + tag, d[:j] + (c,) + d[j + 1:]
    else:   # C, E, R: centre, then every scalar field
        for tag, c in _coord_fine(d[2]):
            yield 'center.' + tag, d[:2] + (c,) + d[3:]
        last = {'C': 3, 'E': 5, 'R': 6}[k]
        for j in range(3, last + 1):
            for v in _ulp_variants(d[j]):
                yield f'f{j}', d[:j] + (v,) + d[j + 1:]
    # the first hole: its geometry and (for the kinds that look at it) its time
    hs = og.holes_of(d)
    if hs:
        for tag, h in fine_descs(hs[0]):
            if k == 'P' and (tag.startswith('dt') or hs[0][0] not in ('P', 'B')):
                continue          # a polygon compares the rings its holes cut out, not the hole objects
            yield 'hole.' + tag, og.with_holes(d, [h] + hs[1:])
    yield from _dt_fine(d, lambda dt: og.with_dt(d, dt), _top_dt(d))


def _dt_fine(d, mk, dt):
    if dt is None:
        return
    s0, e0 = og.ival(dt[0]), og.ival(dt[1])
    for tag, v in (('dt.start-1us', (s0 - 1, e0)), ('dt.start+1us', (s0 + 1, e0)), ('dt.end+1us', (s0, e0 + 1)),
                   ('dt.end-1us', (s0, e0 - 1))):
        if v[0] <= v[1]:
            yield tag, mk(og.respell(v, len(tag)))


def gen_fine():
    """'differ in a defining field => unequal' at the finest scale, for every numeric field of every kind; equal shapes
    alongside (the same variant built twice); transitivity triples of near values"""
    lines, triples = [], []
    z5 = lambda c: (c[0], c[1], 5.0, c[3])  # noqa: E731
    extra = [('C', DTS[2], C(4, 4, 2.5), (0.1 + 0.2) * 1000, []), ('C', None, C(0.1 + 0.2, 4), 0.3 * 1000, [HC]),
             ('B', DTS[2], z5(C(0, 8)), C(8, 0), [HC]), ('E', None, C(4, 4), 600000.0, 400000.0, 0.0, [HC]),
             ('R', None, C(4, 4, 0.0), 20000.0, 600000.0, 30.0, 170.0, [HC]),
             ('P', 0, DTS[2], [z5(c) for c in BIG] + [z5(BIG[0])], [HC, H1]), ('T', DTS[1], C(0.1 + 0.2, 0.3, 0.1 * 3)),
             ('MG', DTS[2], [('C', None, C(4, 4), 500000.0, []), ('B', None, C(0, 8), C(8, 0), [])])]
    for base in [b for _k, b, _v in base_shapes()] + extra:
        seen = 0
        for tag, v in fine_descs(base):
            seen += 1
            lines += pair_lines(base, v, ['eq', 'setlen', 'dictget']) + pair_lines(v, base, ['eq', 'hasheq'])
            if seen % 4 == 0:
                lines += pair_lines(v, v, ['eq', 'hasheq'])
        # chains a ~ b ~ c: neighbouring doubles and steps of 0.7e-9 relative (a and c are further apart than a and b)
        vs = list(fine_descs(base))
        by_tag = {}
        for tag, v in vs:
            by_tag.setdefault(tag, []).append(v)
        for tag, group in by_tag.items():
            if len(group) >= 2:
                triples.append((group[1], base, group[0]))           # below, at, above
            if len(group) >= 3:
                triples.append((base, group[2], group[0]))
    import math
    for r in ((0.1 + 0.2) * 1000, 500000.0, 1234.5):
        chain = [r, r * (1 + 0.7e-9), r * (1 + 1.4e-9), math.nextafter(r, math.inf), math.nextafter(math.nextafter(r, math.inf), math.inf)]
        for a, b, c in ((chain[0], chain[1], chain[2]), (chain[0], chain[3], chain[4]), (chain[1], chain[0], chain[3])):
            triples.append(tuple(('C', DTS[2], C(4, 4), x, [H1]) for x in (a, b, c)))
            triples.append(tuple(('B', None, C(0, 8), C(8, 0), [('C', None, C(5, 2), x / 10, [])]) for x in (a, b, c)))
            triples.append(tuple(('E', None, C(4, 4), 2 * x, x, 30.0, []) for x in (a, b, c)))
            triples.append(tuple(('R', None, C(4, 4), x / 100, x, 0.0, 360.0, []) for x in (a, b, c)))
            triples.append(tuple(('MG', None, [('C', None, C(4, 4), x, [])]) for x in (a, b, c)))
            triples.append(tuple(('T', None, C(x / 1e5, 1.5)) for x in (a, b, c)))
    t3 = [f'ob.eq3 {toks(a)} ; {toks(b)} ; {toks(c)}' for a, b, c in triples]
    return lines, t3


def gen_kinds():
    """every kind against every kind, single vs multi in both operand orders"""
    reps = [b for _k, b, _v in base_shapes()]
    reps += [('MP', None, []), ('ML', None, []), ('MG', None, []),
             ('MP', None, [('T', None, C(0, 0))]), ('ML', None, [('L', None, [C(0, 0), C(1, 1)])]),
             ('P', 0, None, [C(0, 8), C(0, 0), C(8, 0), C(8, 8), C(0, 8)], []),      # the outline of the box below
             ('B', None, C(0, 8), C(8, 0), []),
             ('L', None, [C(0, 0)]), ('T', None, C(0, 0)), ('P', 0, None, [C(0, 0)], [])]
    lines = []
    for a in reps:
        for b in reps:
            if a is not b:
                lines += pair_lines(a, b)
    return lines


def gen_rewrites(run):
    lines = []
    names = list(OUTLINES)
    for name in names:
        o = OUTLINES[name]
        for dt in ((None,) if run.quick else (None, DTS[2])):
            base = ('P', 0, dt, o + [o[0]], [])
            for _tag, outline, flag in rewrites(o):
                v = ('P', flag, dt, outline, [])
                lines += pair_lines(v, base)
                if dt is None:
                    lines += pair_lines(base, v, ['eq', 'hasheq'])
    # different rings on the same vertex set, and degenerate polygons
    sq = OUTLINES['square']
    others = [('P', 0, None, [sq[0], sq[2], sq[1], sq[3]], []), ('P', 0, None, sq[:3], []),
              ('P', 0, None, [C(0, 0)], []), ('P', 0, None, [C(0, 0), C(0, 0)], []), ('P', 0, None, [C(2, 2)], []),
              ('P', 0, None, [C(0, 0), C(2, 0)], []), ('P', 0, None, [C(2, 0), C(0, 0)], []),
              ('P', 0, None, [C(0, 0), C(2, 0), C(0, 0)], []), ('P', 0, None, [C(0, 0), C(2, 2)], [])]
    allp = [('P', 0, None, sq, [])] + others
    for a in allp:
        for b in allp:
            lines += pair_lines(a, b)
    return lines


def gen_holes(run):
    lines = []
    outer = BIG + [BIG[0]]
    base = ('P', 0, DTS[2], outer, [H1, H2])
    hole_variants = []
    for h in (H1, H2, H3):
        hv = []
        for _tag, outline, _flag in rewrites(h[3]):
            hv.append(('P', 0, None, outline, []))
        hole_variants.append(hv)
    # every way of writing each hole ring, in either hole order
    for v1 in hole_variants[0]:
        lines += pair_lines(('P', 0, DTS[2], outer, [v1, H2]), base)
    for v2 in hole_variants[1]:
        lines += pair_lines(('P', 0, DTS[2], outer, [H1, v2]), base, ['eq', 'hasheq', 'setlen'])
        lines += pair_lines(('P', 0, DTS[2], outer, [v2, H1]), base, ['eq', 'hasheq'])
    # other kinds of holes, holes with a time of their own, duplicated holes
    hdt = og.with_dt(H1, DTS[1])
    cases = [[HB, H2], [H2, HB], [H1, HC], [HC, H1], [HC], [hdt, H2], [H1, H1], [H1, H2, H2], [H1, H1, H2], [H2],
             [H1, H3], [H3, H1], [H1, H2, H3], [H3, H2, H1], [], [HBZ, H2], [HPZ, H2], [HBZ5, H2], [HPZ5, H2]]
    shapes = [('P', 0, DTS[2], outer, hs) for hs in cases]
    for a in shapes + [base]:
        for b in shapes + [base]:
            lines += pair_lines(a, b, ['eq', 'hasheq', 'setlen'])
    # many more hole rings (3..8 vertices), each written from every vertex: the comparison must not depend on
    # the order in which a hole's edges were put into a set (F15c)
    import math
    rng = run.rng
    for _ in range(run.scale(40, 400)):
        k = rng.choice([3, 4, 5, 6, 7, 8])
        cx, cy = rng.choice([2.0, 3.0, 4.0, 5.0]), rng.choice([2.0, 3.0, 4.0, 5.0])
        pts = set()
        while len(pts) < k:
            pts.add((cx + rng.choice([-1.5, -1.0, -0.75, -0.5, -0.25, 0.25, 0.5, 0.75, 1.0, 1.5]),
                     cy + rng.choice([-1.5, -1.0, -0.75, -0.5, -0.25, 0.25, 0.5, 0.75, 1.0, 1.5])))
        mx, my = sum(p[0] for p in pts) / k, sum(p[1] for p in pts) / k
        ring = [C(x, y) for x, y in sorted(pts, key=lambda p: math.atan2(p[1] - my, p[0] - mx))]
        if og.shoelace2([og.ckey(c) for c in ring]) == 0:
            continue
        b0 = ('P', 0, None, outer, [('P', 0, None, ring + [ring[0]], [])])
        for j in range(1, k):
            rot = ring[j:] + ring[:j]
            lines += pair_lines(('P', 0, None, outer, [('P', 0, None, rot if j % 2 else rot[::-1], [])]), b0, ['eq', 'setlen'])
        if k >= 5:
            # the same hole vertices joined in another order (every second vertex: pentagon -> pentagram …): the same vertex
            # SET but other edges — another hole, hence another polygon (seeded change C15-v3 compared holes as vertex sets)
            step = 2 if k % 2 else 3
            if math.gcd(step, k) == 1:
                thread = [ring[(i * step) % k] for i in range(k)]
                lines += pair_lines(('P', 0, None, outer, [('P', 0, None, thread + [thread[0]], [])]), b0, ['eq', 'hasheq', 'setlen'])
    # holes of the box-like kinds: list equality, holes written differently
    for mk in (lambda hs: ('B', DTS[2], C(0, 8), C(8, 0), hs), lambda hs: ('C', None, C(4, 4), 500000.0, hs),
               lambda hs: ('E', None, C(4, 4), 600000.0, 400000.0, 30.0, hs),
               lambda hs: ('R', None, C(4, 4), 20000.0, 600000.0, 0.0, 360.0, hs)):
        b0 = mk([H1, H2])
        alts = [[H1, H2], [H2, H1], [hole_variants[0][5], H2], [H1, hole_variants[1][7]], [hdt, H2], [HB, H2], [H1],
                [H1, H2, H3], [H1, HC], [HC, H1], []]
        for hs in alts:
            lines += pair_lines(mk(hs), b0) + pair_lines(b0, mk(hs), ['eq', 'hasheq'])
    return lines


def gen_multi(run):
    lines = []
    pts = [('T', None, C(0, 0)), ('T', None, C(1, 1)), ('T', DTS[1], C(2, 0.5)), ('T', None, C(3, 3, 1.0))]
    lns = [('L', None, [C(0, 0), C(1, 1)]), ('L', None, [C(2, 2), C(3, 1), C(4, 4)]), ('L', DTS[2], [C(0, 0), C(1, 1)]),
           ('L', None, [C(1, 1), C(0, 0)])]
    sq, pent = OUTLINES['square'], [C(4, 4), C(6, 4), C(6, 6), C(5, 7), C(4, 6)]
    pls = [('P', 0, None, sq + [sq[0]], []), ('P', 0, None, pent + [pent[0]], []),
           ('B', None, C(10, 8), C(12, 6), []), ('P', 0, None, BIG + [BIG[0]], [H1])]
    # the same polygons written from another vertex / in the other direction
    pls_rw = [('P', 0, None, sq[2:] + sq[:2], []), ('P', 1, None, pent[::-1] + [pent[-1]], []),
              ('B', None, C(10, 8), C(12, 6), []), ('P', 0, None, BIG[1:] + BIG[:1], [('P', 0, None, H1[3][::-1], [])])]
    for kind, members, rw in (('MP', pts, None), ('ML', lns, None), ('MG', pls, pls_rw)):
        for n in range(0, 5):
            ms = members[:n]
            for dt in ((None, DTS[2]) if n in (2, 4) else (None,)):
                base = (kind, dt, ms)
                perms = list(itertools.permutations(range(n)))
                if run.quick and n == 4:
                    perms = perms[::3]
                for p in perms:
                    lines += pair_lines((kind, dt, [ms[i] for i in p]), base)
                    if n >= 3 and sum(p) % 2 == 0:
                        lines += pair_lines((kind, og.respell(dt, n + p[0]), [respell_desc(ms[i], i + p[0]) for i in p]), base,
                                            ['eq', 'hasheq', 'setlen'])
                    if rw is not None and n:
                        lines += pair_lines((kind, dt, [rw[i] for i in p]), base, ['eq', 'hasheq', 'setlen'])
                if n:
                    lines += pair_lines((kind, dt, ms + [ms[0]]), base)          # a member twice
                    lines += pair_lines((kind, dt, ms[:-1]), base)
                    lines += pair_lines((kind, dt, ms[:-1] + [members[(n) % 4]]), base) if n < 4 else []
                    lines += pair_lines((kind, DTS[3], ms), base)
        # the same members under another multi kind
        for other in ('MP', 'ML', 'MG'):
            if other != kind:
                for n in (0, 1, 2):
                    lines += pair_lines((other, None, members[:n]), (kind, None, members[:n]))
    return lines


def gen_coords():
    vals = [0.0, -0.0, 0.5, 2.0, -3.0, -180.0, 90.0]
    zs = [None, 0.0, 5.0]
    ms = [None, 0.0, 7.0]
    cs = [(x, y, z, m) for x in vals[:6] for y in (0.0, 0.5, -3.0) for z in zs for m in ms]
    cs += [(-180.0, 1.0, None, None), (179.5, 89.0, None, None), (2.0, 90.0, None, None)]
    lines = []
    for i, a in enumerate(cs):
        for b in cs[i % 7::7] + [a]:
            lines.append(f'ob.ceq {og.ctok(a)} {og.ctok(b)}')
            lines.append(f'ob.chasheq {og.ctok(a)} {og.ctok(b)}')
    return lines


def gen_random(run, n):
    """random pairs: a random shape against a random rewrite / a one-field perturbation of itself"""
    rng = run.rng
    grid = [0.0, 0.5, 1.0, 1.5, 2.0, 2.5, 3.0, 4.0, 5.0, 6.0, 8.0, -0.5, -3.0, -4.5]
    lines = []

    def rc():
        z = rng.choice([None, None, None, 0.0, 2.5])
        m = rng.choice([None, None, 1.0])
        return C(rng.choice(grid), rng.choice(grid), z, m)

    def rdt():
        return og.respell(rng.choice(DTS), rng.choice([0, 0, 0] + list(range(1, len(og.SPELLINGS)))))

    def ring(k):
        # a star-shaped simple ring around (2, 2) on the grid: sort random grid points by angle
        import math
        pts = set()
        while len(pts) < k:
            pts.add((rng.choice(grid[:11]), rng.choice(grid[:11])))
        cx = sum(p[0] for p in pts) / k
        cy = sum(p[1] for p in pts) / k
        return [C(x, y) for x, y in sorted(pts, key=lambda p: math.atan2(p[1] - cy, p[0] - cx))]

    def rshape():
        k = rng.choice('PPPBCERLTMMM')
        hs = rng.sample([H1, H2, H3, HB], rng.choice([0, 0, 1, 2]))
        if k == 'P':
            o = ring(rng.choice([3, 4, 5, 6]))
            return ('P', rng.choice([0, 0, 1]), rdt(), o + [o[0]] if rng.random() < 0.7 else o, hs)
        if k == 'B':
            return ('B', rdt(), C(rng.choice(grid[:5]), 8.0), C(8.0, rng.choice(grid[:5])), hs)
        if k == 'C':
            return ('C', rdt(), rc(), rng.choice([1000.0, 500000.0, 1234.5]), hs)
        if k == 'E':
            return ('E', rdt(), rc(), rng.choice([600000.0, 700000.5]), rng.choice([400000.0, 1000.0]), rng.choice([0.0, 30.0, 45.5]), hs)
        if k == 'R':
            a = rng.choice([(0.0, 360.0), (30.0, 170.0), (0.0, 90.0), (10.0, 360.0)])
            return ('R', rdt(), rc(), rng.choice([100.0, 20000.0]), rng.choice([600000.0, 50000.0]), a[0], a[1], hs)
        if k == 'L':
            return ('L', rdt(), [rc() for _ in range(rng.choice([1, 2, 3, 5]))])
        if k == 'T':
            return ('T', rdt(), rc())
        mk = rng.choice(['MP', 'ML', 'MG'])
        n = rng.choice([0, 1, 2, 3, 4])
        if mk == 'MP':
            ms = [('T', rng.choice([None, None, DTS[1]]), rc()) for _ in range(n)]
        elif mk == 'ML':
            ms = [('L', None, [rc() for _ in range(rng.choice([2, 3]))]) for _ in range(n)]
        else:
            ms = []
            for _ in range(n):
                o = ring(rng.choice([3, 4, 5]))
                ms.append(('P', 0, None, o + [o[0]], rng.sample([H1, H2], rng.choice([0, 0, 1]))))
        return (mk, rdt(), ms)

    def rewrite(d, hole=False):
        """the same shape, written differently (holes keep the public constructor: no `_is_hole`)"""
        k = d[0]
        if k == 'P':
            o = og.open_cycle(list(d[3])) if len(d[3]) > 1 and og.ckey(d[3][0]) == og.ckey(d[3][-1]) else list(d[3])
            if rng.random() < 0.5:
                o = o[::-1]
            r = rng.randrange(len(o))
            o = o[r:] + o[:r]
            hs = [rewrite(h, True) if h[0] == 'P' else h for h in d[4]]
            rng.shuffle(hs)
            return ('P', 0 if hole else rng.choice([0, 1]), og.respell(d[2], rng.randrange(len(og.SPELLINGS))), o + [o[0]] if rng.random() < 0.6 else o, hs)
        if k in ('MP', 'ML', 'MG'):
            ms = [rewrite(m) for m in d[2]]
            rng.shuffle(ms)
            return (k, og.respell(d[1], rng.randrange(len(og.SPELLINGS))), ms)
        return og.with_dt(d, og.respell(_top_dt(d), rng.randrange(len(og.SPELLINGS))))

    def perturb(d):
        """differs in exactly one defining field"""
        k = d[0]
        what = rng.choice(['dt', 'geom', 'holes'])
        if what == 'dt' or k in ():
            cur = d[2] if k == 'P' else d[1]
            return og.with_dt(d, rng.choice([x for x in DTS if og.inst(x) != og.inst(cur)])) if k not in ('MP', 'ML', 'MG') else \
                (k, rng.choice([x for x in DTS if og.inst(x) != og.inst(d[1])]), d[2])
        if what == 'holes' and k in ('P', 'B', 'C', 'E', 'R'):
            hs = og.holes_of(d)
            return og.with_holes(d, hs[:-1] if hs and rng.random() < 0.5 else hs + [('P', 0, None, [C(6.5, 0.5), C(7.5, 0.5), C(7, 1.5)], [])])
        bump = lambda c: (c[0] + 0.25, c[1], c[2], c[3])  # noqa: E731
        if k == 'P':
            o = list(d[3])
            i = rng.randrange(len(o))
            closed = len(o) > 1 and og.ckey(o[0]) == og.ckey(o[-1])
            nb = (o[i][0] + 9.25, o[i][1] + 9.5, o[i][2], o[i][3])      # off the grid used by the rings
            o[i] = nb
            if closed and i in (0, len(o) - 1):
                o[0] = o[-1] = nb
            return ('P', d[1], d[2], o, d[4])
        if k == 'B':
            return ('B', d[1], bump(d[2]), d[3], d[4]) if rng.random() < 0.5 else ('B', d[1], d[2], (d[3][0], d[3][1] - 0.25, d[3][2], d[3][3]), d[4])
        if k == 'C':
            return ('C', d[1], d[2], d[3] + 0.5, d[4]) if rng.random() < 0.5 else ('C', d[1], bump(d[2]), d[3], d[4])
        if k == 'E':
            j = rng.choice([2, 3, 4, 5])
            return d[:j] + ((bump(d[2]) if j == 2 else d[j] + 0.5),) + d[j + 1:]
        if k == 'R':
            j = rng.choice([2, 3, 4, 5, 6])
            return d[:j] + ((bump(d[2]) if j == 2 else d[j] + 0.5),) + d[j + 1:]
        if k == 'L':
            vs = list(d[2])
            i = rng.randrange(len(vs))
            vs[i] = bump(vs[i])
            return ('L', d[1], vs)
        if k == 'T':
            return ('T', d[1], (d[2][0], d[2][1] + 0.25, d[2][2], d[2][3]))
        ms = list(d[2])
        if ms and rng.random() < 0.7:
            i = rng.randrange(len(ms))
            ms[i] = perturb(ms[i])
        else:
            ms = ms + [{'MP': ('T', None, C(7, 7.5)), 'ML': ('L', None, [C(7, 7), C(7.5, 7.5)]),
                        'MG': ('P', 0, None, [C(7, 7), C(7.5, 7), C(7, 7.5), C(7, 7)], [])}[k]]
        return (k, d[1], ms)

    for _ in range(n):
        a = rshape()
        r = rng.random()
        if r < 0.4:
            b, tag = rewrite(a), 'rewrite'
        elif r < 0.8:
            b, tag = perturb(a), 'perturb'
        else:
            b, tag = rshape(), 'independent'
        op = rng.choice(PAIR_OPS)
        ta, tb = ' '.join(og.tokens(a)), ' '.join(og.tokens(b))
        lines.append((tag, f'ob.{op} {ta} ; {tb}'))
    return lines


MUTS = ['setdt:_', f'setdt:{T0}:{T0}', f'setdtd:{T0 + 7}', f'setdtd:{T0 + 7}@n', f'setdtd:{T0 + 9}@o-330',
        f'setdt:{T0 + 5}@o120:{T0 + 9_000_000}@n', f'setdt:{T0 + 5}:{T0 + 9_000_000}', 'buffer:1000000',
        'buffer:-9000000000', 'strip', 'setprop:k=5', 'setprop:n=7', 'setprop:l=[4;5]', 'setprop:k=[]', 'hpop',
        'hpush:3', 'hpush:4', 'ddel:k', 'ddel:zz', 'npush:l=9', 'npush:k=1', 'npush:zz=1']


def gen_iso(run):
    rng = run.rng
    lines = []
    props_pool = ['-', 'k=1', 'k=1,l=[1;2]', 'l=[1;2],m=[],k=3']
    for kind in og.KINDS:
        nh_opts = [0, 2] if kind in og.HAS_HOLES else [0]
        nseq = {'polygon': 5, 'linestring': 3, 'mpoint': 3, 'mline': 2, 'mpoly': 2}.get(kind, 0)
        for how in ('copy', 'pickle'):
            for side in ('c', 'o'):
                for nh in nh_opts:
                    for dt in ('_', f'{T0}:{T0 + 60_000_000}' if side == 'c' else f'{T0}@o345:{T0 + 60_000_000}@n',
                               f'{T0}@zE:{T0 + 3_600_000_000}' if how == 'copy' else f'{T1}@zNY:{T1 + 3_600_000_000}@o-300'):
                        variant = 1 if kind == 'ring' and nh == 0 else 0
                        head = f'ob.iso {how} {side} {kind} {variant} {dt} k=1,l=[1;2] {nh} {nseq}'
                        lines.append(head)
                        # every mutator alone …
                        for m in MUTS:
                            lines.append(f'{head} ; {m}')
                        # … and random sequences
                        for _ in range(run.scale(3, 25)):
                            ms = [rng.choice(MUTS) for _ in range(rng.choice([2, 3, 5, 8]))]
                            p = rng.choice(props_pool)
                            lines.append(f'ob.iso {how} {side} {kind} {variant} {dt} {p} {nh} {nseq} ; ' + ' ; '.join(ms))
    return lines


TIME_MUTS = ['setdt:_', f'setdt:{T0 + 5}@o120:{T0 + 9_000_000}@n', f'setdtd:{T0 + 7}@o-330', f'setdtd:{T0 + 7}', 'strip',
             'buffer:1000000', f'setdt:{T0 + 5}@zE:{T0 + 3_600_000_000}', f'setdt:{T1}@zNY:{T1 + 3_600_000_000}@o60',
             'buffer:-9000000000', 'setprop:k=5']
_TOK = {}


def toks(d):
    k = repr(d)
    if k not in _TOK:
        _TOK[k] = ' '.join(og.tokens(d))
    return _TOK[k]


def gen_after(run):
    """observe - mutate IN PLACE - observe again on one object: its hash is taken / it sits in a set or dict / it was
    cloned after being hashed, then its (or a member's) time bounds change in place; afterwards it must still be one value
    with a freshly built shape having the new bounds (==, hash, set, dict in both roles) and differ from the old one"""
    rng = run.rng
    lines = []

    def emit(base, steps, n):
        after = desc_after(base, steps)
        st = ' '.join(steps)
        for b, ops in ((respell_desc(after, 1 + n % 6), ['hasheq', 'setlen', 'rdictget', ('dictget', 'req')[n % 2]]),
                       (base, ['eq', 'hasheq'])):
            for op in ops:
                lines.append(f'ob.after {op} {st} ; {toks(base)} ; {toks(b)}')
    n = 0
    bases = [b for _k, b, _v in base_shapes()]
    for base in bases:
        for pre in (['hash'], ['set'], ['hash', 'copy'], ['hash', 'pickle'], []):
            for m in TIME_MUTS:
                for post in ([], ['copy'], ['pickle'], ['deepcopy'], ['hash', 'strip', f'setdtd:{T0 + 7}@n']):
                    n += 1
                    if run.quick and n % 5:
                        continue
                    emit(base, pre + [m] + post, n)
        if base[0] in ('MP', 'ML', 'MG'):
            # a member's bounds change in place after the multi-shape (hence every member) was hashed
            for pre in (['hash'], ['set'], ['hash', 'pickle'], []):
                for m in TIME_MUTS[:8]:
                    for i in (0, len(base[2]) - 1):
                        for post in ([], ['copy']):
                            n += 1
                            emit(base, pre + [f'm{i}/{m}'] + post, n)
    # random step sequences on random bases
    pool = ['hash', 'set', 'copy', 'pickle', 'deepcopy'] + TIME_MUTS
    for _ in range(run.scale(300, 6000)):
        base = rng.choice(bases)
        steps = [rng.choice(pool) for _ in range(rng.randrange(2, 7))]
        if base[0] in ('MP', 'ML', 'MG') and rng.random() < 0.5:
            steps.insert(rng.randrange(len(steps) + 1), f'm{rng.randrange(len(base[2]))}/{rng.choice(TIME_MUTS[:8])}')
        n += 1
        emit(base, steps, n)
    return lines


# ---- a clause only the real objects can answer: a pickled shape stays fully usable ---------------------

def impl_usable(line):
    _cmd, how, kind, variant, nh, nseq = line.split()
    o = og.template(kind, int(variant), int(nh), int(nseq), (T0, T0 + 60_000_000), {'k': 1})
    o.bounds, o.centroid, o.to_shapely()          # fill the memo slots before cloning
    c = o.copy() if how == 'copy' else og.roundtrip(o)
    ok = (c.to_shapely().wkt == o.to_shapely().wkt and c.to_wkt() == o.to_wkt() and c.bounds == o.bounds
          and c.centroid == o.centroid and c.to_geojson() == o.to_geojson() and c.properties == o.properties
          and repr(c) == repr(o) and c.to_shapely() is not o.to_shapely())
    if hasattr(o, 'area'):
        ok = ok and c.area == o.area and c.volume == o.volume
    c.set_dt(None)
    c.set_property('zz', 3)
    ok = ok and o.dt is not None and 'zz' not in o.properties and c.to_shapely().wkt == o.to_shapely().wkt
    return tf(ok)


# second tie: the `__eq__` / `__hash__` methods translated from the source text on every run (harness/srcunits.py: SrcEq),
# proved equal to the model's `Coord.eq` / `Shape.eq` / `Multi.eq?` and hash keys (see common.Run.source_tie)
SRC_MODULE = 'GeoVerif.Props.C15Src'
SRC_THEOREMS = ['GV.C15Src.' + t for t in (
    'coordEq_eq', 'coordEqOther_eq', 'coordHash_eq', 'pointEq_eq', 'pointEqOther_eq', 'pointHash_eq',
    'lineEq_eq', 'lineEqOther_eq', 'lineHash_eq', 'boxEq_eq', 'boxEqOther_eq', 'boxHash_eq',
    'circleEq_eq', 'circleEqOther_eq', 'circleHash_eq', 'ellipseEq_eq', 'ellipseEqOther_eq', 'ellipseHash_eq',
    'ringEq_eq', 'ringEqOther_eq', 'ringCentroid_eq', 'ringHash_eq',
    'polyAfter_eq', 'polyLoop_eq', 'polyEq_eq', 'polyEqOther_eq', 'polyHash_eq',
    'multiEq_eq', 'multiEqOther_eq', 'multiHash_eq', 'mpointHash_eq',
    'srcHoleEq_eq', 'srcShapeEq_eq', 'srcShapeKey_eq', 'src_multiEq_eq', 'srcMultiKey_eq',
    'src_coord_eq_iff_hash', 'src_coord_m_irrelevant', 'src_poly_eq_total', 'src_poly_eq_refl', 'src_poly_eq_symm',
    'src_poly_eq_trans', 'src_poly_eq_imp_hash', 'src_poly_eq_rewrite', 'src_shape_eq_refl', 'src_shape_eq_symm',
    'src_shape_eq_trans', 'src_shape_eq_imp_hash', 'src_multi_eq_imp_hash')]


def check(run):
    run.prove(MODULE, THEOREMS)
    run.source_tie(['SrcEq', 'SrcTime'], SRC_MODULE, SRC_THEOREMS)

    def tag_pairs(ln, a):
        op = ln.split(' ', 1)[0].split('.')[1]
        kinds = [t for t in ln.split() if t in ('P', 'B', 'C', 'E', 'R', 'L', 'T', 'MP', 'ML', 'MG')]
        return [f'{op}:{a}', 'kind:' + (kinds[0] if kinds else '?')]

    run.run_cases('fields-one-differs', gen_fields(), impl, spec, tag=tag_pairs)
    fine, triples = gen_fine()
    run.run_cases('fields-finest-scale', fine, impl, spec, tag=tag_pairs)
    run.run_cases('transitivity-triples', triples, impl, spec, spec_compare=eq3_ok,
                  tag=lambda ln, a: ['eq3:' + a])
    run.run_cases('kinds-cross', gen_kinds(), impl, spec, tag=tag_pairs)
    run.run_cases('outline-rewrites', gen_rewrites(run), impl, spec, tag=tag_pairs)
    run.run_cases('hole-rewrites', gen_holes(run), impl, spec, tag=tag_pairs)
    run.run_cases('multi-permutations', gen_multi(run), impl, spec, tag=tag_pairs)
    run.run_cases('coordinates', gen_coords(), impl, spec)
    run.exhaustive = True
    rnd = gen_random(run, run.scale(1500, 40000))
    tags = {ln: t for t, ln in rnd}
    run.run_cases('random-pairs', [ln for _t, ln in rnd], impl, spec,
                  tag=lambda ln, a: ['random:' + tags.get(ln, '?'), f'{ln.split(" ", 1)[0].split(".")[1]}:{a}'])

    run.run_cases('observe-mutate-observe', gen_after(run), impl, spec,
                  tag=lambda ln, a: ['after:' + ln.split()[1] + ':' + a] + ['step:' + t.split(':')[0].split('/')[-1] for t in ln.split(' ; ')[0].split()[2:]])

    iso = gen_iso(run)
    out = run.run_cases('copy-pickle-isolation', iso, impl, None,
                        tag=lambda ln, a: ['iso:' + ':'.join(ln.split()[1:4]), 'share:' + (a.split('share=')[1][:5] if 'share=' in a else a)])
    for ln, a in zip(iso, out):
        want = spec(ln)
        if not iso_spec_ok(a, want):
            run.report('iso/' + ln.split()[3], f'copy-pickle-isolation: implementation answers {a[:160]}, the property demands '
                       f'eq=T, unshared properties/holes and the untouched side {want}',
                       {'stream': 'copy-pickle-isolation', 'line': ln, 'impl': a, 'spec': 'eq=T … # … # ' + want})

    usable = [f'ob.usable {how} {kind} {1 if kind == "ring" and nh == 0 else 0} {nh} {nseq}'
              for how in ('copy', 'pickle') for kind in og.KINDS for nh in ((0, 2) if kind in og.HAS_HOLES else (0,))
              for nseq in ([4, 6] if kind == 'polygon' else [3] if kind in og.HAS_SEQ else [0])]
    run.run_cases('np-usable-after-clone', usable, impl_usable, lambda ln: 'T', model=False)

    return run.finish(
        rule='exhaustive small worlds: every kind x every defining field (pairs differing in exactly that field, both '
             'operand orders), every kind x every kind, every rewrite (start vertex x direction x closing x hole flag) of '
             '12 outlines (<= 6 vertices) and of 3 hole rings, hole lists of mixed kinds, all member permutations (<= 4) of '
             'the three multi kinds incl. rewritten polygon members and cross-kind pairs, a coordinate grid with Z/M; x the '
             'observations ==, !=, hash equality, len({a,b}), dict look-up.  Seeded random pairs (rewrite / one-field '
             'perturbation / independent).  Every numeric defining field of every kind (every ordinate incl. Z, radii, axes, rotation, angles, '
             'hole fields, time bounds) moved by one ulp / last-bit arithmetic noise / 1e-9 relative / 1 us must give unequal shapes; '
             'transitivity triples of near values.  Every time bound also written naive / in other UTC offsets / with different tzinfo objects on '
             'its two ends incl. zones with a jump inside the interval (one value; through copy, pickle, deepcopy, in-place setters).  Observe-mutate-observe: '
             'every kind x {hashed, in a set, hashed then cloned} x every in-place time mutator (also on a member) x {then cloned}, compared '
             'with a freshly built shape.  copy()/pickle x every kind x every mutator alone and random mutator sequences '
             'on either side, observing the other side.  A case is one protocol line; non-trivial = all; distinct by line.',
        assumptions=['floats are exact rationals in the model: no NaN (x == x), coordinates of the exhaustive streams on a dyadic grid '
                     'so that the orientation test of GeoPolygon.__init__ is exact',
                     'CPython hash() is a function of the value handed to it; a frozenset hash is a function of the multiset of its '
                     "distinct elements' hashes; hash(-1.0) == hash(-2.0) is avoided on the grids",
                     'generated vertices of curved holes and the centroid of a wedge are taken from the implementation as data '
                     '(functions of the defining fields: C03)',
                     'hole objects are shared between a shape and its copy() (shallow list copy); the model treats hole geometry as '
                     'immutable values (I8: no mutator of the copy reaches them)'],
        checker_cmd='cd lean && lake build GeoVerif.Props.C15 GeoVerif.Props.C15b && lake env lean .lake/audit/C15.lean  (#print axioms)')
