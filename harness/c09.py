"""C09 — bounds and circumscribing shapes really enclose the shape."""
import itertools
import math
import random as _random
from datetime import datetime, timedelta, timezone
from fractions import Fraction

import common
import geo_oracle as G
from common import rat
from c07 import C, enc, floats, is_err, parse, point_close, RND7, close
from c03 import ell_r, _unwrap

MODULE = ['GeoVerif.Props.C09']
THEOREMS = ['GV.C09.' + t for t in (
    'vertex_bounds_minmax', 'vertex_bounds_attained', 'point_bounds_minmax', 'box_bounds_def', 'isBBox_unique',
    'union_bounds_contains', 'union_bounds_attained', 'union_bounds_eq_bbox_join',
    'normalize_id_in_range', 'rect_from_bounds_has_bounds',
    'pyMax_ge', 'pyMax_mem', 'centroid_max_circle_encloses', 'centroid_max_circle_tight',
    'ellipse_circle_encloses', 'ring_circle_encloses', 'circle_circle_encloses', 'box_circle_partial',
    'welzl_support', 'welzl_eq_spec_of_lemma', 'welzl_seed_independent_of_lemma', 'welzl_encloses_of_lemma')]

# second tie: `bounds` / `circumscribing_rectangle` translated from the source text on every run (unit SrcBounds)
SRC_THEOREMS = ['GV.C09Src.' + t for t in (
    'boxBounds_eq', 'pointBounds_eq', 'pointBounds_bbox', 'polygonBounds_eq', 'lineBounds_eq', 'multiBounds_eq',
    'collBounds_eq', 'polyLikeRect_eq', 'lineLikeRect_eq', 'lineRect_eq', 'boxRect_eq',
    'polygonBounds_is_bbox', 'polygonBounds_ok',
    'src_polygon_bounds_enclose', 'src_polygon_bounds_attained', 'src_line_bounds_enclose', 'src_box_bounds_def',
    'src_multi_bounds_contains', 'src_coll_bounds_contains', 'src_multi_bounds_eq_bbox_join', 'src_rect_has_bounds',
    'src_lineRect_consistent')]

T0 = datetime(2020, 1, 1, tzinfo=timezone.utc)
KEY_BOX = 'GeoBox.circumscribing_circle/vertex-outside'


# --------------------------------------------------------------------------------------------------
# protocol: members `K x y x y …` separated by `|` (K: P polygon, L linestring, T point, B box nw se)


def fr(tok):
    return float(Fraction(tok))


def split_members(tokens):
    out, cur = [], []
    for t in tokens:
        if t == '|':
            out.append(cur)
            cur = []
        else:
            cur.append(t)
    out.append(cur)
    return out


def mk_member(tokens, dt=None):
    from geostructures import GeoBox, GeoLineString, GeoPoint, GeoPolygon
    k, nums = tokens[0], [fr(t) for t in tokens[1:]]
    pts = [C(nums[i], nums[i + 1]) for i in range(0, len(nums), 2)]
    if k == 'P':
        return GeoPolygon(pts, dt=dt)
    if k == 'L':
        return GeoLineString(pts, dt=dt)
    if k == 'T':
        return GeoPoint(pts[0], dt=dt)
    if k == 'B':
        return GeoBox(pts[0], pts[1], dt=dt)
    raise ValueError('member kind ' + k)


def mk_container(kind, members):
    from geostructures import FeatureCollection, MultiGeoLineString, MultiGeoPoint, MultiGeoPolygon, Track
    if kind == 'TR':
        return Track([mk_member(m, dt=T0 + timedelta(hours=i)) for i, m in enumerate(members)])
    shapes = [mk_member(m) for m in members]
    return {'MP': MultiGeoPolygon, 'ML': MultiGeoLineString, 'MT': MultiGeoPoint, 'FC': FeatureCollection}[kind](shapes)


def show_bounds(b):
    return ' '.join(rat(x) for x in b)


def _circle_out(c, verts=None):
    s = enc(c.center.longitude, c.center.latitude, c.radius)
    if verts is not None:
        s += ' | ' + enc(*[x for v in verts for x in (v.longitude, v.latitude)])
    return s


def _float_members(tokens):
    return [[C(v[i], v[i + 1]) for i in range(0, len(v), 2)] for v in (floats(m) for m in split_members(tokens))]


def record_choices(fn, seed):
    """run fn() with `random` seeded and every `random.randrange` result recorded (the schedule quantified by C09)"""
    rec = []
    orig = _random.randrange

    def wrapped(*a, **k):
        v = orig(*a, **k)
        rec.append(v)
        return v
    _random.seed(seed)
    _random.randrange = wrapped
    try:
        res = fn()
    finally:
        _random.randrange = orig
    return res, rec


def impl(line):
    from geostructures import (GeoBox, GeoCircle, GeoEllipse, GeoLineString, GeoPolygon, GeoRing, MultiGeoLineString,
                               MultiGeoPoint, MultiGeoPolygon, GeoPoint)
    cmd, *a = line.split()
    op = cmd.split('.', 1)[1]
    # ---- exact ops
    if op in ('bboxP', 'bboxL', 'bboxT'):
        return show_bounds(mk_member([op[-1]] + a).bounds)
    if op == 'box':
        return show_bounds(mk_member(['B'] + a).bounds)
    if op.startswith('union'):
        return show_bounds(mk_container(op[5:], split_members(a)).bounds)
    if op in ('rectS', 'rectMP', 'rectML'):
        ms = split_members(a)
        shape = mk_member(ms[0]) if op == 'rectS' else mk_container(op[4:], ms)
        r = shape.circumscribing_rectangle()
        return show_bounds(r.bounds)
    # ---- float ops
    if op.startswith('maxcircle'):
        k = op[9:]
        ms = split_members(a)
        cl, ca = floats(ms[0][:2])
        ms[0] = ms[0][2:]
        groups = [[C(v[i], v[i + 1]) for i in range(0, len(v), 2)] for v in (floats(m) for m in ms)]
        if k == 'L':
            shape = GeoLineString(groups[0])
        elif k == 'ML':
            shape = MultiGeoLineString([GeoLineString(g) for g in groups])
        elif k == 'MP':
            shape = MultiGeoPolygon([GeoPolygon(g) for g in groups])
        else:
            shape = MultiGeoPoint([GeoPoint(g[0]) for g in groups])
        c = shape.circumscribing_circle()
        if (c.center.longitude, c.center.latitude) != (cl, ca):
            return 'MISMATCH:centroid'
        return _circle_out(c)
    v = floats([t for t in a if t != '|'])
    if op == 'wedgecircle':
        shape = GeoRing(C(v[2], v[3]), v[4], v[5], v[6], v[7])
        c = shape.circumscribing_circle()
        if (c.center.longitude, c.center.latitude) != (v[0], v[1]):
            return 'MISMATCH:centroid'
        return _circle_out(c, shape.bounding_coords())
    if op == 'boxcircle':
        shape = GeoBox(C(v[0], v[1]), C(v[2], v[3]))
        return _circle_out(shape.circumscribing_circle(), shape.bounding_coords())
    if op == 'curvecircleC':
        shape = GeoCircle(C(v[0], v[1]), v[2])
        return _circle_out(shape.circumscribing_circle(), shape.bounding_coords())
    if op == 'curvecircleE':
        shape = GeoEllipse(C(v[0], v[1]), v[2], v[3], v[4])
        return _circle_out(shape.circumscribing_circle(), shape.bounding_coords())
    if op == 'curvecircleR':
        shape = GeoRing(C(v[0], v[1]), v[2], v[3], v[4], v[5])
        return _circle_out(shape.circumscribing_circle(), shape.bounding_coords())
    if op == 'welzl':
        seed, nc = int(v[0]), int(v[1])
        want = [int(x) for x in v[2:2 + nc]]
        pts = [C(v[i], v[i + 1]) for i in range(2 + nc, len(v), 2)]
        poly = GeoPolygon(pts)
        c, rec = record_choices(poly.circumscribing_circle, seed)
        if rec != want:
            return 'MISMATCH:choices'
        return _circle_out(c) + f' {len(rec)}'
    if op == 'mincircle':
        nseeds = int(v[0])
        pts = [C(v[i], v[i + 1]) for i in range(1, len(v), 2)]
        poly = GeoPolygon(pts)
        first, dr, dc = None, 0.0, 0.0
        for s in range(nseeds):
            _random.seed(s)
            c = poly.circumscribing_circle()
            cur = (c.center.longitude, c.center.latitude, c.radius)
            if first is None:
                first = cur
            dr = max(dr, abs(cur[2] - first[2]))
            dc = max(dc, G.gc_dist(cur[0], cur[1], first[0], first[1]))
        return enc(*first, dr, dc)
    if op == 'cbounds':
        return enc(*GeoCircle(C(v[0], v[1]), v[2]).bounds)
    if op == 'ebounds':
        return enc(*GeoEllipse(C(v[0], v[1]), v[2], v[3], v[4]).bounds)
    if op == 'rbounds':
        return enc(*GeoRing(C(v[0], v[1]), v[2], v[3], v[4], v[5]).bounds)
    if op in ('rectC', 'rectE', 'rectR'):
        shape = {'rectC': lambda: GeoCircle(C(v[0], v[1]), v[2]), 'rectE': lambda: GeoEllipse(C(v[0], v[1]), v[2], v[3], v[4]),
                 'rectR': lambda: GeoRing(C(v[0], v[1]), v[2], v[3], v[4], v[5])}[op]()
        return enc(*shape.circumscribing_rectangle().bounds, *shape.bounds)
    raise ValueError('unknown op ' + op)


# --------------------------------------------------------------------------------------------------
# comparators impl vs model


def cmp_circle(a, m):
    """centre a correct 1e-7 rounding-level match, radius 1e-9 relative (Welzl: 1e-7, the circum-centre is computed in
    np.longdouble by the implementation), trailing integer (number of random draws) exact"""
    if is_err(a) or is_err(m) or a.startswith('MISMATCH') or a.startswith('none') or m.startswith('none'):
        return a == m
    a0 = a.split(' | ')[0].split()
    m0 = m.split()
    if len(a0) != len(m0):
        return False
    x, y = [common.unfbits(t) for t in a0[:3]], [common.unfbits(t) for t in m0[:3]]
    tol = 1e-9
    if len(a0) == 4:
        # Welzl circles measure their radius with dist_xyz_meters (arccos of a dot product next to 1): one ulp of the
        # centre's unit vector moves it by ~2e-16 / angle^2 relative (3e-7 on a 160 m circle); numpy's norm / longdouble
        # steps are not bit-reproducible in the model
        theta = max(y[2] / G.R_EARTH, 1e-9)
        tol = 1e-7 + 4e-16 / (theta * theta)
    if not point_close(x[0], x[1], y[0], y[1], 1.2e-7):
        return False
    if not (abs(x[2] - y[2]) <= tol * max(abs(x[2]), abs(y[2])) + 1e-6):
        return False
    return a0[3:] == m0[3:]


def cmp_bounds_float(a, m):
    if is_err(a) or is_err(m):
        return a == m
    x, y = parse(a), parse(m)
    return len(x) == len(y) and abs(G.circ_diff(x[0], y[0])) <= 1.2e-7 and abs(G.circ_diff(x[2], y[2])) <= 1.2e-7 and \
        abs(x[1] - y[1]) <= 1.2e-7 and abs(x[3] - y[3]) <= 1.2e-7


# --------------------------------------------------------------------------------------------------
# the property


def _all_vertices(members):
    out = []
    for m in members:
        nums = [Fraction(t) for t in m[1:]]
        out += [(nums[i], nums[i + 1]) for i in range(0, len(nums), 2)]
    return out


def spec_exact(line):
    """bounds = exact min / max of the vertices; union of the members; the rectangle has exactly those bounds"""
    cmd, *a = line.split()
    op = cmd.split('.', 1)[1]
    if op in ('bboxP', 'bboxL', 'bboxT'):
        vs = _all_vertices([[op[-1]] + a])
    elif op == 'box':
        vs = _all_vertices([['B'] + a])
    else:
        vs = _all_vertices(split_members(a))
    xs, ys = [v[0] for v in vs], [v[1] for v in vs]
    return show_bounds((min(xs), min(ys), max(xs), max(ys)))


def min_enclosing_radius(pts):
    """brute force over all 2- and 3-point support sets, on unit vectors; returns the smallest angular radius
    of a circle through 2 (as a diameter) or 3 of the points that encloses all of them"""
    us = [G.uvec(*p) for p in pts]
    best = math.inf
    cands = []
    for i, j in itertools.combinations(range(len(us)), 2):
        m = tuple(us[i][t] + us[j][t] for t in range(3))
        n = G.norm(m)
        if n > 1e-12:
            cands.append(tuple(x / n for x in m))
    for i, j, k in itertools.combinations(range(len(us)), 3):
        n = G.cross(tuple(us[j][t] - us[i][t] for t in range(3)), tuple(us[k][t] - us[i][t] for t in range(3)))
        nn = G.norm(n)
        if nn > 1e-14:
            c = tuple(x / nn for x in n)
            if G.dot(c, us[i]) < 0:
                c = tuple(-x for x in c)
            cands.append(c)
    for c in cands:
        rho = max(G.angle(c, u) for u in us)
        best = min(best, rho)
    return best * G.R_EARTH


def why_circle(a, s):
    """`s` is the protocol line.  Every boundary vertex within the circle to 1e-6 of its radius (+2 cm for generated
    vertices, I2); for polygons the radius is the brute-force minimum and identical for all seeds"""
    if is_err(a):
        return 'raises'
    if a.startswith('MISMATCH'):
        return a
    cmd, *t = s.split()
    op = cmd.split('.', 1)[1]
    head, _, tail = a.partition(' | ')
    h = head.split()
    cl, ca, r = [common.unfbits(x) for x in h[:3]]
    if not (r >= 0 and -180 <= cl < 180 and -90 <= ca <= 90):
        return 'not-a-circle'
    generated = 0.0
    if tail:
        v = parse(tail)
        verts = [(v[i], v[i + 1]) for i in range(0, len(v), 2)]
        generated = 0.0 if op == 'boxcircle' else 0.02
    elif op.startswith('maxcircle'):
        ms = split_members(t)
        ms[0] = ms[0][2:]
        verts = [(v[i], v[i + 1]) for v in (floats(m) for m in ms) for i in range(0, len(v), 2)]
    elif op == 'welzl':
        v = floats(t)
        nc = int(v[1])
        verts = [(v[i], v[i + 1]) for i in range(2 + nc, len(v), 2)]
    elif op == 'mincircle':
        v = floats(t)
        verts = [(v[i], v[i + 1]) for i in range(1, len(v), 2)]
    else:
        return 'spec-error'
    worst = max(G.gc_dist(cl, ca, p[0], p[1]) - r for p in verts)
    if worst > 1e-6 * r + generated + 1e-9:
        return 'vertex-outside'
    if op == 'mincircle':
        dr, dc = common.unfbits(h[3]), common.unfbits(h[4])
        if dr > 1e-7 * r + 1e-6 or dc > 1e-7 * r + 1e-3:
            return 'seed-dependent'
        rmin = min_enclosing_radius(verts)
        if r > rmin * (1 + 1e-6) + 1e-6:
            return 'not-minimal'
    return None


def dense_extents(op, v):
    """true extents (min_lon, min_lat, max_lon, max_lat; lon un-wrapped around the centre) of the curve, by dense
    sampling of oracle destinations (independent of the implementation's corner / axis constructions)"""
    clon, clat = v[0], v[1]
    pts = []
    n = 1440
    if op == 'cbounds':
        pts = [G.destination(clon, clat, 2 * math.pi * i / n, v[2]) for i in range(n)]
    elif op == 'ebounds':
        a_, b_, rot = v[2], v[3], v[4]
        pts = [G.destination(clon, clat, 2 * math.pi * i / n + math.radians(rot), ell_r(a_, b_, 2 * math.pi * i / n)[0]) for i in range(n)]
    else:
        inner, outer, amin, amax = v[2], v[3], v[4], v[5]
        if amax - amin >= 360:
            pts = [G.destination(clon, clat, 2 * math.pi * i / n, outer) for i in range(n)]
        else:
            for i in range(n + 1):
                t = math.radians(amin + (amax - amin) * i / n)
                pts.append(G.destination(clon, clat, t, outer))
                pts.append(G.destination(clon, clat, t, inner))
    lons = [_unwrap(clon, p[0]) for p in pts]
    lats = [p[1] for p in pts]
    return min(lons), min(lats), max(lons), max(lats)


def why_cbounds(a, s):
    """bounds within 1 % of the radius of the true extents (metres on the sphere)"""
    if is_err(a):
        return 'raises'
    cmd, *t = s.split()
    op = cmd.split('.', 1)[1]
    v = floats(t)
    b = parse(a)
    e = dense_extents(op, v)
    radius = v[3] if op == 'rbounds' else v[2]
    m_lat = math.radians(1.0) * G.R_EARTH
    m_lon = m_lat * math.cos(math.radians(v[1]))
    errs = [abs(_unwrap(v[0], b[0]) - e[0]) * m_lon, abs(b[1] - e[1]) * m_lat,
            abs(_unwrap(v[0], b[2]) - e[2]) * m_lon, abs(b[3] - e[3]) * m_lat]
    if max(errs) <= 0.01 * radius:
        return None
    if op == 'rbounds' and v[5] - v[4] < 360 and (e[0] < -180 or e[2] >= 180):
        return 'wedge-straddles-antimeridian'
    return 'extent-off-by-more-than-1-percent'


def spec_line(line):
    return line


def _ok(f):
    return lambda a, s: f(a, s) is None


def why_rect_curved(a, s):
    if is_err(a):
        return 'raises'
    x = parse(a)
    return None if x[:4] == x[4:] else 'rectangle-bounds-differ'


SITE = {'bboxP': 'GeoPolygon.bounds', 'bboxL': 'GeoLineString.bounds', 'bboxT': 'GeoPoint.bounds', 'box': 'GeoBox.bounds',
        'unionMP': 'MultiGeoPolygon.bounds', 'unionML': 'MultiGeoLineString.bounds', 'unionMT': 'MultiGeoPoint.bounds',
        'unionFC': 'FeatureCollection.bounds', 'unionTR': 'Track.bounds',
        'rectS': 'circumscribing_rectangle', 'rectMP': 'MultiGeoPolygon.circumscribing_rectangle',
        'rectML': 'MultiGeoLineString.circumscribing_rectangle', 'rectC': 'GeoCircle.circumscribing_rectangle',
        'rectE': 'GeoEllipse.circumscribing_rectangle', 'rectR': 'GeoRing.circumscribing_rectangle',
        'maxcircleL': 'GeoLineString.circumscribing_circle', 'maxcircleML': 'MultiGeoLineString.circumscribing_circle',
        'maxcircleMP': 'MultiGeoPolygon.circumscribing_circle', 'maxcircleMT': 'MultiGeoPoint.circumscribing_circle',
        'wedgecircle': 'GeoRing.circumscribing_circle', 'boxcircle': 'GeoBox.circumscribing_circle',
        'curvecircleC': 'GeoCircle.circumscribing_circle', 'curvecircleE': 'GeoEllipse.circumscribing_circle',
        'curvecircleR': 'GeoRing.circumscribing_circle', 'welzl': 'GeoPolygon.circumscribing_circle',
        'mincircle': 'GeoPolygon.circumscribing_circle', 'cbounds': 'GeoCircle.bounds', 'ebounds': 'GeoEllipse.bounds',
        'rbounds': 'GeoRing.bounds'}


def op_of(line):
    return line.split(' ', 1)[0].split('.', 1)[1]


def kind_of(op):
    if op in ('cbounds', 'ebounds', 'rbounds'):
        return 'cb'
    if op in ('rectC', 'rectE', 'rectR'):
        return 'rc'
    if 'circle' in op or op == 'welzl':
        return 'circle'
    return 'exact'


def finding_key(line, a, s):
    op = op_of(line)
    k = kind_of(op)
    if k == 'exact':
        why = 'raises' if is_err(a) else 'value'
    elif k == 'circle':
        why = why_circle(a, s)
    elif k == 'cb':
        why = why_cbounds(a, s)
    else:
        why = why_rect_curved(a, s)
    return f'{SITE[op]}/{why}'


def spec(line):
    return spec_exact(line) if kind_of(op_of(line)) == 'exact' else line


def impl_for(_line):
    return impl_derived if _line.startswith('bd.derived') else impl


def spec_for(line):
    if line.startswith('bd.derived'):
        return spec_derived
    k = kind_of(op_of(line))
    if k == 'exact':
        return spec_exact
    why = {'circle': why_circle, 'cb': why_cbounds, 'rc': why_rect_curved}[k]

    def f(ln):
        try:
            a = impl(ln)
        except Exception as e:  # noqa
            a = common.err_name(e)
        w = why(a, ln)
        return a if w is None else 'demands: not ' + w
    return f


# --------------------------------------------------------------------------------------------------
# generators


def dy(rng, lo, hi, den):
    return Fraction(rng.randrange(int(lo * den), int(hi * den) + 1), den)


def gen_exact_vertices(rng, n):
    """n dyadic vertices inside an extent of 0.02..20 degrees anywhere on the globe (incl. next to the antimeridian
    and the poles); returns Fractions"""
    den = rng.choice([8, 16, 64, 1024])
    ext = Fraction(rng.choice([1, 2, 8, 40, 160, 1280]), 64)      # 1/64 .. 20 degrees
    ext = max(ext, Fraction(4, den))
    r = rng.random()
    if r < 0.25:
        cx = rng.choice([Fraction(180) - ext / 2, Fraction(-180) + ext / 2])
    else:
        cx = dy(rng, -170, 170, 8)
    cy = dy(rng, -80, 80, 8) if r > 0.1 else rng.choice([Fraction(90) - ext / 2, Fraction(-90) + ext / 2])
    pts = []
    for _ in range(n):
        x = cx + dy(rng, -1, 1, den) * ext / 2
        y = cy + dy(rng, -1, 1, den) * ext / 2
        x = min(max(x, Fraction(-180)), Fraction(180) - Fraction(1, 1024))
        y = min(max(y, Fraction(-90)), Fraction(90))
        pts.append((x, y))
    return pts


def ring_order(pts):
    cx = sum(p[0] for p in pts) / len(pts)
    cy = sum(p[1] for p in pts) / len(pts)
    return sorted(pts, key=lambda p: math.atan2(float(p[1] - cy), float(p[0] - cx)))


def member_tokens(rng, kind):
    if kind == 'P':
        pts = ring_order(gen_exact_vertices(rng, rng.randrange(3, 8)))
        if rng.random() < 0.3:
            pts = pts[::-1]
        if rng.random() < 0.3:
            pts = pts + [pts[0]]
    elif kind == 'L':
        pts = gen_exact_vertices(rng, rng.randrange(2, 7))
    elif kind == 'T':
        pts = gen_exact_vertices(rng, 1)
    else:
        a, b = gen_exact_vertices(rng, 2)
        w, e = sorted([a[0], b[0]])
        s, n = sorted([a[1], b[1]])
        pts = [(w, n), (e, s)]
    return [kind] + [rat(c) for p in pts for c in p]


def gen_float_points(rng, n, symmetric=False):
    """n coordinates inside an extent of 0.02..20 degrees; floats"""
    ext = 10 ** rng.uniform(math.log10(0.02), math.log10(20))
    clat = rng.uniform(-78, 78)
    clon = rng.choice([rng.uniform(-180, 180), 180 - rng.uniform(0, ext / 2), -180 + rng.uniform(0, ext / 2)])
    if symmetric:
        dx, dy_ = rng.randrange(1, 64) / 64, rng.randrange(1, 64) / 64
        base = [(dx, dy_), (-dx, dy_), (-dx, -dy_), (dx, -dy_)]
        rng.shuffle(base)
        return [(C(x, y).longitude, C(x, y).latitude) for x, y in base]
    pts = []
    for _ in range(n):
        p = C(clon + rng.uniform(-ext / 2, ext / 2), max(-89.0, min(89.0, clat + rng.uniform(-ext / 2, ext / 2))))
        pts.append((p.longitude, p.latitude))
    return pts


def flat(pts):
    return [x for p in pts for x in p]



# ---- support stream (no model): bounds of *derived* collections after the receiver's cached bounds were read -----------
# "the bounds of a multi-shape or collection are the union of its members' bounds" must also hold for collections
# obtained from another one (slice, filter, +, copy, split) whose cached bounds had already been computed
# (seeded change C09-m3: a slice built by copy.copy() dragged the parent's cached bounds along).

def impl_derived(line):
    import random as _r
    from datetime import datetime, timedelta, timezone
    from geostructures import Coordinate, FeatureCollection, GeoBox, GeoLineString, GeoPoint, Track
    from geostructures.time import TimeInterval
    _op, kind, how, seed = line.split()
    rng = _r.Random(int(seed))
    t0 = datetime(2021, 3, 1, tzinfo=timezone.utc)

    def member(i):
        x, y = rng.randint(-400, 400) / 8, rng.randint(-300, 300) / 8
        dt = t0 + timedelta(hours=rng.randint(0, 40))
        if rng.random() < 0.3:
            dt = TimeInterval(dt, dt + timedelta(hours=rng.randint(1, 30)))
        k = rng.random()
        if k < 0.5:
            return GeoPoint(Coordinate(x, y), dt=dt, properties={'i': i})
        if k < 0.75:
            return GeoBox(Coordinate(x, y + 1), Coordinate(x + 2, y), dt=dt, properties={'i': i})
        return GeoLineString([Coordinate(x, y), Coordinate(x + 1, y + 3)], dt=dt, properties={'i': i})
    shapes = [member(i) for i in range(rng.randint(2, 9))]
    col = (Track if kind == 'T' else FeatureCollection)(shapes)
    col.bounds                                   # the receiver's bounds are cached from here on
    cut = t0 + timedelta(hours=rng.randint(5, 35))
    if how == 'slice':
        r = col[cut:] if rng.random() < 0.5 else col[:cut]
    elif how == 'fdt':
        r = col.filter_by_dt(TimeInterval(t0, cut))
    elif how == 'fisect':
        r = col.filter_by_intersection(GeoBox(Coordinate(-60, 40), Coordinate(10, -40)))
    elif how == 'fprop':
        r = col.filter_by_property('i', lambda v: v % 2 == 0)
    elif how == 'add':
        r = col + (Track if kind == 'T' else FeatureCollection)([member(99)])
    elif how == 'copy':
        r = col.copy()
        r.geoshapes.append(member(98))
        if kind == 'T':
            r = Track(r.geoshapes)
    elif how == 'convolve':
        r = col.convolve_duplicate_timestamps()
    elif how == 'journeys':
        r = col.filter_impossible_journeys(rng.choice([50.0, 500.0, 5000.0]))
    else:
        raise ValueError(how)
    members = list(r.geoshapes)
    if not members:
        return 'OK empty'
    bs = [m.bounds for m in members]
    want = (min(b[0] for b in bs), min(b[1] for b in bs), max(b[2] for b in bs), max(b[3] for b in bs))
    got = tuple(r.bounds)
    return 'OK' if got == want else f'STALE bounds={got} union-of-members={want}'


def spec_derived(_line):
    return 'OK'


def check(run):
    run.prove(MODULE, THEOREMS)
    run.source_tie(['SrcBounds'], 'GeoVerif.Props.C09Src', SRC_THEOREMS)
    # bounds / circumscribing circles of the curved shapes against the vertices the *source* generates for them
    run.source_tie(['SrcCurvedGen'], 'GeoVerif.Props.C09SrcCurved', ['GV.C09SrcCurved.' + t for t in (
        'ellipseCircle_eq', 'ringBounds_eq', 'ringBounds_ok', 'src_ellipse_circle_encloses', 'src_ring_circle_encloses',
        'src_circle_circle_encloses')]
        + ['GV.C03SrcGen.circleBounds_eq', 'GV.C03SrcGen.ellipseBounds_eq'])
    rng = run.rng
    kinds = {}

    def tagger(stream):
        return lambda ln, a: [f'{stream}:{kinds.get(ln, op_of(ln))}' + (':' + a if is_err(a) else '')]

    def go(stream, lines, compare=None, why=None, model=True):
        sp = spec if why is None else spec_line
        return run.run_cases(stream, lines, impl, sp, model=model, compare=compare,
                             spec_compare=None if why is None else _ok(why), known_key=finding_key, tag=tagger(stream))

    # ---- 0. corpus: witnesses of F09a (known finding) and F09b (repaired)
    cpath = common.os.path.join(common.CORPUS_DIR, 'C09.txt')
    if common.os.path.exists(cpath):
        old_to, run.impl_timeout = run.impl_timeout, 60.0
        for ln in open(cpath):
            ln = ln.strip()
            if ln and not ln.startswith('#'):
                go('corpus', [ln], compare=cmp_circle, why=why_circle, model=op_of(ln) != 'mincircle')
        run.impl_timeout = old_to

    # ---- 1. exact: bounds of vertex-defined shapes, union for multi-shapes and collections, rectangle
    n = run.scale(400, 12000)
    lines_b, lines_u, lines_r = [], [], []
    for _ in range(n):
        k = rng.choice('PLTB')
        m = member_tokens(rng, k)
        lines_b.append(f'bd.{"box" if k == "B" else "bbox" + k} {" ".join(m[1:])}')
        if k != 'T':
            lines_r.append(f'bd.rectS {" ".join(m)}')
        cont = rng.choice(['MP', 'ML', 'MT', 'FC', 'TR'])
        mk = {'MP': 'PB', 'ML': 'L', 'MT': 'T', 'FC': 'PLTB', 'TR': 'PLTB'}[cont]
        ms = [member_tokens(rng, rng.choice(mk)) for _ in range(rng.randrange(1, 6))]
        if rng.random() < 0.25:
            # a member whose box touches longitude / latitude exactly 0.0 listed before members that do not reach as far
            # (seeded change C09-n3: a running extreme of 0.0 is falsy in `min(min_lon or lon0, lon0)`)
            z = {'P': ['P', '0', '0', '1', '0', '1', '1', '0', '1'], 'B': ['B', '0', '1', '1', '0'], 'L': ['L', '0', '0', '1', '1'],
                 'T': ['T', '0', '0']}[rng.choice(mk)]
            far = {'P': ['P', '2', '2', '3', '2', '3', '3'], 'B': ['B', '2', '3', '3', '2'], 'L': ['L', '2', '2', '3', '3'],
                   'T': ['T', '3', '2']}[rng.choice(mk)]
            neg = {'P': ['P', '-3', '-3', '-2', '-3', '-2', '-2'], 'B': ['B', '-3', '-2', '-2', '-3'], 'L': ['L', '-3', '-3', '-2', '-2'],
                   'T': ['T', '-3', '-2']}[rng.choice(mk)]
            ms = [z, rng.choice([far, neg])] + ms[:2]
        body = ' | '.join(' '.join(x) for x in ms)
        lines_u.append(f'bd.union{cont} {body}')
        if cont in ('MP', 'ML'):
            lines_r.append(f'bd.rect{cont} {body}')
    go('bounds-vertex-exact', lines_b)
    go('bounds-union-exact', lines_u)
    go('rectangle-has-bounds-exact', lines_r)

    # ---- 2. circumscribing circles: centroid + farthest vertex (two-pass: the centroid is observed, then given)
    def observe(fn):
        try:
            with common.watchdog(run.impl_timeout):
                return fn()
        except (Exception, common.ImplTimeout):  # noqa
            return None

    from geostructures import GeoLineString, GeoPolygon, GeoPoint, GeoRing, MultiGeoLineString, MultiGeoPoint, MultiGeoPolygon
    lines_c = []
    for _ in range(run.scale(250, 8000)):
        k = rng.choice(['L', 'ML', 'MP', 'MT'])
        if k == 'L':
            groups = [gen_float_points(rng, rng.randrange(2, 9))]
            mkshape = lambda g: GeoLineString([C(*p) for p in g[0]])  # noqa: E731
        elif k == 'ML':
            groups = [gen_float_points(rng, rng.randrange(2, 6)) for _ in range(rng.randrange(1, 4))]
            mkshape = lambda g: MultiGeoLineString([GeoLineString([C(*p) for p in x]) for x in g])  # noqa: E731
        elif k == 'MP':
            groups = []
            for _j in range(rng.randrange(1, 4)):
                ps = gen_float_points(rng, rng.randrange(3, 7))
                cx, cy = sum(p[0] for p in ps) / len(ps), sum(p[1] for p in ps) / len(ps)
                if max(p[0] for p in ps) - min(p[0] for p in ps) > 180:
                    ps = [(p[0], p[1]) for p in ps]
                ps = sorted(ps, key=lambda p: math.atan2(p[1] - cy, _unwrap(cx, p[0]) - cx))
                groups.append(ps + [ps[0]])
            mkshape = lambda g: MultiGeoPolygon([GeoPolygon([C(*p) for p in x]) for x in g])  # noqa: E731
        else:
            groups = [[p] for p in gen_float_points(rng, rng.randrange(1, 8))]
            mkshape = lambda g: MultiGeoPoint([GeoPoint(C(*x[0])) for x in g])  # noqa: E731
        cen = observe(lambda: mkshape(groups).centroid)
        if cen is None:
            continue
        if k == 'MP':      # the polygon form stores its own (possibly re-oriented) outline
            groups = [[(c.longitude, c.latitude) for c in poly.bounding_coords()] for poly in mkshape(groups).geoshapes]
        body = ' | '.join(enc(*flat(g)) for g in groups)
        ln = f'bd.maxcircle{k} {enc(cen.longitude, cen.latitude)} {body}'
        lines_c.append(ln)
    go('circle-centroid-farthest-vertex', lines_c, compare=cmp_circle, why=why_circle)

    # wedges (centroid observed), boxes, curved shapes
    lines_w, lines_box, lines_cv = [], [], []
    for _ in range(run.scale(120, 3000)):
        c = (rng.uniform(-180, 180), rng.uniform(-75, 75))
        outer = 10 ** rng.uniform(1.3, 5)
        inner = rng.choice([0.0, outer * rng.uniform(0.1, 0.9)])
        amin = rng.choice([0.0, rng.uniform(0.5, 300)])
        amax = rng.choice([360.0, rng.uniform(amin + 1, 360)])
        if amin and amax and not (amin == 0 and amax == 360):
            cen = observe(lambda: GeoRing(C(*c), inner, outer, amin, amax).centroid)
            if cen is not None:
                ln = f'bd.wedgecircle {enc(cen.longitude, cen.latitude, c[0], c[1], inner, outer, amin, amax)}'
                kinds[ln] = 'wedge'
                lines_w.append(ln)
        else:
            ln = f'bd.curvecircleR {enc(c[0], c[1], inner, outer, amin, amax)}'
            kinds[ln] = 'ring:' + ('full' if (amin, amax) == (0.0, 360.0) else 'wedge-with-falsy-angle')
            lines_cv.append(ln)
        r = 10 ** rng.uniform(1, 5)
        lines_cv.append(f'bd.curvecircleC {enc(c[0], c[1], r)}')
        ratio = rng.choice([1.0, rng.uniform(1, 10)])
        lines_cv.append(f'bd.curvecircleE {enc(c[0], c[1], r, r / ratio, rng.uniform(0, 360))}')
        # box: extents 0.02 .. 20 degrees, any latitude
        ext_x, ext_y = 10 ** rng.uniform(-1.7, 1.3), 10 ** rng.uniform(-1.7, 1.3)
        lat = rng.uniform(-80, 80)
        w = rng.uniform(-180, 180 - ext_x)
        nw, se = C(w, min(89.9, lat + ext_y / 2)), C(w + ext_x, max(-89.9, lat - ext_y / 2))
        ln = f'bd.boxcircle {enc(nw.longitude, nw.latitude, se.longitude, se.latitude)}'
        kinds[ln] = 'box:' + ('north' if se.latitude > 0 else ('south' if nw.latitude < 0 else 'straddles-equator'))
        lines_box.append(ln)
    go('circle-wedge', lines_w, compare=cmp_circle, why=why_circle)
    go('circle-curved', lines_cv, compare=cmp_circle, why=why_circle)
    go('circle-box', lines_box, compare=cmp_circle, why=why_circle)

    # ---- 3. polygon circle: Welzl with the recorded random draws (model), then minimality / all seeds (oracle)
    polys = []
    for i in range(run.scale(60, 600)):
        sym = i % 6 == 0
        pts = gen_float_points(rng, rng.randrange(3, 10), symmetric=sym)
        if i % 6 == 1:     # a dyadic right / obtuse triangle and duplicates
            pts = [(pts[0][0], pts[0][1]), (pts[0][0] + 0.5, pts[0][1]), (pts[0][0], min(89.0, pts[0][1] + 0.25))]
            pts = [(C(*p).longitude, C(*p).latitude) for p in pts] + ([pts[0]] if rng.random() < 0.5 else [])
        if i % 6 == 2:     # an obtuse triangle (the minimal circle has the long side as diameter), any vertex order
            x, y = pts[0][0], max(-88.0, min(88.0, pts[0][1]))
            w = rng.choice([0.02, 0.5, 3.0])
            pts = [(x, y), (x + w, y), (x + w * rng.uniform(0.3, 0.7), y + w * rng.uniform(0.05, 0.2))]
            rng.shuffle(pts)
            pts = [(C(*p).longitude, C(*p).latitude) for p in pts]
        cocirc = i % 6 == 3
        if cocirc:         # (nearly) cocircular vertices at small scale: the polygon form of a 2-20 km circle (extent >= 0.02 deg, the quantified range) (seeded
            #                 change C09-n1 gave Welzl's "already inside" test a centimetre of slack)
            from geostructures import GeoCircle
            cc = observe(lambda: [(c.longitude, c.latitude) for c in GeoCircle(
                C(pts[0][0], max(-75.0, min(75.0, pts[0][1]))), rng.choice([2000.0, 5000.0, 20000.0])).bounding_coords(
                    k=rng.choice([8, 12, 24, 36]))[:-1]])
            if cc:
                pts = cc
        polys.append((pts, 'symmetric' if sym else ('right-triangle' if i % 6 == 1 else ('obtuse-triangle' if i % 6 == 2 else ('cocircular-small' if cocirc else f'n={len(pts)}')))))
    lines_wz, lines_min = [], []
    nseeds = run.scale(64, 1024)
    for pts, kind in polys:
        stored = observe(lambda: [(c.longitude, c.latitude) for c in GeoPolygon([C(*p) for p in pts]).outline[:-1]])
        if not stored:
            continue
        pts = stored          # GeoPolygon re-orients a clockwise outline: the algorithm indexes the stored order
        # nearly cocircular vertices decide `rad >= dist` in the last bit, where the model's Float evaluation and numpy's
        # long-double cross products may differ: they are judged by the all-seeds oracle only, not replayed through the model
        for seed in ([] if kind == 'cocircular-small' else rng.sample(range(nseeds), run.scale(4, 8))):
            got = observe(lambda: record_choices(GeoPolygon([C(*p) for p in pts]).circumscribing_circle, seed))
            if got is None:
                continue
            ln = f'bd.welzl {enc(seed, len(got[1]), *got[1], *flat(pts))}'
            kinds[ln] = 'welzl:' + kind
            lines_wz.append(ln)
        ln = f'bd.mincircle {enc(nseeds, *flat(pts))}'
        kinds[ln] = 'min:' + kind
        lines_min.append(ln)
    go('polygon-circle-welzl-recorded-draws', lines_wz, compare=cmp_circle, why=why_circle)
    old_to, run.impl_timeout = run.impl_timeout, 60.0
    go('np-polygon-circle-minimal-all-seeds', lines_min, why=why_circle, model=False)
    run.impl_timeout = old_to
    run.note(f'np-polygon-circle-minimal-all-seeds: {len(lines_min)} polygons x seeds 0..{nseeds - 1} of `random`')

    # ---- 4. curved-shape bounds: model tie + within 1 % of the radius of an independent dense-sampling oracle
    lines_cb, lines_rc = [], []
    for _ in range(run.scale(150, 4000)):
        c = (rng.choice([rng.uniform(-180, 180), C(180 - rng.uniform(0, 0.05), 0).longitude]), rng.uniform(-75, 75))
        r = 10 ** rng.uniform(1, 4)
        lines_cb.append(f'bd.cbounds {enc(c[0], c[1], r)}')
        ratio = rng.choice([1.0, rng.uniform(1, 10)])
        lines_cb.append(f'bd.ebounds {enc(c[0], c[1], r, r / ratio, rng.choice([rng.uniform(0, 360), 0.0, 90.0, 45.0]))}')
        inner = rng.choice([0.0, r * rng.uniform(0.1, 0.9)])
        amin = rng.choice([0.0, rng.uniform(0, 300)])
        amax = rng.choice([360.0, rng.uniform(amin + 5, 360)])
        ln = f'bd.rbounds {enc(c[0], c[1], inner, r, amin, amax)}'
        kinds[ln] = 'rbounds:' + ('full' if amax - amin >= 360 else 'wedge')
        lines_cb.append(ln)
        lines_rc += [f'bd.rectC {enc(c[0], c[1], r)}', f'bd.rectE {enc(c[0], c[1], r, r / ratio, 30.0)}',
                     f'bd.rectR {enc(c[0], c[1], inner, r, amin, amax)}']
    go('curved-bounds', lines_cb, compare=cmp_bounds_float, why=why_cbounds)
    go('np-rectangle-has-bounds-curved', lines_rc, why=why_rect_curved, model=False)

    # ---- derived collections: union of member bounds after the receiver's cached bounds were read (support, no model)
    lines_d = []
    for i in range(run.scale(160, 4000)):
        kind = 'T' if i % 2 else 'F'
        hows = ['fdt', 'fisect', 'fprop', 'add', 'copy'] + (['slice', 'convolve', 'journeys'] if kind == 'T' else [])
        lines_d.append(f'bd.derived {kind} {hows[(i // 2) % len(hows)]} {rng.randrange(10 ** 9)}')
    run.run_cases('np-derived-collection-bounds', lines_d, impl_derived, spec_derived, model=False,
                  spec_compare=lambda a, sp: a.startswith('OK'),
                  known_key=lambda ln, a, sp: 'derived-collection.bounds/' + ln.split()[2] + '/stale',
                  tag=lambda ln, a: ['derived:' + ln.split()[1] + ':' + ln.split()[2] + (':empty' if a.endswith('empty') else '')])

    return run.finish(
        rule='a case is one protocol line = one shape (or multi-shape / collection of 1-5 members, or polygon + seed): '
             'dyadic vertex lists of extent 1/64..20 deg anywhere incl. the antimeridian and the poles for the exact bounds / '
             'union / rectangle streams; float shapes of extent 0.02..20 deg for the circles; polygons of 3..9 vertices '
             '(incl. symmetric rectangles whose far corners sit exactly on the circle, right triangles, duplicate vertices) '
             'x sampled seeds with the recorded random draws, and x all seeds 0..63 / 0..1023 for minimality and '
             'seed-independence; curved shapes of 10 m..10 km at |lat|<=75 for the 1 % clause. distinct by line.',
        assumptions=['exact streams use dyadic rationals: min / max are exact in binary64',
                     'circle enclosure tolerance: 1e-6 of the radius (+2 cm for generated vertices of curved shapes, I2)',
                     'Welzl: np.longdouble circum-centre modelled in binary64 (radius compared to 1e-7 relative); the random '
                     'draws are recorded by wrapping random.randrange and handed to the model as an explicit choice sequence',
                     'minimality: brute force over all 2-/3-point support circles on unit vectors, 1e-6 relative',
                     'seed independence: radius within 1e-7 relative, centre within 1e-7 r across all seeds',
                     'curved bounds: dense sampling (1440 bearings) of oracle destinations; 1 % of the radius in metres'],
        checker_cmd='cd lean && lake build GeoVerif.Props.C09 && lake env lean .lake/audit/C09.lean  (#print axioms)')
