"""
Shared machinery of the checks: PRNG, Lean build/audit, driver pipe, impl interpreter with watchdog,
correspondence diff, property-oracle (failing-input search), known findings, replay and evidence files.

A *case* is one protocol line `<stream>.<op> <args…>`.  Three interpreters may answer it:
  * `impl`  – the property module's Python function that parses the line and calls the real code in /repo;
  * `model` – the Lean driver (`lake env lean --run Driver.lean`), i.e. the executable model the
              theorems are about;
  * `spec`  – the property oracle: what the *property statement* demands for this line (optional per op).
impl ≠ model  → correspondence broken (the theorems no longer speak about this code);
impl ≠ spec   → a concrete failing input of the property on the real code.
"""
import contextlib
import fcntl
import hashlib
import json
import os
import random
import re
import signal
import subprocess
import sys
import time
from collections import Counter, OrderedDict

VERIF = os.path.dirname(os.path.dirname(os.path.abspath(__file__)))
LEAN_DIR = os.path.join(VERIF, 'lean')
EVIDENCE_DIR = os.path.join(VERIF, 'evidence')
REPLAY_DIR = os.path.join(EVIDENCE_DIR, 'replays')
CORPUS_DIR = os.path.join(VERIF, 'corpus')
KNOWN_FILE = os.path.join(VERIF, 'known_findings.txt')
REPO = os.environ.get('GEOSTRUCTURES_REPO', '/repo')
SCRATCH = os.path.realpath(REPO) != os.path.realpath('/repo')
if SCRATCH:
    # runs against scratch clones (seeded changes, reverted fixes) never overwrite the real evidence
    EVIDENCE_DIR = os.path.join(VERIF, 'evidence', '_scratch')
    REPLAY_DIR = os.path.join(EVIDENCE_DIR, 'replays')
ALLOWED_AXIOMS = {'propext', 'Classical.choice', 'Quot.sound'}
FORBIDDEN = re.compile(r'\bsorry\b|\badmit\b|^\s*axiom\s|native_decide|bv_decide|implemented_by|\bunsafe\s|maxHeartbeats\s+0')

TRUSTED_BASE = [
    'Lean 4.33.0 kernel (leanchecker re-check in the thorough tier)',
    'axioms allowed in property theorems: propext, Classical.choice, Quot.sound (audited by #print axioms on every run)',
    'Mathlib v4.33.0 as a library of kernel-checked lemmas',
    'hand-written Lean model of the anchored code; tied to /repo only by the correspondence check of this run',
    'harness abstraction functions (datetime -> microseconds, float -> exact p/q, shape -> record) and canonicalisation',
    'CPython runtime semantics (float arithmetic, datetime, hash, dict/set) are modelled, not verified',
]


class InfraError(Exception):
    """harness / tool-chain problem: exit 2, never a VIOLATION"""


# --------------------------------------------------------------------------------------------------
# import of the implementation under test


def import_repo():
    """Import geostructures from the live /repo working tree (not from a snapshot)."""
    if REPO not in sys.path:
        sys.path.insert(0, REPO)
    import logging
    import geostructures  # noqa
    logging.disable(logging.CRITICAL)
    path = os.path.dirname(os.path.abspath(geostructures.__file__))
    want = os.path.join(os.path.realpath(REPO), 'geostructures')
    if os.path.realpath(path) != want:
        raise InfraError(f'geostructures imported from {path}, expected {want}')
    return geostructures


# --------------------------------------------------------------------------------------------------
# watchdog for calls into the implementation


class ImplTimeout(BaseException):
    """raised by the watchdog inside a call into the implementation.  A BaseException: the history interpreters of the
    property modules wrap every step in `except Exception` ("an exception is this step's answer"), which used to swallow
    the watchdog's signal, record TIMEOUT as one step's answer and go on without a limit, so the line was never asked again
    (false alarm of C05 on a busy machine at thorough sizes).  Now it always reaches `Run.call_impl`, which asks again with
    a long limit before calling it a time-out."""


class RunAborted(BaseException):
    """the run ends early with the verdicts gathered so far (library calls that no longer terminate, wall-clock limit);
    a BaseException so that no `except Exception` around a library call swallows it"""


@contextlib.contextmanager
def watchdog(seconds):
    def _raise(signum, frame):
        raise ImplTimeout()
    old = signal.signal(signal.SIGALRM, _raise)
    signal.setitimer(signal.ITIMER_REAL, seconds)
    try:
        yield
    finally:
        signal.setitimer(signal.ITIMER_REAL, 0)
        signal.signal(signal.SIGALRM, old)


def err_name(exc):
    if isinstance(exc, ImplTimeout):
        return 'TIMEOUT'
    for cls, name in ((KeyError, 'ERR:Key'), (IndexError, 'ERR:Index'), (ValueError, 'ERR:Value'),
                      (TypeError, 'ERR:Type'), (ZeroDivisionError, 'ERR:ZeroDiv'),
                      (AttributeError, 'ERR:Attr'), (AssertionError, 'ERR:Assert'),
                      (RecursionError, 'ERR:Recursion'), (OverflowError, 'ERR:Overflow')):
        if isinstance(exc, cls):
            return name
    return 'ERR:Other:' + type(exc).__name__


# --------------------------------------------------------------------------------------------------
# exact number exchange


def rat(x):
    """exact rational text of a float/int/Fraction"""
    from fractions import Fraction
    if isinstance(x, int):
        return str(x)
    if isinstance(x, Fraction):
        n, d = x.numerator, x.denominator
    else:
        n, d = float(x).as_integer_ratio()
    return str(n) if d == 1 else f'{n}/{d}'


def unrat(s):
    from fractions import Fraction
    return Fraction(s)


def fbits(x):
    import struct
    return 'x%016x' % struct.unpack('<Q', struct.pack('<d', float(x)))[0]


def unfbits(s):
    import struct
    return struct.unpack('<d', struct.pack('<Q', int(s[1:], 16)))[0]


def tf(b):
    return 'T' if b else 'F'


# --------------------------------------------------------------------------------------------------
# Lean side


class LeanLock:
    def __enter__(self):
        os.makedirs(os.path.join(LEAN_DIR, '.lake'), exist_ok=True)
        self.f = open(os.path.join(LEAN_DIR, '.lake', 'verif.lock'), 'w')
        fcntl.flock(self.f, fcntl.LOCK_EX)
        return self

    def __exit__(self, *a):
        fcntl.flock(self.f, fcntl.LOCK_UN)
        self.f.close()


def _run(cmd, timeout, input=None, cwd=None):
    p = subprocess.run(cmd, cwd=cwd or LEAN_DIR, input=input, capture_output=True, text=True, timeout=timeout)
    return p.returncode, p.stdout, p.stderr


def lake_build(targets, timeout=3000):
    """Returns (ok, log).  ok=False means a proof obligation (or a model) no longer builds."""
    with LeanLock():
        try:
            rc, out, err = _run(['lake', 'build'] + list(targets), timeout)
        except subprocess.TimeoutExpired:
            raise InfraError('lake build timed out')
        except FileNotFoundError:
            raise InfraError('lake not found')
    log = (out + err)
    return rc == 0, log


def strip_lean_comments(src):
    # block comments (nested) and line comments
    out, i, depth, n = [], 0, 0, len(src)
    while i < n:
        if src.startswith('/-', i):
            depth += 1
            i += 2
        elif depth and src.startswith('-/', i):
            depth -= 1
            i += 2
        elif depth:
            if src[i] == '\n':
                out.append('\n')
            i += 1
        elif src.startswith('--', i):
            while i < n and src[i] != '\n':
                i += 1
        else:
            out.append(src[i])
            i += 1
    return ''.join(out)


def grep_forbidden():
    """sorry/admit/axiom/native_decide/… anywhere in the Lean sources (comments stripped)"""
    hits = []
    for root, _dirs, files in os.walk(LEAN_DIR):
        if '.lake' in root:
            continue
        for fn in files:
            if not fn.endswith('.lean'):
                continue
            path = os.path.join(root, fn)
            code = strip_lean_comments(open(path, encoding='utf-8').read())
            for ln, line in enumerate(code.split('\n'), 1):
                if FORBIDDEN.search(line):
                    hits.append(f'{os.path.relpath(path, LEAN_DIR)}:{ln}: {line.strip()[:80]}')
    return hits


def audit_axioms(pid, module, theorems, timeout=900):
    """`#print axioms` for every listed theorem.  Returns {theorem: (ok, axioms|error)}."""
    d = os.path.join(LEAN_DIR, '.lake', 'audit')
    os.makedirs(d, exist_ok=True)
    path = os.path.join(d, f'{pid}.lean')
    mods = module if isinstance(module, (list, tuple)) else [module]
    with open(path, 'w') as f:
        for m in mods:
            f.write(f'import {m}\n')
        for t in theorems:
            f.write(f'#print axioms {t}\n')
    try:
        rc, out, err = _run(['lake', 'env', 'lean', path], timeout)
    except subprocess.TimeoutExpired:
        raise InfraError('axiom audit timed out')
    text = out + err
    res = {}
    flat = re.sub(r'\s+', ' ', text)
    for t in theorems:
        m = re.search(r"'" + re.escape(t) + r"' depends on axioms: \[([^\]]*)\]", flat)
        if m:
            axs = [a.strip() for a in m.group(1).split(',') if a.strip()]
            res[t] = (set(axs) <= ALLOWED_AXIOMS, axs)
        elif re.search(r"'" + re.escape(t) + r"' does not depend on any axioms", flat):
            res[t] = (True, [])
        else:
            res[t] = (False, ['<not found / does not elaborate>'])
    return res, text


def leanchecker(modules, timeout=3000):
    try:
        rc, out, err = _run(['lake', 'env', 'leanchecker'] + list(modules), timeout)
    except subprocess.TimeoutExpired:
        raise InfraError('leanchecker timed out')
    return rc == 0, (out + err)[-2000:]


def run_driver(lines, timeout=1800):
    """Pipe protocol lines through the Lean model driver; one answer per line."""
    if not lines:
        return [], None
    data = '\n'.join(lines) + '\n'
    try:
        rc, out, err = _run(['lake', 'env', 'lean', '--run', 'Driver.lean'], timeout, input=data)
        if rc != 0 and out.count('\n') <= 1:
            # the driver did not start (typically: another process was rebuilding the project underneath it):
            # rebuild under the lock and try once more
            lake_build(['GeoVerif.Drv.Main'])
            rc, out, err = _run(['lake', 'env', 'lean', '--run', 'Driver.lean'], timeout, input=data)
    except subprocess.TimeoutExpired:
        raise InfraError('model driver timed out')
    outs = out.split('\n')
    if outs and outs[-1] == '':
        outs.pop()
    if rc != 0 or len(outs) != len(lines):
        return None, (f'driver rc={rc}, {len(outs)} answers for {len(lines)} lines; stderr: {err[-1500:]}')
    return outs, None
    return outs, None


# --------------------------------------------------------------------------------------------------
# known findings


def load_known(pid):
    """known: property=Cxx key=<key> :: text   |   fixed: property=Cxx <commit> text"""
    known = {}
    if not os.path.exists(KNOWN_FILE):
        return known
    for line in open(KNOWN_FILE):
        line = line.strip()
        if not line.startswith('known:'):
            continue
        m = re.match(r'known:\s+property=(\S+)\s+key=(\S+)\s*(?:replay=(\S+))?\s*::\s*(.*)', line)
        if m and m.group(1) == pid:
            known[m.group(2)] = {'replay': m.group(3), 'text': m.group(4)}
    return known


# --------------------------------------------------------------------------------------------------
# a check run


class Run:
    def __init__(self, pid, tier, seed):
        self.pid, self.tier, self.seed = pid, tier, seed
        self.rng = random.Random((seed * 1000003) ^ int(hashlib.sha1(pid.encode()).hexdigest()[:8], 16))
        self.t0 = time.time()
        self.evaluations = 0
        self.distinct = set()
        self.samples = OrderedDict()
        self.hist = Counter()
        self.stream_counts = Counter()
        self.disagreements = []      # (stream, line, impl, model)
        self.violations = []         # dicts: key, what, line(s), impl, spec
        self.known_hits = OrderedDict()
        self.known = load_known(pid)
        self.proof = {'obligations': 0, 'discharged': 0, 'broken': [], 'build_ok': None}
        self.notes = []
        self.impl_timeout = 2.0 if tier == 'quick' else 10.0
        self.exhaustive = False
        self.escalated = False
        self.ties = []
        self.confirmed_timeouts = 0
        self.aborting = False

    @property
    def quick(self):
        # a broken source tie escalates a quick run to the thorough tier's search sizes
        return self.tier == 'quick' and not self.escalated

    def scale(self, q, t):
        return q if self.quick else t

    # ---- source tie (translator) -----------------------------------------------------------------
    def source_tie(self, units, module, theorems):
        """Second tie between model and code: the anchored source text was translated to Lean on this run
        (harness/py2lean.py -> lean/GeoVerif/Gen/Src*.lean) and `module` proves the translation equal to the hand-written
        model.  The tie is *broken* when the current source is outside the translated subset, a pinned helper changed, or
        the equalities no longer check.  A broken tie is not a violation by itself (the correspondence check still ties
        the model to the code), but the source is no longer known to say what the model says: the run escalates its
        search for a failing input to the thorough tier's sizes."""
        import extract
        info = {'units': list(units), 'module': module, 'theorems': len(theorems), 'status': 'intact'}
        why = [f'{u}: {extract.SOURCE_TIE[u]}' for u in units if extract.SOURCE_TIE.get(u)]
        if why:
            info.update(status='untranslatable', detail=why)
        else:
            ok, log = lake_build([module])
            if not ok:
                errs = [ln for ln in log.split('\n') if ln.startswith('error:')][:6]
                info.update(status='equivalence-not-proved', detail=errs or [log[-800:]])
            else:
                res, _text = audit_axioms(self.pid + '_src', [module], theorems)
                bad = {t: a for t, (o, a) in res.items() if not o}
                if bad:
                    info.update(status='equivalence-not-proved', detail=[f'{t}: {a}' for t, a in bad.items()])
                else:
                    info['axioms'] = sorted({a for _t, (_o, axs) in res.items() for a in axs})
        self.ties.append(info)
        if info['status'] != 'intact' and os.environ.get('VERIF_NO_ESCALATE'):
            # (detection sweeps over seeded changes measure the quick-size streams alone)
            print(f'[{self.pid}] source tie {"/".join(units)} broken ({info["status"]}); escalation disabled by VERIF_NO_ESCALATE')
        elif info['status'] != 'intact':
            self.escalated = True
            self.impl_timeout = 10.0
            print(f'[{self.pid}] source tie {"/".join(units)} broken ({info["status"]}): {"; ".join(map(str, info["detail"]))[:400]}')
            print(f'[{self.pid}] escalating the search for a failing input to the thorough tier')
        return info['status'] == 'intact'

    # ---- proof obligations ---------------------------------------------------------------------
    def prove(self, modules, theorems, extra_targets=()):
        """Build the property's proof modules, audit axioms.  Never raises for a broken proof."""
        mods = modules if isinstance(modules, (list, tuple)) else [modules]
        ok, log = lake_build(list(mods) + ['GeoVerif.Drv.Main'] + list(extra_targets))
        self.proof['build_ok'] = ok
        self.proof['obligations'] = len(theorems)
        self.proof['theorems'] = list(theorems)
        self.proof['modules'] = list(mods)
        if not ok:
            # which module failed?
            bad = re.findall(r'^- (\S+)', log, flags=re.M)
            self.proof['broken'].append({'build': bad or ['<unknown>'], 'log': log[-3000:]})
            # the driver may still be usable if only a proof module failed
            ok2, _ = lake_build(['GeoVerif.Drv.Main'])
            if not ok2:
                self.proof['driver_broken'] = True
            return False
        hits = grep_forbidden()
        if hits:
            self.proof['broken'].append({'forbidden_tokens': hits})
        res, text = audit_axioms(self.pid, mods, theorems)
        good = [t for t, (o, _a) in res.items() if o]
        self.proof['discharged'] = 0 if hits else len(good)
        for t, (o, a) in res.items():
            if not o:
                self.proof['broken'].append({'theorem': t, 'axioms': a})
        self.proof['axioms'] = sorted({a for _t, (_o, axs) in res.items() for a in axs if not a.startswith('<')})
        if not self.quick:
            okc, logc = leanchecker(mods)
            self.proof['leanchecker'] = 'ok' if okc else logc
            if not okc:
                self.proof['broken'].append({'leanchecker': logc})
        return not self.proof['broken']

    # ---- running cases ---------------------------------------------------------------------------
    def call_impl(self, fn, line):
        # once several calls have been *confirmed* not to terminate, the rest of the run gets a short limit
        first = self.impl_timeout if self.confirmed_timeouts < 5 else 0.25      # (after an abort only replays get here)
        try:
            with watchdog(first):
                return fn(line)
        except ImplTimeout:
            pass
        except Exception as e:  # noqa
            return err_name(e)
        # The watchdog is there for calls that do not terminate, not for a busy machine: ask again with a limit no
        # scheduling hiccup reaches before calling it a time-out (a few confirmed time-outs end the patience: a change that
        # makes calls hang must not turn the run into hours).
        if self.confirmed_timeouts >= 5:
            return 'TIMEOUT'
        try:
            with watchdog(max(30.0, 6 * self.impl_timeout)):
                return fn(line)
        except ImplTimeout:
            self.confirmed_timeouts += 1
            return 'TIMEOUT'
        except Exception as e:  # noqa
            return err_name(e)

    def run_cases(self, stream, lines, impl, spec=None, model=True, nontrivial=None, tag=None,
                  known_key=None, compare=None, spec_compare=None):
        """
        stream: name used in evidence; lines: protocol lines;
        impl(line) -> str; spec(line) -> str|None (None = the property says nothing about this line);
        model: also ask the Lean driver and diff;  nontrivial(line, impl_answer) -> bool;
        known_key(line, impl, spec) -> finding key for a spec mismatch (default: stream name).
        compare(impl, model) -> bool equality up to canonical tolerance (default ==).
        """
        lines = list(lines)
        if not lines:
            return []
        impl_out = []
        for ln in lines:
            impl_out.append(self.call_impl(impl, ln))
            if self.confirmed_timeouts >= 5 and not self.aborting:
                # calls of the library no longer terminate: judge what has been asked so far and end the run
                self.aborting = True
                lines = lines[:len(impl_out)]
                break
        self.evaluations += len(lines)
        self.stream_counts[stream] += len(lines)
        for ln, a in zip(lines, impl_out):
            if tag:
                for t in tag(ln, a):
                    self.hist[t] += 1
            else:
                self.hist[f'{stream}:{a if len(a) < 12 else "val"}'] += 1
            if nontrivial is None or nontrivial(ln, a):
                self.distinct.add(hashlib.sha1(ln.encode()).digest()[:8])
            if stream not in self.samples:
                self.samples[stream] = {'line': ln[:300], 'impl': a[:200]}
        if model and not self.proof.get('driver_broken'):
            outs, errtxt = run_driver(lines)
            if outs is None:
                raise InfraError(errtxt)
            eq = compare or (lambda x, y: x == y)
            for ln, a, m in zip(lines, impl_out, outs):
                if m == 'bad-op':
                    raise InfraError(f'driver rejected line: {ln[:200]}')
                if not eq(a, m):
                    self.disagreements.append({'stream': stream, 'line': ln, 'impl': a, 'model': m})
            if stream in self.samples and 'model' not in self.samples[stream]:
                self.samples[stream]['model'] = outs[0][:200]
        if spec is not None:
            seq = spec_compare or (lambda x, y: x == y)
            spec_errors = 0
            for ln, a in zip(lines, impl_out):
                try:
                    s = spec(ln)
                except InfraError:
                    raise
                except Exception as e:  # noqa
                    # an oracle that itself drives parts of the implementation (recording stand-ins for a library)
                    # can stop working when the code changes shape: that is a broken tie, not a harness failure
                    spec_errors += 1
                    if spec_errors == 1:
                        self.disagreements.append({'stream': stream, 'line': ln, 'impl': a,
                                                   'model': 'spec oracle could not be evaluated: ' + err_name(e) + ': ' + str(e)[:200]})
                    continue
                if s is None:
                    continue
                if not seq(a, s):
                    key = known_key(ln, a, s) if known_key else ln.split(' ', 1)[0]
                    self.report(key, f'{stream}: implementation answers {a[:80]}, the property demands {s[:80]}',
                                {'stream': stream, 'line': ln, 'impl': a, 'spec': s})
        if self.aborting:
            raise RunAborted(f'{self.confirmed_timeouts} library calls were confirmed not to terminate (stream {stream})')
        return impl_out

    def corpus(self, impl, spec=None, **kw):
        """minimised past failures (corpus/<id>.txt, one protocol line each, `#` comments) always run first"""
        path = os.path.join(CORPUS_DIR, f'{self.pid}.txt')
        if not os.path.exists(path):
            return []
        lines = [ln.strip() for ln in open(path) if ln.strip() and not ln.startswith('#')]
        return self.run_cases('corpus', lines, impl, spec, **kw)

    def report(self, key, what, replay):
        """A concrete failing input of the property on the real code."""
        if key in self.known:
            if key not in self.known_hits:
                self.known_hits[key] = {'what': self.known[key]['text'], 'example': replay, 'count': 0}
            self.known_hits[key]['count'] += 1
            return
        self.violations.append({'key': key, 'what': what, 'replay': replay})

    def note(self, s):
        self.notes.append(s)

    # ---- verdict ---------------------------------------------------------------------------------
    def finish(self, rule, assumptions, checker_cmd, extra_cov=None):
        os.makedirs(REPLAY_DIR, exist_ok=True)
        wall = time.time() - self.t0
        out_lines = []
        exit_code = 0
        for key, hit in self.known_hits.items():
            out_lines.append(f'KNOWN-FINDING: property={self.pid} {key}: {hit["what"]} ({hit["count"]} cases)')
        n_viol = 0
        proof_ok = (self.proof['build_ok'] is not False) and not self.proof['broken']
        corr_ok = not self.disagreements
        if self.violations:
            # one replay per distinct key, smallest line first
            by_key = OrderedDict()
            for v in self.violations:
                by_key.setdefault(v['key'], []).append(v)
            for key, vs in by_key.items():
                vs.sort(key=lambda v: len(json.dumps(v['replay'])))
                v = vs[0]
                h = hashlib.sha1((key + json.dumps(v['replay'], sort_keys=True)).encode()).hexdigest()[:10]
                path = os.path.join(REPLAY_DIR, f'{self.pid}-{h}.json')
                with open(path, 'w') as f:
                    json.dump({'property': self.pid, 'finding_key': key, 'what': v['what'], 'seed': self.seed,
                               'tier': self.tier, 'cases': [x['replay'] for x in vs[:5]], 'count': len(vs),
                               'broken': self._broken_names()}, f, indent=1)
                out_lines.append(f'VIOLATION property={self.pid} replay={os.path.relpath(path, VERIF)}')
                n_viol += 1
            exit_code = 1
        elif not proof_ok or not corr_ok:
            h = hashlib.sha1(json.dumps([self._broken_names(), self.disagreements[:3]], sort_keys=True).encode()).hexdigest()[:10]
            path = os.path.join(REPLAY_DIR, f'{self.pid}-{h}.json')
            with open(path, 'w') as f:
                json.dump({'property': self.pid, 'finding_key': None, 'seed': self.seed, 'tier': self.tier,
                           'broken': self._broken_names(), 'proof': self.proof,
                           'correspondence_disagreements': self.disagreements[:20],
                           'n_disagreements': len(self.disagreements),
                           'note': 'the model/proof no longer matches the code; the failing-input search over '
                                   'the same generators found no input on which the property fails'}, f, indent=1)
            out_lines.append(f'VIOLATION property={self.pid} replay={os.path.relpath(path, VERIF)} no-failing-input-found')
            n_viol = 1
            exit_code = 1
        cov = {
            'obligations': self.proof['obligations'],
            'discharged': self.proof['discharged'],
            'checker_cmd': checker_cmd,
            'trusted_base': TRUSTED_BASE,
            'axioms_used': self.proof.get('axioms', []),
            'theorems': self.proof.get('theorems', []),
            'lean_modules': self.proof.get('modules', []),
            'proof_broken': self._broken_names(),
            'evaluations': self.evaluations,
            'distinct_nontrivial': len(self.distinct),
            'rule': rule,
            'samples': list(({'stream': k, **v}) for k, v in self.samples.items())[:12] or [{'note': 'no cases'}],
            'streams': dict(self.stream_counts),
            'histogram': dict(self.hist.most_common(60)),
            'correspondence_disagreements': len(self.disagreements),
            'known_findings_hit': {k: v['count'] for k, v in self.known_hits.items()},
            'exhaustive': bool(self.exhaustive),
            'notes': self.notes,
        }
        if 'leanchecker' in self.proof:
            cov['leanchecker'] = self.proof['leanchecker']
        if self.ties:
            cov['source_tie'] = self.ties
            cov['escalated_to_thorough_sizes'] = bool(self.escalated)
        if extra_cov:
            cov.update(extra_cov)
        ev = {'property_id': self.pid, 'tier': self.tier, 'seed': self.seed, 'level': 'proof',
              'coverage': cov, 'assumptions': assumptions, 'wall_s': round(wall, 2), 'violations': n_viol}
        os.makedirs(EVIDENCE_DIR, exist_ok=True)
        tmp = os.path.join(EVIDENCE_DIR, f'.{self.pid}.json.tmp')
        with open(tmp, 'w') as f:
            json.dump(ev, f, indent=1, default=str)
        os.replace(tmp, os.path.join(EVIDENCE_DIR, f'{self.pid}.json'))
        for ln in out_lines:
            print(ln)
        print(f'[{self.pid} {self.tier} seed={self.seed}] obligations {self.proof["discharged"]}/{self.proof["obligations"]}, '
              f'{self.evaluations} cases ({len(self.distinct)} distinct non-trivial), '
              f'{len(self.disagreements)} correspondence disagreements, {n_viol} violations, '
              f'{len(self.known_hits)} known findings, {wall:.1f}s')
        return exit_code

    def _broken_names(self):
        names = []
        for b in self.proof['broken']:
            if 'theorem' in b:
                names.append('theorem ' + b['theorem'])
            elif 'build' in b:
                names += ['module ' + m for m in b['build']]
            elif 'forbidden_tokens' in b:
                names.append('forbidden tokens: ' + '; '.join(b['forbidden_tokens'][:3]))
            elif 'leanchecker' in b:
                names.append('leanchecker')
        for s in sorted({d['stream'] for d in self.disagreements}):
            names.append('correspondence stream ' + s)
        return names
