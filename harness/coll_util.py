"""Shared helpers of the C17 / C18 checks: abstract shape tokens <-> real geostructures shapes.

Shape token (no blanks)  id;eqc;geom;dt;props;lon,lat
  id     0..n-1, unique in a line (object identity)
  eqc    class of `==` (measured on the implementation)
  geom   concrete geometry, read only by the Python side:
           P_x_y | B_w_n_e_s | G_x_y_x_y_.. | L_x_y_.. | C_x_y_r | E_x_y_a_b_rot | R_x_y_ri_ro |
           MP_x_y_.. | ML_x_y_..+x_y_.. | MG_x_y_..+x_y_.. | MM_x_y_.. (a multi-point nested in a multi-point)
  dt     n | <start µs>:<end µs>
  props  - | k=v,k=v     v = u<k> (the k-th entry of VALS) | t<µs> (a datetime)
  lon,lat  exact rationals of centroid.to_float()
"""
from datetime import datetime, timedelta, timezone

import common
from c06 import mkdt, us_of, BASE_US  # noqa: F401  (same instant tokens as C06)

TICK = 1_000_000
# sentinel instants: the library's defaults for an open-ended / since-forever TimeInterval (UTC representation only:
# any other offset overflows datetime's range)
MIN_US = us_of(datetime.min)
MAX_US = us_of(datetime.max)
_EDGE = 2 * 86_400 * TICK


def clip(v):
    return max(MIN_US, min(MAX_US, v))


def near_sentinel(v):
    """within two days of datetime.min / datetime.max: only the UTC / naive representation exists"""
    return v < MIN_US + _EDGE or v > MAX_US - _EDGE


VALS = ['red', 'blue', 7, 2.5, None, ('a', 1), False]


def T(k):
    return BASE_US + k * TICK


def lib():
    from geostructures import (Coordinate, GeoBox, GeoCircle, GeoEllipse, GeoLineString, GeoPoint, GeoPolygon,
                               GeoRing, MultiGeoLineString, MultiGeoPoint, MultiGeoPolygon)
    from geostructures.collections import FeatureCollection, Track
    from geostructures.time import TimeInterval
    return locals()


def _nums(parts):
    return [float(p) for p in parts]


def _coords(nums):
    from geostructures import Coordinate
    return [Coordinate(nums[i], nums[i + 1]) for i in range(0, len(nums), 2)]


def val_of(tok):
    if tok[0] == 'u':
        return VALS[int(tok[1:])]
    return mkdt(tok[1:])


def tok_of_val(v):
    if isinstance(v, datetime):
        return f't{us_of(v)}'
    for k, w in enumerate(VALS):
        if type(w) is type(v) and w == v:
            return f'u{k}'
    return '?'


def mk_dt(dt):
    """dt: None | (s, e) in µs -> None | datetime (instant given as datetime) | TimeInterval"""
    from geostructures.time import TimeInterval
    if dt is None:
        return None
    s, e = dt
    if s != e and (s == MIN_US or e == MAX_US):
        # the library's own default bounds: TimeInterval(start) is open-ended, TimeInterval(end=e) started "forever ago"
        if s == MIN_US and e == MAX_US:
            return TimeInterval()
        return TimeInterval(mkdt(str(s))) if e == MAX_US else TimeInterval(end=mkdt(str(e)))
    if s == e and (s // TICK) % 2 == 0:
        return mkdt(str(s))               # exercise the datetime -> TimeInterval(dt, dt) conversion
    return TimeInterval(mkdt(str(s)), mkdt(str(e)))


def build_geom(geom, dt=None, props=None):
    L = lib()
    kind, _, rest = geom.partition('_')
    kw = dict(dt=mk_dt(dt), properties=dict(props) if props else None)
    if kind in ('ML', 'MG'):
        groups = [_coords(_nums(g.split('_'))) for g in rest.split('+')]
        if kind == 'ML':
            return L['MultiGeoLineString']([L['GeoLineString'](g) for g in groups], **kw)
        return L['MultiGeoPolygon']([L['GeoPolygon'](g + [g[0]]) for g in groups], **kw)
    n = _nums(rest.split('_'))
    C = L['Coordinate']
    if kind == 'P':
        return L['GeoPoint'](C(n[0], n[1]), **kw)
    if kind == 'B':
        return L['GeoBox'](C(n[0], n[1]), C(n[2], n[3]), **kw)
    if kind == 'G':
        cs = _coords(n)
        return L['GeoPolygon'](cs + [cs[0]], **kw)
    if kind == 'L':
        return L['GeoLineString'](_coords(n), **kw)
    if kind == 'C':
        return L['GeoCircle'](C(n[0], n[1]), n[2], **kw)
    if kind == 'E':
        return L['GeoEllipse'](C(n[0], n[1]), n[2], n[3], n[4], **kw)
    if kind == 'R':
        return L['GeoRing'](C(n[0], n[1]), n[2], n[3], **kw)
    if kind == 'MP':
        return L['MultiGeoPoint']([L['GeoPoint'](c) for c in _coords(n)], **kw)
    if kind == 'MM':
        cs = _coords(n)
        inner = L['MultiGeoPoint']([L['GeoPoint'](c) for c in cs[1:]])
        return L['MultiGeoPoint']([L['GeoPoint'](cs[0]), inner], **kw)
    raise ValueError('unknown geometry ' + geom)


class Tok:
    __slots__ = ('id', 'eqc', 'geom', 'dt', 'props', 'cen')

    def __init__(self, tok):
        i, e, self.geom, dt, props, self.cen = tok.split(';')
        self.id, self.eqc = int(i), int(e)
        self.dt = None if dt == 'n' else tuple(int(x) for x in dt.split(':'))
        self.props = [] if props == '-' else [tuple(kv.split('=')) for kv in props.split(',')]

    @property
    def start(self):
        return self.dt[0]

    @property
    def end(self):
        return self.dt[1]

    def build(self):
        return build_geom(self.geom, self.dt, [(k, val_of(v)) for k, v in self.props])

    def properties(self):
        """the `properties` view the statement talks about: user properties + the time bounds"""
        d = dict(self.props)
        if self.dt is not None:
            d['datetime_start'] = f't{self.dt[0]}'
            d['datetime_end'] = f't{self.dt[1]}'
        return d


def show_dt(dt):
    return 'n' if dt is None else f'{dt[0]}:{dt[1]}'


def show_props(items):
    items = sorted(items)
    return '-' if not items else ','.join(f'{k}={v}' for k, v in items)


def make_tokens(specs):
    """specs: list of (geom, dt, props[(k, vtok)]) -> (token strings, real shapes); measures eqc and centroid"""
    shapes = [build_geom(g, dt, [(k, val_of(v)) for k, v in props]) for g, dt, props in specs]
    toks, classes = [], []
    for i, ((g, dt, props), sh) in enumerate(zip(specs, shapes)):
        eqc = i
        for j in range(i):
            if shapes[j] == sh:
                eqc = classes[j]
                break
        classes.append(eqc)
        lon, lat = sh.centroid.to_float()[:2]
        ps = '-' if not props else ','.join(f'{k}={v}' for k, v in props)
        toks.append(f'{i};{eqc};{g};{show_dt(dt)};{ps};{common.rat(lon)},{common.rat(lat)}')
    return toks, shapes


def sections(line):
    """'<cmd> a b | c | d' -> (op, [[a, b], [c], [d]])"""
    cmd, *rest = line.split()
    secs, cur = [], []
    for t in rest:
        if t == '|':
            secs.append(cur)
            cur = []
        else:
            cur.append(t)
    secs.append(cur)
    return cmd.split('.', 1)[1], secs


def geom_fp(x):
    """cheap deep fingerprint of a shape's observable state (for the non-mutation snapshots)"""
    name = type(x).__name__
    dt = None if x.dt is None else (us_of(x.dt.start), us_of(x.dt.end))
    props = tuple(sorted((k, repr(v)) for k, v in x._properties.items()))
    if hasattr(x, 'geoshapes'):
        g = tuple(geom_fp(m) for m in x.geoshapes)
    elif name == 'GeoPoint':
        g = x.coordinate.to_float()
    elif name == 'GeoBox':
        g = (x.nw_bound.to_float(), x.se_bound.to_float())
    elif name == 'GeoCircle':
        g = (x.center.to_float(), x.radius)
    elif name == 'GeoEllipse':
        g = (x.center.to_float(), x.semi_major, x.semi_minor, x.rotation)
    elif name == 'GeoRing':
        g = (x.center.to_float(), x.inner_radius, x.outer_radius, x.angle_min, x.angle_max)
    elif name == 'GeoPolygon':
        g = tuple(c.to_float() for c in x.outline)
    elif name == 'GeoLineString':
        g = tuple(c.to_float() for c in x.vertices)
    else:
        g = repr(x)
    holes = tuple(geom_fp(h) for h in getattr(x, 'holes', None) or ())
    return (name, dt, props, g, holes)


def warm(col):
    """read the collection-level cached observations (bounds, geospan, duplicate flag …) so that an operation that
    wrongly carries a receiver's caches over to its result has something stale to carry (seeded change C09-m3)"""
    for name in ('bounds', 'geospan', 'has_duplicate_timestamps', 'time_start_diffs'):
        try:
            getattr(col, name)
        except Exception:  # noqa
            pass


def stale(col):
    """' !STALE:<names>' if a cached observation of `col` differs from its recomputation from the members"""
    bad = []
    try:
        shapes = list(col.geoshapes)
        if shapes:
            bs = [x.bounds for x in shapes]
            want = (min(b[0] for b in bs), min(b[1] for b in bs), max(b[2] for b in bs), max(b[3] for b in bs))
            if tuple(col.bounds) != want:
                bad.append('bounds')
            elif col.geospan != want[2] - want[0] + want[3] - want[1]:
                bad.append('geospan')
        if hasattr(col, 'has_duplicate_timestamps') and all(x.dt is not None for x in shapes):
            dts = [x.dt for x in shapes]
            if bool(col.has_duplicate_timestamps) != (len(set(dts)) != len(dts)):
                bad.append('has_duplicate_timestamps')
    except Exception:  # noqa  (curved members with Z etc.: not this helper's business)
        return ''
    return (' !STALE:' + ','.join(bad)) if bad else ''


def snapshot(col):
    return [(id(x), geom_fp(x)) for x in col.geoshapes]


def stable_by_start(toks):
    """the order the statement demands of a Track: non-decreasing start, ties in input order"""
    return [t for _i, t in sorted(enumerate(toks), key=lambda p: (p[1].start, p[0]))]
