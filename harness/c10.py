"""C10 — the convex hull is the exact hull of the input coordinates.

Protocol (stream prefix `hull`, numbers exact `p/q`):
  hull.of x1 y1 x2 y2 …   -> `_geometry.convex_hull` ring `x,y x,y …`  (`-` = empty list)
  hull.poly x1 y1 …       -> outline of `GeoPolygon(convex_hull(..))`
  hull.multi <shapes>     -> `MultiGeoPoint/MultiGeoLineString/MultiGeoPolygon(..).convex_hull()` outline
  hull.coll <members>     -> `FeatureCollection(..).convex_hull` outline
  hull.track <members>    -> `Track(..).convex_hull` outline (every member prefixed by `@<start second>`)
  hull.z x y z …          -> (implementation only) `convex_hull` of coordinates carrying a Z value
shape tokens: `P x y` | `L n x1 y1 …` | `G n x1 y1 …` (polygon outline) | `B x1 y1 x2 y2` (box nw se);
a member is a shape or `M k` followed by k shapes of one kind.

Integration: `lean/GeoVerif/Drv/Main.lean` needs `import GeoVerif.Drv.C10` and the dispatch line
`| ["hull", op] => handleHull op args`.  All Lean names live in `GV.Hull` / `GV.Drv.C10`.

Spec = exact Fractions, gift wrapping from the lex-min, cross-checked against brute-force extreme points
(<= 9 distinct points) and the laws of the statement; compared modulo the start vertex (`ring_equal`).
Model comparison is exact.  Domain notes (also in the evidence `assumptions`): dyadic coordinates so that
float = rational arithmetic; wrappers with a longitude span > 180 deg are not judged by the spec (the
GeoPolygon constructor reads a long edge as antimeridian-crossing and may reverse the ring; the model
reproduces that); coordinates that differ only in Z are a support stream without model.

Streams added after seeded changes C10-p2 / C10-p3 (classes, not the patches):
  * `np-object-histories` (`hull.hist <kind> <seed>`): seeded observe / derive / mutate / observe walks over
    FeatureCollection, Track, MultiGeoPoint, MultiGeoLineString, MultiGeoPolygon and every object derived from them
    (copy, +, filter_by_dt/property/intersection/contained_by/contains, Track slices, convolve_duplicate_timestamps,
    filter_by_time, filter_impossible_journeys, index slices); every observation is compared with the exact hull of
    the members the object holds at that moment; editing a derived object must not change its source; results of
    multi-shape hull calls are edited by the caller and keyword arguments are passed.  Not judged: editing a
    collection's own list after its hull was read (the `cached_property` of the unchanged code).
  * `coarse-lattice-wide-extent`: 90/45/30/15/22.5-degree lattices, longitude windows exactly 180 deg wide with the
    long edge on the hull (top, bottom, diagonal), poles, the -180 meridian, narrower and wider windows, every entry
    point; exhaustive 3-/4-subsets of 3x3 lattices 180 deg wide.  Span <= 180 is demanded by the spec (theorem
    `hull_ccw` covers span = 180), wider is model-only.

Detection (notes/c10_mutations.py, quick tier, seed 0): `<= 0` -> `< 0` in either loop, dropped `set()`,
sort key `lon` only, `lower[:-1]` -> `lower`, `upper` -> `upper[:-1]`, early return for <= 2 points,
`while` -> `if`, wrong anchor `lower[0]`, wrong cross product, every wrapper collecting wrong vertices
(multi point/line/polygon, collection line/polygon/multi/point branches), reversed constructor test: all
exit 1 with failing inputs.  Sort keys `(lat, lon)` / `(lon, -lat)` still give a correct hull with another
start vertex: reported as correspondence break without failing input.  An epsilon (`<= 1e-9`) in the pop
test is NOT seen (no cross product on the 1/8 grid lies in (0, 1e-9]): float-only behaviour on
near-degenerate inputs is outside the rational model.
"""
import itertools
from datetime import datetime, timedelta, timezone
from fractions import Fraction as F

import common
from common import rat

MODULE = 'GeoVerif.Props.C10'
THEOREMS = ['GV.Hull.' + t for t in (
    'hull_subset', 'hull_contains_all', 'hull_closed', 'hull_closed_at_min', 'hull_dup_invariant', 'hull_perm',
    'sorted_set_canonical', 'chain_strict_left', 'hull_nodup', 'hull_nil', 'hull_single', 'hull_collinear',
    'hull_two', 'hull_small', 'hull_ccw', 'hullPoly_eq', 'hull_isHullRing', 'hull_unique', 'hull_unique_rot',
    'hull_vertex_extreme',
    'wrapper_hull_contains_members', 'wrapper_hull_order_invariant', 'trackHull_eq', 'multiHull_eq')]

T0 = datetime(2020, 1, 1, tzinfo=timezone.utc)


# ---- parsing of a protocol line (shared by impl and spec; purely syntactic) -------------------------

def _pts(toks):
    assert len(toks) % 2 == 0
    return [(F(toks[i]), F(toks[i + 1])) for i in range(0, len(toks), 2)]


def _parse_simple(toks, i):
    k = toks[i]
    if k == 'P':
        return ('P', _pts(toks[i + 1:i + 3])), i + 3
    if k in ('L', 'G'):
        n = int(toks[i + 1])
        return (k, _pts(toks[i + 2:i + 2 + 2 * n])), i + 2 + 2 * n
    if k == 'B':
        return ('B', _pts(toks[i + 1:i + 5])), i + 5
    raise ValueError('bad shape token ' + k)


def _parse_members(toks, timed=False):
    """-> list of (start|None, ('S', simple) | ('M', [simple…]))"""
    out, i = [], 0
    while i < len(toks):
        t = None
        if timed:
            assert toks[i].startswith('@')
            t = int(toks[i][1:])
            i += 1
        if toks[i] == 'M':
            n = int(toks[i + 1])
            i += 2
            ss = []
            for _ in range(n):
                s, i = _parse_simple(toks, i)
                ss.append(s)
            out.append((t, ('M', ss)))
        else:
            s, i = _parse_simple(toks, i)
            out.append((t, ('S', s)))
    return out


# ---- implementation side ---------------------------------------------------------------------------

def _coord(p, z=None):
    from geostructures import Coordinate
    return Coordinate(float(p[0]), float(p[1])) if z is None else Coordinate(float(p[0]), float(p[1]), z=z)


def _show(coords):
    if not coords:
        return '-'
    return ' '.join(f'{rat(c.longitude)},{rat(c.latitude)}' for c in coords)


def _mk_simple(s, dt=None):
    from geostructures import GeoPoint, GeoLineString, GeoPolygon, GeoBox
    k, ps = s
    if k == 'P':
        return GeoPoint(_coord(ps[0]), dt=dt)
    if k == 'L':
        return GeoLineString([_coord(p) for p in ps], dt=dt)
    if k == 'G':
        return GeoPolygon([_coord(p) for p in ps], dt=dt)
    return GeoBox(_coord(ps[0]), _coord(ps[1]), dt=dt)


def _mk_multi(ss, dt=None):
    from geostructures import MultiGeoPoint, MultiGeoLineString, MultiGeoPolygon
    kind = ss[0][0] if ss else 'P'
    cls = {'P': MultiGeoPoint, 'L': MultiGeoLineString, 'G': MultiGeoPolygon, 'B': MultiGeoPolygon}[kind]
    return cls([_mk_simple(s) for s in ss], dt=dt)


def _mk_member(m, dt=None):
    return _mk_multi(m[1], dt) if m[0] == 'M' else _mk_simple(m[1], dt)


def impl(line):
    from geostructures import GeoPolygon, FeatureCollection, Track
    from geostructures._geometry import convex_hull
    cmd, *a = line.split()
    op = cmd.split('.', 1)[1]
    if op == 'of':
        return _show(convex_hull([_coord(p) for p in _pts(a)]))
    if op == 'poly':
        return _show(GeoPolygon(convex_hull([_coord(p) for p in _pts(a)])).outline)
    if op == 'z':
        cs = [_coord((F(a[i]), F(a[i + 1])), z=float(F(a[i + 2]))) for i in range(0, len(a), 3)]
        h = convex_hull(cs)
        return ' '.join(f'{rat(c.longitude)},{rat(c.latitude)},{rat(c.z)}' for c in h) or '-'
    if op == 'multi':
        ms = _parse_members(a)
        assert all(m[0] == 'S' for _t, m in ms)
        return _show(_mk_multi([m[1] for _t, m in ms]).convex_hull().outline)
    if op == 'coll':
        return _show(FeatureCollection([_mk_member(m) for _t, m in _parse_members(a)]).convex_hull.outline)
    if op == 'track':
        ms = _parse_members(a, timed=True)
        return _show(Track([_mk_member(m, T0 + timedelta(seconds=t)) for t, m in ms]).convex_hull.outline)
    raise ValueError('unknown op ' + op)


# ---- the property, stated independently of the model (exact Fractions, different algorithms) ----------

def cross(o, a, b):
    return (a[0] - o[0]) * (b[1] - o[1]) - (a[1] - o[1]) * (b[0] - o[0])


def _between(a, p, b):
    """p on the closed segment a-b, given the three are collinear"""
    return min(a[0], b[0]) <= p[0] <= max(a[0], b[0]) and min(a[1], b[1]) <= p[1] <= max(a[1], b[1])


def _in_triangle(p, a, b, c):
    """p in the closed (possibly degenerate) triangle abc"""
    d = cross(a, b, c)
    if d == 0:
        # degenerate: a segment; p must be collinear with and between its extreme points
        lo, hi = min(a, b, c), max(a, b, c)
        return cross(lo, hi, p) == 0 and _between(lo, p, hi) if lo != hi else p == lo
    s1, s2, s3 = cross(a, b, p), cross(b, c, p), cross(c, a, p)
    return (s1 >= 0 and s2 >= 0 and s3 >= 0) if d > 0 else (s1 <= 0 and s2 <= 0 and s3 <= 0)


def extreme_points(P):
    """brute force (Carathéodory): p is a hull vertex iff it is in no closed triangle of three other points"""
    P = list(P)
    out = set()
    for p in P:
        others = [q for q in P if q != p]
        if len(others) == 0:
            out.add(p)
            continue
        tri = itertools.combinations_with_replacement(others, 3)
        if not any(_in_triangle(p, a, b, c) for a, b, c in tri):
            out.add(p)
    return out


def jarvis(P):
    """gift wrapping from the lexicographic minimum, counter-clockwise, farthest of collinear candidates;
    returns the closed ring.  P: set of >= 2 distinct points, not all collinear."""
    start = min(P)
    ring = [start]
    cur = start
    while True:
        cand = None
        for q in P:
            if q == cur:
                continue
            if cand is None:
                cand = q
                continue
            c = cross(cur, cand, q)
            if c < 0 or (c == 0 and _between(cur, cand, q)):
                cand = q          # q is to the right of cur->cand, or beyond cand on the same ray
        cur = cand
        ring.append(cur)
        if cur == start:
            return ring
        if len(ring) > len(P) + 1:
            raise AssertionError('gift wrapping does not terminate')


def laws(P, ring):
    """the laws of the statement, checked directly on a ring for the point set P (non-collinear case)"""
    open_ring = ring[:-1]
    n = len(open_ring)
    return (ring[0] == ring[-1] and n >= 3 and len(set(open_ring)) == n and set(open_ring) <= P
            and all(cross(open_ring[i], open_ring[(i + 1) % n], open_ring[(i + 2) % n]) > 0 for i in range(n))
            and all(cross(open_ring[i], open_ring[(i + 1) % n], p) >= 0 for i in range(n) for p in P)
            and sum((b[0] - a[0]) * (b[1] + a[1]) for a, b in zip(ring, ring[1:])) < 0)


_REF_CACHE = {}


def reference_ring(points):
    """what the statement demands `convex_hull` to return for this multiset (a function of the *set*)"""
    key = frozenset(points)
    if key not in _REF_CACHE:
        if len(_REF_CACHE) > 200000:
            _REF_CACHE.clear()
        _REF_CACHE[key] = _reference_ring(key)
    return _REF_CACHE[key]


def _reference_ring(P):
    if not P:
        return []
    if len(P) == 1:
        return [next(iter(P))]
    lo, hi = min(P), max(P)
    if all(cross(lo, hi, p) == 0 for p in P):
        return [lo, hi, lo]
    ring = jarvis(P)
    if not laws(P, ring):
        raise AssertionError(f'reference ring violates the laws: {sorted(P)} -> {ring}')
    if len(P) <= 9 and set(ring) != extreme_points(P):
        raise AssertionError(f'gift wrapping and the brute-force extreme points differ: {sorted(P)}')
    return ring


def _show_ref(ring):
    return ' '.join(f'{rat(p[0])},{rat(p[1])}' for p in ring) if ring else '-'


def _simple_vertices(s):
    k, ps = s
    if k == 'B':
        (x1, y1), (x2, y2) = ps
        return [(x1, y1), (x1, y2), (x2, y2), (x2, y1)]
    return list(ps)


def line_points(line):
    """the coordinate multiset a line is about (for the wrappers: the member vertices)"""
    cmd, *a = line.split()
    op = cmd.split('.', 1)[1]
    if op in ('of', 'poly'):
        return op, _pts(a)
    if op == 'z':
        return op, [(F(a[i]), F(a[i + 1])) for i in range(0, len(a), 3)]
    ms = _parse_members(a, timed=(op == 'track'))
    pts = []
    for _t, m in ms:
        for s in (m[1] if m[0] == 'M' else [m[1]]):
            pts += _simple_vertices(s)
    return op, pts


def spec(line):
    op, pts = line_points(line)
    if op == 'of':
        return _show_ref(reference_ring(pts))
    if op == 'z':
        return None
    if not pts:
        return None                                  # the statement speaks about >= 1 coordinate
    lons = [p[0] for p in pts]
    if max(lons) - min(lons) > 180:
        return None     # an edge longer than 180 deg of longitude is read as antimeridian-crossing: outside the planar statement
    return _show_ref(reference_ring(pts))


def spec_z(line):
    """support stream (coordinates with Z): laws in Coordinate-equality terms; the planar-degenerate case
    (all coordinates share lon/lat) is excluded (DESIGN C10 NP/domain)."""
    cmd, *a = line.split()
    P3 = {(F(a[i]), F(a[i + 1]), F(a[i + 2])) for i in range(0, len(a), 3)}
    P = {(x, y) for x, y, _z in P3}
    if len(P) <= 1:
        return None
    ref = reference_ring(P)
    return _show_ref(ref)


def impl_z(line):
    out = impl(line)
    toks = [tuple(t.split(',')) for t in out.split()]
    cmd, *a = line.split()
    P3 = {(rat(F(a[i])), rat(F(a[i + 1])), rat(F(a[i + 2]))) for i in range(0, len(a), 3)}
    if not all(t in P3 for t in toks):
        return 'vertex-not-an-input ' + out
    return ' '.join(f'{x},{y}' for x, y, _z in toks)


def ring_equal(a, b):
    """spec comparison: the same closed ring up to the choice of start vertex (orientation matters)"""
    if a == b:
        return True
    ra, rb = a.split(), b.split()
    if len(ra) != len(rb) or len(ra) < 3 or ra[0] != ra[-1] or rb[0] != rb[-1]:
        return False
    oa, ob = ra[:-1], rb[:-1]
    if oa[0] not in ob:
        return False
    k = ob.index(oa[0])
    return oa == ob[k:] + ob[:k]


def impl_for(line):
    if line.startswith('hull.derived'):
        return impl_derived
    if line.startswith('hull.hist'):
        return impl_hist
    return impl_z if line.startswith('hull.z') else impl


def spec_for(line):
    if line.startswith('hull.derived') or line.startswith('hull.hist'):
        return spec_derived
    return spec_z if line.startswith('hull.z') else spec


# ---- generators ------------------------------------------------------------------------------------

def fmt_pts(pts):
    return ' '.join(f'{rat(x)} {rat(y)}' for x, y in pts)


def classify(pts):
    P = set(pts)
    tags = []
    if len(P) == 0:
        return ['class:empty']
    if len(P) == 1:
        return ['class:single' + ('+dups' if len(pts) > 1 else '')]
    lo, hi = min(P), max(P)
    if all(cross(lo, hi, p) == 0 for p in P):
        tags.append('class:collinear' + ('-2' if len(P) == 2 else '-n'))
    else:
        ring = reference_ring(P)
        k = len(ring) - 1
        tags.append(f'class:hull-{k if k < 7 else "7+"}')
        V = set(ring)
        n = len(ring) - 1
        on_edge = any(p not in V and any(cross(ring[i], ring[i + 1], p) == 0 for i in range(n)) for p in P)
        if on_edge:
            tags.append('input-on-hull-edge')
        if len(P) > len(V) and not on_edge:
            tags.append('interior-only')
    if len(pts) > len(P):
        tags.append('duplicates')
    if sum(1 for p in P if p[0] == lo[0]) > 1:
        tags.append('vertical-tie-min')
    if sum(1 for p in P if p[0] == hi[0]) > 1:
        tags.append('vertical-tie-max')
    return tags


def tag_line(ln, _a):
    op, pts = line_points(ln)
    return [f'op:{op}'] + classify(pts)


def gen_exhaustive(run):
    """multisets of grid points (4x4, coordinates 0..3) in permutations"""
    rng = run.rng
    grid = [(F(x), F(y)) for x in range(4) for y in range(4)]
    lines = []
    full_perm_upto = run.scale(3, 4)
    for k in range(0, run.scale(6, 6) + 1):
        msets = itertools.combinations_with_replacement(grid, k)
        if k <= 4 or not run.quick:
            chosen = list(msets)
        else:
            allm = list(msets)
            chosen = rng.sample(allm, {5: 3000, 6: 1500}[k])
        for ms in chosen:
            if k <= full_perm_upto:
                perms = set(itertools.permutations(ms))
            else:
                nper = run.scale({4: 2}.get(k, 1), {5: 3}.get(k, 1))
                perms = set()
                for _ in range(nper):
                    p = list(ms)
                    rng.shuffle(p)
                    perms.add(tuple(p))
            for p in sorted(perms):
                lines.append('hull.of ' + fmt_pts(p) if p else 'hull.of')
    return lines


def rand_points(rng, big=False):
    """1–40 points, multiples of 1/8, with the degenerate structure the chain distinguishes"""
    n = rng.choice([rng.randint(1, 6), rng.randint(1, 40), rng.randint(20, 40)])
    mode = rng.randrange(9)
    q = F(1, 8)
    if big:
        ox, oy = F(rng.randint(-70 * 8, 60 * 8), 8), F(rng.randint(-70 * 8, 60 * 8), 8)
    else:
        ox, oy = F(rng.randint(-16, 16), 8), F(rng.randint(-16, 16), 8)
    span = rng.choice([2, 4, 8, 16, 64]) if not big else rng.choice([8, 64, 80])

    def g():
        return (ox + q * rng.randint(0, span), oy + q * rng.randint(0, span))
    if mode == 0:       # uniform on a small grid: many duplicates, collinear triples, vertical ties
        pts = [g() for _ in range(n)]
    elif mode == 1:     # all collinear, arbitrary rational direction
        dx, dy = rng.randint(-3, 3), rng.randint(-3, 3)
        if dx == 0 and dy == 0:
            dx = 1
        pts = [(ox + q * dx * k, oy + q * dy * k) for k in rng.choices(range(0, 9), k=n)]
    elif mode == 2:     # vertical line(s): the lexicographic sort ties on longitude
        xs = [ox + q * rng.randint(0, 2) for _ in range(rng.choice([1, 2]))]
        pts = [(rng.choice(xs), oy + q * rng.randint(0, span)) for _ in range(n)]
    elif mode == 3:     # convex position (parabola / its mirror): every point is a vertex
        ks = rng.choices(range(-8, 9), k=n)
        s = rng.choice([1, -1])
        pts = [(ox + q * k, oy + s * q * k * k / 2) for k in ks]
        if rng.random() < 0.5:
            pts = [(y - oy + ox, x - ox + oy) for x, y in pts]   # transposed: vertical tangents
    elif mode == 4:     # a convex polygon plus points on its edges and inside
        base = [g() for _ in range(rng.randint(3, 6))]
        pts = list(base)
        for _ in range(n):
            a, b = rng.sample(base, 2)
            t = F(rng.randint(0, 4), 4)
            pts.append((a[0] + (b[0] - a[0]) * t, a[1] + (b[1] - a[1]) * t))
    elif mode == 5:     # a collinear run plus one or two points off the line
        dx, dy = rng.choice([(1, 0), (0, 1), (1, 1), (2, 1), (1, -1), (1, 2)])
        pts = [(ox + q * dx * k, oy + q * dy * k) for k in rng.choices(range(0, 9), k=max(n - 2, 1))]
        pts += [g() for _ in range(rng.choice([1, 2]))]
    elif mode == 6:     # axis-aligned grid block
        w, h = rng.randint(1, 4), rng.randint(1, 4)
        pts = [(ox + q * i, oy + q * j) for i in range(w) for j in range(h)]
        rng.shuffle(pts)
        pts = pts[:max(1, min(len(pts), n))] if rng.random() < 0.3 else pts
    elif mode == 7:     # two clusters sharing the extreme longitudes (ties at both ends)
        x0, x1 = ox, ox + q * rng.randint(1, span)
        pts = [(rng.choice([x0, x1]), oy + q * rng.randint(0, span)) for _ in range(n)]
        pts += [(ox + q * rng.randint(0, span), oy + q * rng.randint(0, span)) for _ in range(rng.randint(0, 3))]
    else:               # forced duplicates of everything
        pts = [g() for _ in range(max(1, n // 2))]
        pts = pts + pts + pts[:3]
    pts = pts[:40]
    if rng.random() < 0.4:
        pts = pts + [rng.choice(pts) for _ in range(rng.randint(1, 3))]
    rng.shuffle(pts)
    pts = pts[:40]
    assert all(abs(x) <= 89 and abs(y) <= 89 for x, y in pts), pts
    return pts


def rand_simple(rng, kind, wide=False):
    q = F(1, 8)
    lim = 170 * 8 if wide else 40 * 8

    def g():
        if wide:
            return (q * rng.randint(-lim, lim), q * rng.randint(-80 * 8, 80 * 8))
        return (q * rng.randint(-24, 24), q * rng.randint(-24, 24))
    if kind == 'P':
        return 'P ' + fmt_pts([g()])
    if kind == 'L':
        ps = [g() for _ in range(rng.randint(2, 5))]
        return f'L {len(ps)} ' + fmt_pts(ps)
    if kind == 'G':
        ps = [g() for _ in range(rng.randint(1, 6))]
        if rng.random() < 0.5:
            ps.append(ps[0])
        return f'G {len(ps)} ' + fmt_pts(ps)
    a, b = g(), g()
    nw, se = (min(a[0], b[0]), max(a[1], b[1])), (max(a[0], b[0]), min(a[1], b[1]))
    return 'B ' + fmt_pts([nw, se])


def rand_member(rng, wide=False):
    if rng.random() < 0.3:
        kind = rng.choice(['P', 'L', 'G'])
        n = rng.randint(1, 4)
        kinds = [kind] * n if kind != 'G' else [rng.choice(['G', 'B']) for _ in range(n)]
        return f'M {n} ' + ' '.join(rand_simple(rng, k, wide) for k in kinds)
    return rand_simple(rng, rng.choice(['P', 'P', 'L', 'G', 'B']), wide)


def gen_wrappers(run, n, wide=False):
    rng = run.rng
    lines = []
    for _ in range(n):
        r = rng.random()
        if r < 0.35:
            kind = rng.choice(['P', 'L', 'G'])
            k = rng.randint(1, 6)
            kinds = [kind] * k if kind != 'G' else [rng.choice(['G', 'B']) for _ in range(k)]
            lines.append('hull.multi ' + ' '.join(rand_simple(rng, x, wide) for x in kinds))
        elif r < 0.7:
            lines.append('hull.coll ' + ' '.join(rand_member(rng, wide) for _ in range(rng.randint(1, 6))))
        else:
            k = rng.randint(1, 6)
            times = [rng.randint(0, 4) for _ in range(k)]
            lines.append('hull.track ' + ' '.join(f'@{t} ' + rand_member(rng, wide) for t in times))
    return lines



# ---- support stream (no model): hull of *derived* collections after the receiver's cached hull was read ----------------
# (seeded change C10-n1: copy()/__add__ built with copy.copy() carried the cached_property along)

def impl_derived(line):
    import random as _r
    from datetime import datetime, timedelta, timezone
    from geostructures import Coordinate, FeatureCollection, GeoLineString, GeoPoint, Track
    _op, kind, how, seed = line.split()
    rng = _r.Random(int(seed))
    t0 = datetime(2021, 3, 1, tzinfo=timezone.utc)

    def member(i):
        x, y = rng.randint(-200, 200) / 8, rng.randint(-200, 200) / 8
        dt = t0 + timedelta(hours=rng.randint(0, 40))
        if rng.random() < 0.6:
            return GeoPoint(Coordinate(x, y), dt=dt, properties={'i': i})
        return GeoLineString([Coordinate(x, y), Coordinate(x + rng.randint(1, 9) / 8, y + rng.randint(-9, 9) / 8)], dt=dt, properties={'i': i})
    cls = Track if kind == 'T' else FeatureCollection
    col = cls([member(i) for i in range(rng.randint(3, 9))])
    col.convex_hull                                 # the receiver's hull is cached from here on
    cut = t0 + timedelta(hours=rng.randint(5, 35))
    if how == 'add':
        r = col + cls([member(90 + i) for i in range(rng.randint(1, 4))])
    elif how == 'copy':
        r = col.copy()
        r.geoshapes.append(member(98))
        if kind == 'T':
            r = Track(r.geoshapes)
    elif how == 'fprop':
        r = col.filter_by_property('i', lambda v: v % 2 == 0)
    elif how == 'slice':
        r = col[cut:] if rng.random() < 0.5 else col[:cut]
    else:
        raise ValueError(how)
    if not r.geoshapes:
        return 'OK empty'
    twin = cls(list(r.geoshapes))
    got, want = r.convex_hull, twin.convex_hull
    return 'OK' if got == want else f'STALE hull of {len(got.outline)} vertices, a fresh collection of the same members gives {len(want.outline)}'


def spec_derived(_line):
    return 'OK'



# ---- support stream (no model): observe / derive / mutate / observe histories on every hull-bearing object ------------
# The statement is about "the coordinates the object holds when the hull is asked for".  A history is a seeded random
# walk over a pool of objects (FeatureCollection, Track, MultiGeoPoint, MultiGeoLineString, MultiGeoPolygon):
#   observe(x)          read x's hull and compare it with the exact reference hull of x's *current* member vertices
#   derive(x) -> y      every public operation that returns a new hull-bearing object: copy(), +, filter_by_dt,
#                       filter_by_property, filter_by_intersection / contained_by / contains, Track slicing,
#                       convolve_duplicate_timestamps (with and without duplicates), filter_by_time,
#                       filter_impossible_journeys, FeatureCollection index slices, multi-shape copy()
#   mutate(y)           edit y's member list (append / insert / pop / replace); for multi-shapes also in-place edits of a
#                       member (line-string vertices)
# Collections cache their hull (`cached_property`), so an object that has been observed is never mutated afterwards
# through its own list (that staleness exists in the unchanged code and is the documented meaning of the cache); what
# the walk insists on is that a *derived* object never inherits the source's cached hull and that mutating a derived
# object never changes the source.  Multi-shape hulls are plain methods and are re-observed after every mutation.

def _hist_coords(obj):
    """the coordinates a hull-bearing object holds now (the statement's reading, by kind of member)"""
    from geostructures import GeoPoint, GeoLineString
    out = []
    for sh in obj.geoshapes:
        if hasattr(sh, 'geoshapes'):
            out += _hist_coords(sh)
        elif isinstance(sh, GeoPoint):
            out.append(sh.centroid)
        elif isinstance(sh, GeoLineString):
            out += list(sh.vertices)
        else:
            out += list(sh.bounding_coords())
    return out


def impl_hist(line):
    import random as _r
    from datetime import time as _time
    from geostructures import (Coordinate, FeatureCollection, GeoBox, GeoLineString, GeoPoint, GeoPolygon, Track,
                               MultiGeoPoint, MultiGeoLineString, MultiGeoPolygon)
    from geostructures.time import TimeInterval
    _op, kind, seed = line.split()
    rng = _r.Random(int(seed))
    t0 = datetime(2021, 3, 1, tzinfo=timezone.utc)
    counter = [0]

    def xy():
        return rng.randint(-160, 160) / 8, rng.randint(-160, 160) / 8

    def point(dt=None):
        counter[0] += 1
        return GeoPoint(Coordinate(*xy()), dt=dt, properties={'i': counter[0]})

    def linestring(dt=None):
        counter[0] += 1
        return GeoLineString([Coordinate(*xy()) for _ in range(rng.randint(2, 4))], dt=dt, properties={'i': counter[0]})

    def polygon(dt=None):
        counter[0] += 1
        if rng.random() < 0.5:
            (a, b), (c, d) = xy(), xy()
            return GeoBox(Coordinate(min(a, c), max(b, d)), Coordinate(max(a, c) + 1, min(b, d) - 1), dt=dt,
                          properties={'i': counter[0]})
        x, y = xy()
        return GeoPolygon([Coordinate(x, y), Coordinate(x + rng.randint(1, 16) / 8, y + rng.randint(-8, 8) / 8),
                           Coordinate(x + rng.randint(-8, 8) / 8, y + rng.randint(1, 16) / 8), Coordinate(x, y)],
                          dt=dt, properties={'i': counter[0]})

    def stamp():
        # few distinct hours so that duplicate time stamps (at most two shapes per stamp: exact averages) occur
        return t0 + timedelta(hours=rng.randint(0, 30))

    def member(timed, points_only=False):
        dt = stamp() if timed else (stamp() if rng.random() < 0.3 else None)
        r = rng.random()
        if points_only or r < 0.55:
            return point(dt)
        if r < 0.8:
            return linestring(dt)
        if r < 0.93:
            return polygon(dt)
        return MultiGeoPoint([point() for _ in range(rng.randint(1, 3))], dt=dt, properties={'i': 0})

    def fresh(k, n=None):
        n = n or rng.randint(2, 7)
        if k == 'F':
            return FeatureCollection([member(False) for _ in range(n)])
        if k == 'T':
            pts_only = rng.random() < 0.6
            ms, used = [], {}
            while len(ms) < n:
                m = member(True, pts_only)
                if used.get(m.start, 0) >= 2:
                    continue
                used[m.start] = used.get(m.start, 0) + 1
                ms.append(m)
            return Track(ms)
        if k == 'MP':
            return MultiGeoPoint([point() for _ in range(n)])
        if k == 'ML':
            return MultiGeoLineString([linestring() for _ in range(n)])
        return MultiGeoPolygon([polygon() for _ in range(n)])

    def kind_of(o):
        return {'FeatureCollection': 'F', 'Track': 'T', 'MultiGeoPoint': 'MP', 'MultiGeoLineString': 'ML',
                'MultiGeoPolygon': 'MG'}[type(o).__name__]

    def hull_of(o):
        k = kind_of(o)
        if k in ('F', 'T'):
            return o.convex_hull
        if k in ('MP', 'MG') and rng.random() < 0.3:
            return o.convex_hull(k=rng.choice([0, 3, 8]))      # vertex-defined members: the keyword changes nothing
        return o.convex_hull()

    log = []
    pool = [{'o': fresh(kind), 'seen': False}]
    n_obs = 0

    def observe(e, why):
        nonlocal n_obs
        o = e['o']
        if not o.geoshapes:
            return None
        want = _show_ref(reference_ring([(F(c.longitude), F(c.latitude)) for c in _hist_coords(o)]))
        h = hull_of(o)
        got = _show(h.outline)
        if kind_of(o) in ('MP', 'ML', 'MG') and rng.random() < 0.3:
            h.outline.clear()           # the caller owns the result of a method call: editing it must not leak back
            log.append('result.outline.clear')
        e['seen'] = True
        n_obs += 1
        if not ring_equal(got, want):
            return (f'WRONG hull after [{" ; ".join(log)}] at {why}: got {got[:120]} but the object holds '
                    f'{len(o.geoshapes)} members whose exact hull is {want[:120]}')
        return None

    def derive(e):
        o = e['o']
        k = kind_of(o)
        if k in ('MP', 'ML', 'MG'):
            log.append(f'{k}.copy')
            return o.copy()
        ops = ['copy', 'add', 'fdt', 'fdt-instant', 'fprop', 'finter', 'fwithin', 'fcontains']
        ops += ['slice', 'convolve', 'ftime', 'fjourney'] if k == 'T' else ['index']
        op = rng.choice(ops)
        log.append(f'{k}.{op}')
        cut = t0 + timedelta(hours=rng.randint(3, 27))
        probe = GeoBox(Coordinate(-rng.randint(2, 20), rng.randint(2, 20)), Coordinate(rng.randint(2, 20), -rng.randint(2, 20)))
        if op == 'copy':
            return o.copy()
        if op == 'add':
            return o + fresh(k, rng.randint(1, 3))
        if op == 'fdt':
            return o.filter_by_dt(TimeInterval(cut - timedelta(hours=rng.randint(1, 12)), cut + timedelta(hours=rng.randint(0, 12))))
        if op == 'fdt-instant':
            return o.filter_by_dt(rng.choice([s for s in o.geoshapes if s.dt is not None] or [point(cut)]).start)
        if op == 'fprop':
            m = rng.choice([2, 3])
            return o.filter_by_property('i', lambda v: v % m != 0)
        if op == 'finter':
            return o.filter_by_intersection(probe)
        if op == 'fwithin':
            return o.filter_contained_by(probe)
        if op == 'fcontains':
            return o.filter_contains(GeoPoint(Coordinate(*xy())))
        if op == 'index':
            return FeatureCollection(o[rng.randint(0, 2):rng.randint(2, 8)])
        if op == 'slice':
            r = rng.random()
            return o[cut:] if r < 0.35 else o[:cut] if r < 0.7 else o[cut - timedelta(hours=8):cut + timedelta(hours=8)]
        if op == 'convolve':
            if any(not isinstance(s, GeoPoint) for s in o.geoshapes):
                log[-1] += '(skipped: non-point members)'
                return o.copy()
            return o.convolve_duplicate_timestamps()
        if op == 'ftime':
            return o.filter_by_time(_time(rng.randint(0, 11), 0), _time(rng.randint(12, 23), 0))
        if op == 'fjourney':
            if any(not isinstance(s, GeoPoint) for s in o.geoshapes):
                log[-1] += '(skipped: non-point members)'
                return o.copy()
            return o.filter_impossible_journeys(rng.choice([50.0, 500.0, 5000.0]))
        raise ValueError(op)

    def mutate(e):
        o = e['o']
        k = kind_of(o)
        new = {'F': lambda: member(False), 'T': lambda: member(True, True), 'MP': point, 'ML': linestring,
               'MG': polygon}[k]
        ops = ['append', 'insert'] + (['replace'] if o.geoshapes else []) + (['pop'] if len(o.geoshapes) > 1 else [])
        if k == 'ML' and o.geoshapes:
            ops.append('vertex')
        op = rng.choice(ops)
        log.append(f'{k}.geoshapes.{op}')
        g = o.geoshapes
        if op == 'append':
            g.append(new())
        elif op == 'insert':
            g.insert(rng.randint(0, len(g)), new())
        elif op == 'pop':
            g.pop(rng.randrange(len(g)))
        elif op == 'replace':
            g[rng.randrange(len(g))] = new()
        else:
            rng.choice(g).vertices.append(Coordinate(*xy()))

    steps = rng.randint(4, 9)
    for step in range(steps):
        e = rng.choice(pool)
        is_multi = kind_of(e['o']) in ('MP', 'ML', 'MG')
        r = rng.random()
        if r < 0.3 or step == 0:
            log.append('observe')
            bad = observe(e, f'step {step}')
            if bad:
                return bad
        elif r < 0.7:
            src_ids = [id(s) for s in e['o'].geoshapes]
            try:
                d = {'o': derive(e), 'seen': False}
            except Exception as exc:    # noqa  (a derivation that raises is not a hull question: C17/C18)
                log[-1] += f'({type(exc).__name__}: no derived object)'
                continue
            pool.append(d)
            # a derived object is edited before anybody looked at it, then observed; the source must be unaffected
            if d['o'].geoshapes is e['o'].geoshapes:
                return f'ALIAS after [{" ; ".join(log)}]: the derived object shares the source\'s member list'
            if rng.random() < 0.75:
                mutate(d)
                if [id(s) for s in e['o'].geoshapes] != src_ids:
                    return f'ALIAS after [{" ; ".join(log)}]: editing the derived object changed the source\'s members'
            log.append('observe derived')
            bad = observe(d, f'step {step} (derived)')
            if bad:
                return bad
            if e['seen'] or is_multi:
                log.append('observe source')
                bad = observe(e, f'step {step} (source again)')
                if bad:
                    return bad
        else:
            if e['seen'] and not is_multi:
                continue            # the collection's own cache: documented, not judged
            mutate(e)
            log.append('observe')
            bad = observe(e, f'step {step} (after edit)')
            if bad:
                return bad
    ops = sorted({x for x in log if '.' in x and 'geoshapes' not in x})
    return f'OK {n_obs} :: ' + ' '.join(ops)


# ---- coarse lattices with very wide extent ---------------------------------------------------------------------------

def lattice_lines(run):
    """point sets on 90/45/30/15/22.5-degree lattices: spans of exactly 180 deg of longitude (edges joining the two
    extreme meridians on top, at the bottom, diagonally), poles, the -180 meridian; every set through every entry point"""
    rng = run.rng
    lines = []

    def through_all(pts, exhaustive=False):
        out = ['hull.poly ' + fmt_pts(pts)]
        P = ' '.join('P ' + fmt_pts([p]) for p in pts)
        out.append('hull.multi ' + P)
        if len(pts) >= 2:
            k = rng.randint(1, len(pts) - 1)
            out.append(f'hull.multi L {k} ' + fmt_pts(pts[:k]) + f' L {len(pts) - k} ' + fmt_pts(pts[k:])
                       if k >= 1 and len(pts) - k >= 1 else 'hull.multi L %d %s' % (len(pts), fmt_pts(pts)))
            out.append(f'hull.multi G {len(pts)} ' + fmt_pts(pts))
            out.append('hull.coll ' + P)
            out.append(f'hull.coll L {len(pts)} ' + fmt_pts(pts))
            out.append('hull.coll M %d %s' % (len(pts), P))
            out.append('hull.track ' + ' '.join(f'@{rng.randint(0, 3)} P ' + fmt_pts([p]) for p in pts))
        if not exhaustive:
            out = [out[0]] + rng.sample(out[1:], min(3, len(out) - 1)) + ['hull.of ' + fmt_pts(pts)]
        return out

    # exhaustive: every 3- and 4-subset of a 3x3 lattice exactly 180 deg wide (three windows), lat rows incl. a pole
    for w in (-180, -90, -135):
        for lats in ((-90, 0, 90), (10, 45, 80)):
            grid = [(F(w + dx), F(y)) for dx in (0, 90, 180) for y in lats]
            for k in (3, 4):
                subsets = list(itertools.combinations(grid, k))
                if run.quick and k == 4:
                    subsets = rng.sample(subsets, 15)
                for sub in subsets:
                    sub = list(sub)
                    rng.shuffle(sub)
                    ls = through_all(sub, exhaustive=True)
                    lines += ls if not run.quick else [ls[0]] + rng.sample(ls[1:], 2)
    # random coarse lattices
    for i in range(run.scale(200, 2500)):
        step = rng.choice([F(90), F(45), F(45), F(30), F(15), F(45, 2)])
        nlon, nlat = int(360 / step), int(180 / step)
        mode = i % 4
        if mode in (0, 1):      # window exactly 180 wide, both extreme meridians occupied
            w = -180 + step * rng.randint(0, int(180 / step) - 1)
            xs = [w, w + 180] + [w + step * rng.randint(0, int(180 / step)) for _ in range(rng.randint(1, 5))]
        elif mode == 2:         # narrower than 180
            span = step * rng.randint(1, int(180 / step) - 1)
            w = -180 + step * rng.randint(0, int((360 - span) / step) - 1)
            xs = [w, w + span] + [w + step * rng.randint(0, int(span / step)) for _ in range(rng.randint(1, 5))]
        else:                   # anywhere on the globe (often wider than 180: model only)
            xs = [-180 + step * rng.randint(0, nlon - 1) for _ in range(rng.randint(3, 7))]
        ys = [-90 + step * rng.randint(0, nlat) for _ in xs]
        if mode == 0:           # make the long edge a hull edge: the two extreme-meridian points on top or at the bottom
            top = rng.random() < 0.5
            ys[0] = ys[1] = max(ys) if top else min(ys)
            if rng.random() < 0.5:
                ys[1] = ys[0] - step * rng.randint(0, 1) if top else ys[0] + step * rng.randint(0, 1)
            ys = [max(F(-90), min(F(90), y)) for y in ys]
        pts = [(F(x), F(y)) for x, y in zip(xs, ys)]
        assert all(-180 <= x < 180 and -90 <= y <= 90 for x, y in pts), pts
        if rng.random() < 0.3:
            pts.append(rng.choice(pts))
        rng.shuffle(pts)
        lines += through_all(pts)
    return lines


def lattice_tag(ln, a):
    op, pts = line_points(ln)
    if not pts:
        return ['lattice:empty']
    span = max(p[0] for p in pts) - min(p[0] for p in pts)
    cls = 'span=180' if span == 180 else 'span<180' if span < 180 else 'span>180 (model only)'
    tags = [f'lattice:{op}:{cls}']
    if span == 180:
        ring = reference_ring(pts)
        if any(abs(a_[0] - b_[0]) == 180 for a_, b_ in zip(ring, ring[1:])):
            tags.append('lattice:hull-edge-spans-exactly-180')
    if any(abs(p[1]) == 90 for p in pts):
        tags.append('lattice:pole')
    if any(p[0] == -180 for p in pts):
        tags.append('lattice:lon=-180')
    return tags


def check(run):
    run.prove(MODULE, THEOREMS)
    # second tie: `_geometry.py` (cross product, monotone chain) translated to Lean on this run, proved equal to the model
    run.source_tie(['SrcHull', 'SrcHullPoly', 'SrcHullMulti'], 'GeoVerif.Props.C10Src',
                   ['GV.C10Src.' + t for t in ('cross_eq', 'lowerWhile_eq', 'upperWhile_eq', 'upperLoop_eq', 'lowerLoop_eq',
                                               'convexHull_eq', 'polyInit_eq', 'hullPoly_eq_init', 'multiPointHull_eq',
                                               'multiLineHull_eq', 'multiPolyHull_eq', 'src_multiHull', 'src_multi_hull_ring',
                                               'src_hull_contains_all', 'src_hull_unique', 'src_hull_dup_invariant')])
    rng = run.rng

    # 1. exhaustive small world through `_geometry.convex_hull`
    lines = gen_exhaustive(run)
    run.run_cases('exhaustive-grid4-multisets', lines, impl, spec, tag=tag_line, spec_compare=ring_equal)
    run.exhaustive = True

    # 2. the same small world through the GeoPolygon constructor (subset)
    grid = [(F(x), F(y)) for x in range(4) for y in range(4)]
    lines = []
    for k in range(1, 4):
        for ms in itertools.combinations_with_replacement(grid, k):
            p = list(ms)
            rng.shuffle(p)
            lines.append('hull.poly ' + fmt_pts(p))
    lines += ['hull.poly ' + fmt_pts(rng.choices(grid, k=rng.randint(4, 7))) for _ in range(run.scale(1500, 20000))]
    lines.append('hull.poly')
    run.run_cases('grid4-through-GeoPolygon', lines, impl, spec, tag=tag_line, spec_compare=ring_equal)

    # 3. random 1..40 points on the 1/8 grid, structured degeneracies, each set in 3 orders/multiplicities
    n = run.scale(1000, 50000)
    lines = []
    for i in range(n):
        pts = rand_points(rng, big=(i % 4 == 3))
        op = 'hull.of' if i % 3 else 'hull.poly'
        lines.append(f'{op} ' + fmt_pts(pts))
        p2 = list(pts)
        rng.shuffle(p2)
        lines.append(f'{op} ' + fmt_pts(p2))
        p3 = list(set(pts)) if rng.random() < 0.5 else (p2 + [rng.choice(pts) for _ in range(3)])[:48]
        rng.shuffle(p3)
        lines.append(f'{op} ' + fmt_pts(p3))
    run.run_cases('random-dyadic-sets', lines, impl, spec, tag=tag_line, spec_compare=ring_equal)

    # 3b. the same structures at every scale: dyadic scaling about a (dyadic) anchor keeps every difference and cross
    #     product exact, so metre-scale point sets (spacing ~1e-6 deg) must give the scaled hull (seeded change C10-m2)
    lines = []
    for i in range(run.scale(250, 8000)):
        pts = rand_points(rng)
        k = rng.choice([6, 10, 14, 18, 22])
        sc = F(1, 2 ** k)
        ax, ay = F(rng.randint(-170, 170)), F(rng.randint(-80, 80))
        if k > 18:
            ax, ay = ax / 16, ay / 16
        moved = [(ax + x * sc, ay + y * sc) for x, y in pts]
        op = 'hull.of' if i % 3 else 'hull.poly'
        lines.append(f'{op} ' + fmt_pts(moved))
    run.run_cases('scaled-and-translated', lines, impl, spec, tag=tag_line, spec_compare=ring_equal)

    # 3c. fine grid, wide spread: exactly collinear runs (and convex position) whose coordinates are multiples of 2**-26
    #     degrees apart by whole degrees - products of the *absolute* coordinates no longer fit a double, products of
    #     differences of collinear points still cancel exactly (seeded change C10-n2: shoelace-form cross product)
    lines = []
    g = F(1, 2 ** 26)
    for i in range(run.scale(250, 6000)):
        ox, oy = g * rng.randint(-70 * 2 ** 26, 60 * 2 ** 26), g * rng.randint(-70 * 2 ** 26, 60 * 2 ** 26)
        dx, dy = g * rng.randint(-2 ** 20, 2 ** 20), g * rng.randint(-2 ** 20, 2 ** 20)
        if dx == 0 and dy == 0:
            dx = g
        ts = rng.sample(range(0, 64), rng.randint(3, 8))
        pts = [(ox + dx * t, oy + dy * t) for t in ts]
        if i % 2:                                   # plus one or two points clearly off the line
            pts += [(ox + dy * 3 + g * rng.randint(1, 99), oy - dx * 3 + g * rng.randint(1, 99)) for _ in range(rng.choice([1, 2]))]
        pts = [(x, y) for x, y in pts if abs(x) <= 89 and abs(y) <= 89]
        if len(pts) < 2:
            continue
        rng.shuffle(pts)
        lines.append(('hull.of ' if i % 3 else 'hull.poly ') + fmt_pts(pts))
    run.run_cases('fine-grid-wide-spread', lines, impl, spec, tag=tag_line, spec_compare=ring_equal)

    # 4. the public wrappers
    lines = gen_wrappers(run, run.scale(1500, 30000))
    lines += ['hull.coll', 'hull.track']
    run.run_cases('wrappers', lines, impl, spec, tag=tag_line, spec_compare=ring_equal)

    # 5. wider than 180 degrees of longitude: the constructor's antimeridian reading may reverse the ring;
    #    nothing is demanded by the statement, but model and code must still agree
    lines = gen_wrappers(run, run.scale(300, 5000), wide=True)
    for _ in range(run.scale(200, 3000)):
        pts = [(F(rng.randint(-170 * 8, 170 * 8), 8), F(rng.randint(-80 * 8, 80 * 8), 8)) for _ in range(rng.randint(1, 8))]
        lines.append('hull.poly ' + fmt_pts(pts))
    def wide_tag(ln, a):
        if spec(ln) is not None:
            return ['wide:span<=180 (demanded)']
        _op, pts = line_points(ln)
        ref = _show_ref(reference_ring(pts))
        return ['wide:span>180 ' + ('ring kept' if ring_equal(a, ref) else 'ring reversed by GeoPolygon')]
    run.run_cases('wide-longitude', lines, impl, spec, spec_compare=ring_equal, tag=wide_tag)

    # 6. support stream (no model): coordinates carrying Z
    lines = []
    for _ in range(run.scale(300, 5000)):
        pts = rand_points(rng)[:12]
        toks = []
        for x, y in pts:
            toks += [rat(x), rat(y), str(rng.choice([0, 1, 2]))]
        lines.append('hull.z ' + ' '.join(toks))
    run.run_cases('np-z-coordinates', lines, impl_z, spec_z, model=False, spec_compare=ring_equal,
                  tag=lambda ln, a: ['z:' + ('checked' if spec_z(ln) is not None else 'planar-degenerate')])

    # derived collections after the receiver's hull was cached (support, no model)
    lines_d = []
    for i in range(run.scale(120, 3000)):
        kind = 'T' if i % 2 else 'F'
        hows = ['add', 'copy', 'fprop'] + (['slice'] if kind == 'T' else [])
        lines_d.append(f'hull.derived {kind} {hows[(i // 2) % len(hows)]} {rng.randrange(10 ** 9)}')
    run.run_cases('np-derived-collection-hull', lines_d, impl_derived, spec_derived, model=False,
                  spec_compare=lambda a, sp: a.startswith('OK'),
                  known_key=lambda ln, a, sp: 'derived-collection.convex_hull/' + ln.split()[2] + '/stale',
                  tag=lambda ln, a: ['derived:' + ln.split()[1] + ':' + ln.split()[2]])

    # coarse lattices with very wide extent: spans of exactly 180 deg, poles, the -180 meridian, every entry point
    run.run_cases('coarse-lattice-wide-extent', lattice_lines(run), impl, spec, spec_compare=ring_equal, tag=lattice_tag)

    # observe / derive / mutate / observe histories on every hull-bearing object (support, no model)
    lines_h = []
    kinds = ['F', 'T', 'T', 'F', 'MP', 'ML', 'MG']
    for i in range(run.scale(700, 8000)):
        lines_h.append(f'hull.hist {kinds[i % len(kinds)]} {rng.randrange(10 ** 9)}')
    run.run_cases('np-object-histories', lines_h, impl_hist, spec_derived, model=False,
                  spec_compare=lambda a, sp: a.startswith('OK'),
                  known_key=lambda ln, a, sp: 'history/' + ln.split()[1] + '/' + a.split(' ', 1)[0].lower(),
                  nontrivial=lambda ln, a: not a.startswith('OK 0'),
                  tag=lambda ln, a: (['hist:' + x.split('(')[0] for x in a.split(' :: ', 1)[1].split()] or ['hist:no-derivation'])
                  if a.startswith('OK') and ' :: ' in a else ['hist:' + a.split(' ', 1)[0]])

    return run.finish(
        rule='a case is one protocol line = one coordinate multiset in one order through one entry point. Exhaustive: '
             'every multiset of <= 4 points of the 4x4 grid (thorough: <= 6; quick samples sizes 5, 6) in every '
             'permutation up to size 3 (thorough 4) and sampled permutations beyond; the same world through the '
             'GeoPolygon constructor; random sets of 1..40 points on the 1/8 grid (offsets up to +-80 deg) in nine '
             'structured modes (small grid, all collinear, vertical lines, convex position, polygon + edge points, '
             'collinear run + outliers, grid block, tied extreme longitudes, forced duplicates) each in three '
             'orders/multiplicities; wrapper streams through MultiGeoPoint/MultiGeoLineString/MultiGeoPolygon, '
             'FeatureCollection (nested multi-shapes) and Track. Every case is compared with the Lean model and with '
             'an independent exact reference (gift wrapping, cross-checked against brute-force extreme points for '
             '<= 9 distinct points, and against the laws closed/CCW/strict turns/no repeats/vertices are inputs/'
             'contains all). Added: coarse lattices (multiples of 90/45/30/15/22.5 deg) with longitude windows exactly 180 deg '
             'wide, poles and the -180 meridian through every entry point; seeded observe/derive/mutate/observe '
             'histories (support stream) over collections, tracks, multi-shapes and every derived object, each '
             'observation compared with the exact hull of the members held at that moment. '
             'distinct_nontrivial counts distinct lines; the class histogram is in `histogram`.',
        assumptions=[
            'coordinates are exact dyadic rationals (multiples of 1/8, |v| <= 170) so that every float product/sum in '
            'coordinate_vector_cross_product and is_counter_clockwise is exact: the float program is the rational program',
            'Python set iteration order is arbitrary; the model uses first-occurrence order and sorted_set_canonical '
            'proves the sorted result does not depend on it',
            'coordinates equal in lon/lat but different in Z are distinct set members; the planar model gives one point '
            'per position (np-z stream: laws still hold unless all coordinates share one position, where the code '
            'returns [p, p\', p]; noted, not claimed)',
            'wrappers: point sets spanning more than 180 deg of longitude are outside the planar statement '
            '(GeoPolygon reads such an edge as antimeridian-crossing and may reverse the ring); model = code is still checked',
        ],
        checker_cmd='cd lean && lake build GeoVerif.Props.C10 && lake env lean .lake/audit/C10.lean  (#print axioms)')
