"""
Planar shapes of the protocol (see lean/GeoVerif/Drv/Shapes.lean): parsing into implementation objects and
into exact `Fraction` structures, plus the exact set-truth oracles used as the *spec* of C01/C02/C12.

Syntax:  poly x y x y … [h x y …]*  |  box nwx nwy sex sey [h x y …]*  |  line x y …  |  pt x y
A token `@n`, `@i<µs>`, `@v<µs>:<µs>` attaches time bounds on the implementation side only.
"""
from datetime import datetime, timedelta, timezone
from fractions import Fraction as F

from common import rat

EPOCH = datetime(1970, 1, 1, tzinfo=timezone.utc)


# ---------------------------------------------------------------------------------- parsing

def _pts(tokens):
    if len(tokens) % 2:
        raise ValueError('odd number of coordinates')
    return [(F(tokens[i]), F(tokens[i + 1])) for i in range(0, len(tokens), 2)]


def split_on(tokens, sep):
    out, cur = [], []
    for t in tokens:
        if t == sep:
            out.append(cur)
            cur = []
        else:
            cur.append(t)
    out.append(cur)
    return out


class PShape:
    """exact planar shape; `shell`/`holes` are *closed* rings (first == last) for polygons and boxes"""

    def __init__(self, kind, raw=None, holes=(), pts=None, nw=None, se=None, dt=None):
        self.kind, self.raw, self.rawholes, self.pts, self.nw, self.se, self.dt = kind, raw, list(holes), pts, nw, se, dt
        if kind == 'poly':
            self.shell = close(raw)
        elif kind == 'box':
            self.shell = [nw, (nw[0], se[1]), se, (se[0], nw[1]), nw]
        else:
            self.shell = None
        self.holes = [close(h) for h in self.rawholes]

    # exact geometry
    def edges(self):
        if self.kind in ('poly', 'box'):
            return [e for r in [self.shell] + self.holes for e in zip(r, r[1:])]
        if self.kind == 'line':
            return list(zip(self.pts, self.pts[1:]))
        return []

    def verts(self):
        if self.kind in ('poly', 'box'):
            return self.shell[:-1]
        return self.pts

    def region(self, p):
        """polygon-like only: 1 interior, 0 boundary (outer or hole), -1 outside"""
        v = in_ring(p, self.shell)
        if v <= 0:
            return v
        for h in self.holes:
            w = in_ring(p, h)
            if w == 1:
                return -1
            if w == 0:
                return 0
        return 1

    def closed_has(self, p):
        if self.kind in ('poly', 'box'):
            return self.region(p) >= 0
        if self.kind == 'line':
            return any(on_seg(p, a, b) for a, b in self.edges())
        return self.pts[0] == p

    def tokens(self):
        def flat(ps):
            return ' '.join(f'{rat(x)} {rat(y)}' for x, y in ps)
        d = (' ' + self.dt) if self.dt else ''
        if self.kind == 'pt':
            return 'pt ' + flat(self.pts) + d
        if self.kind == 'line':
            return 'line ' + flat(self.pts) + d
        hs = ''.join(' h ' + flat(h) for h in self.rawholes)
        if self.kind == 'box':
            return 'box ' + flat([self.nw, self.se]) + hs + d
        return 'poly ' + flat(self.raw) + hs + d


def close(ring):
    ring = list(ring)
    return ring if ring and ring[0] == ring[-1] and len(ring) > 1 else ring + [ring[0]]


def parse_shape(tokens):
    dt = [t for t in tokens if t.startswith('@')]
    tokens = [t for t in tokens if not t.startswith('@')]
    kind, rest = tokens[0], tokens[1:]
    dtv = dt[0] if dt else None
    if kind == 'pt':
        return PShape('pt', pts=_pts(rest), dt=dtv)
    if kind == 'line':
        return PShape('line', pts=_pts(rest), dt=dtv)
    parts = [_pts(p) for p in split_on(rest, 'h')]
    if kind == 'poly':
        return PShape('poly', raw=parts[0], holes=parts[1:], dt=dtv)
    if kind == 'box':
        return PShape('box', nw=parts[0][0], se=parts[0][1], holes=parts[1:], dt=dtv)
    raise ValueError('bad shape ' + kind)


def mk_dt(tok):
    from geostructures.time import TimeInterval
    if tok is None or tok == '@n':
        return None
    if tok.startswith('@i'):
        return EPOCH + timedelta(microseconds=int(tok[2:]))
    if tok.startswith('@v'):
        a, b = tok[2:].split(':')
        return TimeInterval(EPOCH + timedelta(microseconds=int(a)), EPOCH + timedelta(microseconds=int(b)))
    raise ValueError(tok)


def to_impl(s):
    """exact shape -> geostructures object (coordinates must be exactly representable floats)"""
    from geostructures import Coordinate, GeoBox, GeoLineString, GeoPoint, GeoPolygon

    def c(p):
        return Coordinate(float(p[0]), float(p[1]))
    dt = mk_dt(s.dt)
    if s.kind == 'pt':
        return GeoPoint(c(s.pts[0]), dt=dt)
    if s.kind == 'line':
        return GeoLineString([c(p) for p in s.pts], dt=dt)
    # hole objects may carry time bounds of their own; the spatial predicates must not look at them either (seeded
    # change C02-n3 routed the "surrounds a hole" guard through the time-aware `in`): whenever the shape is time-bounded
    # its holes get an instant that no other shape of the streams has
    hole_dt = (EPOCH + timedelta(days=11111)) if dt is not None else None
    holes = [GeoPolygon([c(p) for p in h], dt=hole_dt) for h in s.rawholes] or None
    if s.kind == 'box':
        return GeoBox(c(s.nw), c(s.se), holes=holes, dt=dt)
    return GeoPolygon([c(p) for p in s.raw], holes=holes, dt=dt)


def to_impl_live(s, salt):
    """`to_impl(s)` built the way a caller with long-lived containers builds it, plus a `disturb()` that afterwards edits
    what the *caller* still owns or was handed back — the holes list passed to the constructor, the holes list of a
    converted / copied shape, another shape built from the re-used list.  The library copies that list at construction
    (`list(holes or [])`), so no answer about the shape may change (seeded change C01-p1 kept the caller's list).  The
    outline list is not disturbed: the constructor documents no copy of it and keeps the caller's list when it is
    already closed and counter-clockwise.  The edit is picked from `salt`, so a replayed line repeats it."""
    import zlib
    from geostructures import Coordinate, GeoBox, GeoPolygon
    obj = to_impl(s)
    crc = zlib.crc32(salt.encode())
    if s.kind == 'line' and len(s.pts) >= 3 and crc % 2 == 0:
        # a path that is *grown*: built from a prefix, looked at, then extended vertex by vertex through its public
        # `vertices` list — whatever was derived from the shorter path must not survive (seeded change C02-q1 cached
        # `segments`).  `bounds`/`centroid` are cached by the unchanged library and are not read here.
        from geostructures import GeoLineString
        keep = 2 + (crc // 2) % (len(s.pts) - 2)
        obj = GeoLineString([Coordinate(float(p[0]), float(p[1])) for p in s.pts[:keep]], dt=mk_dt(s.dt))
        _ = obj.segments
        obj.intersects_shape(obj)
        obj.contains_shape(obj)
        for p in s.pts[keep:]:
            obj.vertices.append(Coordinate(float(p[0]), float(p[1])))
        return obj, (lambda: 'nothing')
    if s.kind not in ('poly', 'box'):
        return obj, (lambda: 'nothing')

    def c(p):
        return Coordinate(float(p[0]), float(p[1]))
    dt = mk_dt(s.dt)
    hole_dt = (EPOCH + timedelta(days=11111)) if dt is not None else None
    mine = [GeoPolygon([c(p) for p in h], dt=hole_dt) for h in s.rawholes]     # the caller's own list, passed as it is
    if s.kind == 'box':
        obj = GeoBox(c(s.nw), c(s.se), holes=mine, dt=dt)
    else:
        obj = GeoPolygon([c(p) for p in s.raw], holes=mine, dt=dt)
    xs = [float(p[0]) for p in s.shell]
    ys = [float(p[1]) for p in s.shell]
    w, h = (max(xs) - min(xs)) or 1.0, (max(ys) - min(ys)) or 1.0
    # a hole swallowing the whole shape: if it ever becomes one of the shape's holes, every answer flips
    big = GeoPolygon([Coordinate(min(xs) - w, min(ys) - h), Coordinate(max(xs) + w, min(ys) - h),
                      Coordinate(max(xs) + w, max(ys) + h), Coordinate(min(xs) - w, max(ys) + h)])
    pick = crc % 6
    warm = (crc // 6) % 3 == 0

    def look_around():
        """read-only observers between two identical questions: anything they cache or build (a shapely geometry, bounds,
        rings, text) must not change what the shape answers (seeded change C01-q3 switched to GEOS once `to_shapely()`
        had been called)"""
        for f in ('to_shapely', 'bounding_coords', 'edges', 'linear_rings', 'to_wkt', 'to_geojson', 'circumscribing_rectangle',
                  'copy', 'to_polygon'):
            try:
                getattr(obj, f)()
            except Exception:  # noqa  (an observer that raises is another property's business)
                pass
        for a in ('area', 'bounds', 'centroid', 'has_z', 'properties'):
            try:
                getattr(obj, a)
            except Exception:  # noqa
                pass
        try:
            hash(obj), repr(obj), obj == obj
        except Exception:  # noqa
            pass

    def disturb():
        if warm:
            look_around()
            return 'read-only observers (to_shapely, area, bounds, to_wkt, …)' + ' + ' + _disturb()
        return _disturb()

    def _disturb():
        if pick == 0:
            mine.clear()
            return 'caller cleared its holes list'
        if pick == 1:
            mine.append(big)
            return 'caller appended to its holes list'
        if pick == 2:
            if mine:
                mine.pop()
            mine.insert(0, big)
            GeoPolygon([c(p) for p in s.shell], holes=mine)
            return 'caller re-used its holes list for another polygon'
        if pick == 3:
            other = obj.to_polygon()
            if other is not obj:
                other.holes.append(big)
                return 'caller appended to the holes of to_polygon()'
            return 'nothing'
        if pick == 4:
            other = obj.copy()
            other.holes.append(big)
            return 'caller edited the holes of copy()'
        other = obj.set_dt(EPOCH, inplace=False) if hasattr(obj, 'set_dt') else obj.copy()
        if other is not obj:
            other.holes.clear()
            other.holes.append(big)
        return 'caller edited the holes of set_dt(inplace=False)'
    return obj, disturb


def show_pts(coords):
    return ' '.join(f'{rat(c.longitude)},{rat(c.latitude)}' for c in coords)


# ---------------------------------------------------------------------------------- exact geometry

def cross(o, a, b):
    return (a[0] - o[0]) * (b[1] - o[1]) - (a[1] - o[1]) * (b[0] - o[0])


def on_seg(p, a, b):
    return (cross(a, b, p) == 0 and min(a[0], b[0]) <= p[0] <= max(a[0], b[0])
            and min(a[1], b[1]) <= p[1] <= max(a[1], b[1]))


def in_ring(p, r):
    """closed ring r; 1 inside, 0 on the boundary, -1 outside — by the *winding number* (Sunday's
    upward/downward crossing rule), deliberately not the even-odd toggle the library uses"""
    for a, b in zip(r, r[1:]):
        if on_seg(p, a, b):
            return 0
    wn = 0
    for a, b in zip(r, r[1:]):
        if a[1] <= p[1]:
            if b[1] > p[1] and cross(a, b, p) > 0:
                wn += 1
        elif b[1] <= p[1] and cross(a, b, p) < 0:
            wn -= 1
    return 1 if wn != 0 else -1


def seg_touch(a, b, c, d):
    """closed segments share a point -> (touch, proper) where proper = touch and not parallel"""
    d1, d2, d3, d4 = cross(c, d, a), cross(c, d, b), cross(a, b, c), cross(a, b, d)
    par = (b[0] - a[0]) * (d[1] - c[1]) - (b[1] - a[1]) * (d[0] - c[0]) == 0
    if d1 * d2 < 0 and d3 * d4 < 0:
        return True, True
    t = on_seg(a, c, d) or on_seg(b, c, d) or on_seg(c, a, b) or on_seg(d, a, b)
    return t, (t and not par)


def seg_point(a, b, c, d):
    """exact intersection point of two non-parallel lines"""
    den = (a[0] - b[0]) * (c[1] - d[1]) - (a[1] - b[1]) * (c[0] - d[0])
    da, dc = a[0] * b[1] - a[1] * b[0], c[0] * d[1] - c[1] * d[0]
    return ((da * (c[0] - d[0]) - (a[0] - b[0]) * dc) / den, (da * (c[1] - d[1]) - (a[1] - b[1]) * dc) / den)


def is_simple(ring_open):
    """simple polygon: distinct vertices, non-zero area, non-adjacent edges disjoint, adjacent edges share only
    their common end point (collinear continuation allowed, spikes not)"""
    n = len(ring_open)
    if n < 3 or len(set(ring_open)) != n:
        return False
    r = ring_open + [ring_open[0]]
    if sum((r[i + 1][0] - r[i][0]) * (r[i + 1][1] + r[i][1]) for i in range(n)) == 0:
        return False
    es = list(zip(r, r[1:]))
    for i in range(n):
        for j in range(i + 1, n):
            a, b = es[i]
            c, d = es[j]
            adjacent = (j == i + 1) or (i == 0 and j == n - 1)
            t, _ = seg_touch(a, b, c, d)
            if not adjacent:
                if t:
                    return False
            else:
                shared = b if j == i + 1 else a
                other_i = a if j == i + 1 else b
                other_j = d if j == i + 1 else c
                # spike: the far end of one edge lies on the other edge
                if on_seg(other_i, c, d) or on_seg(other_j, a, b):
                    return False
                _ = shared
    return True


# ---------------------------------------------------------------------------------- C02 set truth

def truth_intersects(A, B):
    """(closed sets share a point, some contact is not a collinear overlap)"""
    anyt = anyproper = False
    for a, b in A.edges():
        for c, d in B.edges():
            t, pr = seg_touch(a, b, c, d)
            anyt |= t
            anyproper |= pr
    # containment without boundary contact, and point cases
    strong = anyproper
    for X, Y in ((A, B), (B, A)):
        for v in X.verts():
            if Y.kind in ('poly', 'box'):
                r = Y.region(v)
                if r == 1:
                    anyt = strong = True
                elif r == 0:
                    anyt = True
                    if X.kind == 'pt':
                        strong = True       # a point on a boundary shares that point: nothing collinear about it
            elif Y.kind == 'line':
                if any(on_seg(v, a, b) for a, b in Y.edges()):
                    anyt = True
                    if X.kind == 'pt':
                        strong = True
            else:
                if Y.pts[0] == v:
                    anyt = strong = True
    return anyt, strong


def spec_intersects(A, B):
    """'T'/'F', or None where the statement leaves it open (boundaries that only overlap collinearly)"""
    truth, strong = truth_intersects(A, B)
    if strong:
        return 'T'
    if not truth:
        return 'F'
    return None


def spec_contains(A, B):
    """second shape inside the first without touching its boundary; line: vertices / contiguous sub-sequences"""
    if A.kind == 'pt':
        return 'T' if (B.kind == 'pt' and A.pts[0] == B.pts[0]) else 'F'
    if A.kind == 'line':
        if B.kind == 'pt':
            return 'T' if B.pts[0] in A.pts else 'F'
        if B.kind == 'line':
            n = len(B.pts)
            return 'T' if any(A.pts[i:i + n] == B.pts for i in range(len(A.pts) - n + 1)) else 'F'
        return 'F'
    if B.kind == 'pt':
        # a box includes its own edges (C01); a polygon does not contain its outer boundary, but a point on a
        # hole's boundary is contained (C01)
        p = B.pts[0]
        if A.kind == 'box':
            inside = A.nw[0] <= p[0] <= A.se[0] and A.se[1] <= p[1] <= A.nw[1]
        else:
            inside = in_ring(p, A.shell) == 1
        if not inside:
            return 'F'
        return 'F' if any(in_ring(p, h) == 1 for h in A.holes) else 'T'
    collinear_only = False
    for a, b in A.edges():
        for c, d in B.edges():
            t, pr = seg_touch(a, b, c, d)
            if pr:
                return 'F'
            if t:
                collinear_only = True
    if collinear_only:
        return None
    if not all(A.region(v) == 1 for v in B.verts()):
        return 'F'
    if B.kind in ('poly', 'box'):
        for h in A.holes:
            if any(B.region(v) >= 0 for v in h[:-1]):
                return 'F'
    return 'T'
