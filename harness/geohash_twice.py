"""
Call-twice observation used by the C11 and C12 checks (topic helper, no check of its own).

Every public geohash function is observed as a *sequence*: call, edit the caller's own result (drain / pop /
add on returned sets, lists and dicts; set_property / set_dt / rebinding of corners / editing of outline and hole lists on
returned shapes), call again with the same arguments (same hasher object, same shape object), and only the SECOND answer
is handed on to be compared with the model and the spec.  A result that is not a fresh object (memoised mutable
containers, shapes served from a cache, state kept on the hasher, the shape or the module) shows up as
`UNSTABLE …` (second answer differs from the first) and therefore as a disagreement with model and spec.
The edit is chosen from the arguments (crc32), so a replayed line performs the same edit.
"""
import zlib
from datetime import datetime, timezone

FOREIGN = '~not-a-geohash~'
_HOLE = []


class Unstable(Exception):
    pass


def _is_shape(r):
    return hasattr(r, 'bounding_coords') and hasattr(r, '_properties')


def snap(r):
    """structural snapshot of a result (independent of object identity and of set/dict order)"""
    if isinstance(r, (set, frozenset)):
        return ('set', tuple(sorted(snap(x) for x in r)))
    if isinstance(r, dict):
        return ('dict', tuple(sorted((repr(k), snap(v)) for k, v in r.items())))
    if isinstance(r, (list, tuple)):
        return (type(r).__name__, tuple(snap(x) for x in r))
    if _is_shape(r):
        return ('shape', type(r).__name__, tuple(c.to_float() for c in r.bounding_coords()),
                tuple(snap(h) for h in getattr(r, 'holes', [])), repr(r.dt),
                tuple(sorted((repr(k), repr(v)) for k, v in r._properties.items())))
    if hasattr(r, 'longitude') and hasattr(r, 'latitude'):
        return ('coord', r.longitude, r.latitude, getattr(r, 'z', None))
    if isinstance(r, float):
        return ('f', r.hex())
    if isinstance(r, (str, int, bool)) or r is None:
        return r
    return ('obj', repr(r))


def edit(r, k):
    """what an ordinary caller may do with ITS OWN result; always a real change"""
    if isinstance(r, set):
        if k % 3 == 0:
            r.clear()                                  # drained as a work queue
        elif k % 3 == 1:
            for _ in range((len(r) + 1) // 2):
                r.pop()
        r.add(FOREIGN)
    elif isinstance(r, dict):
        if k % 3 == 0:
            r.clear()
        elif k % 3 == 1 and r:
            r.pop(next(iter(r)))
        else:
            for key in list(r):
                r[key] = None
        r[FOREIGN] = -1
    elif isinstance(r, list):
        if k % 3 == 0:
            r.clear()
        elif k % 3 == 1 and r:
            r.reverse()
            r.pop()
        r.append(FOREIGN)
    elif _is_shape(r):
        from geostructures import Coordinate
        r.set_property('niemeyer_geohash', FOREIGN)
        r.set_property(FOREIGN, k)
        r.set_dt(datetime(2001, 2, 3, tzinfo=timezone.utc))
        if hasattr(r, 'nw_bound'):
            r.nw_bound = Coordinate(0.5, 0.25)
            if k % 2:
                r.se_bound = Coordinate(0.75, 0.125)
        if hasattr(r, 'outline') and isinstance(r.outline, list):
            if k % 2:
                r.outline.clear()
            else:
                r.outline.reverse()
                r.outline.pop()
        if isinstance(getattr(r, 'holes', None), list):
            if not _HOLE:
                from geostructures import GeoPolygon
                _HOLE.append(GeoPolygon([Coordinate(0, 0), Coordinate(1, 0), Coordinate(1, 1), Coordinate(0, 0)]))
            r.holes.append(_HOLE[0])
        r._properties[FOREIGN + '2'] = [k]
    elif isinstance(r, tuple):
        for x in r:
            edit(x, k)


def twice(fn, *args, salt='', **kw):
    """fn(*args) -> edit the result -> fn(*args) again; returns the second result, raises Unstable if it differs.
    `salt` (the protocol line) selects the edit, so that a replayed line repeats it."""
    name = getattr(fn, '__qualname__', getattr(fn, '__name__', 'fn'))
    k = zlib.crc32((name + '|' + salt).encode())
    r1 = fn(*args, **kw)
    s1 = snap(r1)
    edit(r1, k)
    r2 = fn(*args, **kw)
    s2 = snap(r2)
    if s1 != s2:
        raise Unstable(f'{name}: second call (after the caller edited its own first result) answers '
                       f'{str(s2)[:160]} — first answer was {str(s1)[:160]}')
    return r2


def guard(impl):
    """decorator for an `impl(line)`: an Unstable sequence becomes the answer `UNSTABLE …`"""
    def wrapped(line):
        try:
            return impl(line)
        except Unstable as e:
            return 'UNSTABLE ' + str(e)
    wrapped.__name__ = getattr(impl, '__name__', 'impl')
    return wrapped


def _props(s):
    return tuple(sorted((repr(k), repr(v)) for k, v in getattr(s, '_properties', {}).items()))


def shape_state(s):
    """observable state of an input shape / collection member (to see that hashing does not edit its input)"""
    if hasattr(s, 'geoshapes'):
        return ('multi', tuple(shape_state(x) for x in s.geoshapes), repr(getattr(s, 'dt', None)), _props(s))
    if hasattr(s, 'vertices'):
        geom = tuple(c.to_float() for c in s.vertices)
    elif hasattr(s, 'outline'):
        geom = tuple(c.to_float() for c in s.outline)
    elif hasattr(s, 'nw_bound'):
        geom = (s.nw_bound.to_float(), s.se_bound.to_float())
    else:
        geom = (s.centroid.to_float(), getattr(s, 'radius', None), getattr(s, 'semi_major', None))
    holes = tuple(shape_state(h) for h in getattr(s, 'holes', []) or [])
    return (type(s).__name__, geom, holes, repr(getattr(s, 'dt', None)), _props(s))
