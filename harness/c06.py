"""C06 — TimeInterval behaves as the right-open set [start, end) (or a single instant)."""
from datetime import datetime, timedelta, timezone

import os
import time as _time

import common
from common import tf

# The statement says naive datetimes are read as UTC: make "naive = local time" observable by giving this process a
# local zone that is not UTC (seeded change C06-n3 normalised a naive probe with astimezone()).
os.environ['TZ'] = 'VRF-05:30'
_time.tzset()

MODULE = 'GeoVerif.Props.C06'
THEOREMS = ['GV.TI.' + t for t in (
    'mem_iff', 'intersectsDt_iff', 'issubset_iff', 'issuperset_iff', 'containsTI_iff', 'isdisjoint_iff',
    'isdisjoint_symm', 'intersects_eq_not_disjoint', 'intersects_iff', 'intersection_none_iff',
    'intersection_den', 'union_hull', 'union_covers_left', 'union_minimal', 'subset_antisymm', 'eq_iff',
    'eq_imp_hash', 'mk_rejects',
    'intersection_comm', 'intersection_self', 'intersection_issubset', 'union_comm', 'union_assoc', 'union_self',
    'issubset_refl', 'issubset_trans', 'elapsed_nonneg', 'elapsed_mono', 'elapsed_union_ge', 'isdisjoint_of_subset',
    'copy_eq_self')]

# second tie: time.py translated to Lean on every run, proved equal to the model (see common.Run.source_tie)
SRC_MODULE = 'GeoVerif.Props.C06Src'
SRC_THEOREMS = ['GV.C06Src.' + t for t in (
    'isInstant_eq', 'elapsed_eq', 'eq_eq', 'hashKey_eq', 'containsDt_eq', 'issubset_eq', 'issuperset_eq', 'containsTI_eq',
    'isdisjoint_eq', 'intersectsDt_eq', 'intersects_eq', 'init_eq', 'initTd_eq', 'intersection_eq', 'union_eq', 'copy_eq',
    'src_mem_iff', 'src_issubset_iff', 'src_isdisjoint_iff', 'src_intersects_iff', 'src_intersects_symm',
    'src_intersection_den', 'src_intersection_none_iff', 'src_init_rejects', 'src_eq_iff', 'src_eq_imp_hash',
    'src_intersection_comm', 'src_union_comm', 'src_issubset_trans')]

EPOCH = datetime(1970, 1, 1, tzinfo=timezone.utc)
BASE_US = (datetime(2020, 1, 1, tzinfo=timezone.utc) - EPOCH) // timedelta(microseconds=1)


def mkdt(tok):
    """instant token `<µs>[@n|@o<minutes>]` -> datetime (naive / UTC / other offset, same instant)"""
    us, _, rep = tok.partition('@')
    dt = EPOCH + timedelta(microseconds=int(us))
    if rep == 'n':
        return dt.replace(tzinfo=None)
    if rep.startswith('o'):
        return dt.astimezone(timezone(timedelta(minutes=int(rep[1:]))))
    if rep == 'z':
        return dt.astimezone(_dst_zone())      # ONE tzinfo object for every such datetime (aware arithmetic between them is wall-clock)
    return dt


_ZONE = []


def _dst_zone():
    if not _ZONE:
        from zoneinfo import ZoneInfo
        _ZONE.append(ZoneInfo('America/New_York'))      # clocks jump at 2020-03-08T07:00Z and 2020-11-01T06:00Z
    return _ZONE[0]


def us_of(dt):
    if dt.tzinfo is None:
        dt = dt.replace(tzinfo=timezone.utc)
    return (dt - EPOCH) // timedelta(microseconds=1)      # exact integer division (true division goes through float)


def val(tok):
    return int(tok.partition('@')[0])


def _ti(a, b):
    from geostructures.time import TimeInterval
    return TimeInterval(mkdt(a), mkdt(b))


def show_ti(t):
    return f'{us_of(t.start)} {us_of(t.stop if hasattr(t, "stop") else t.end)}'


def impl(line):
    from geostructures.time import TimeInterval
    cmd, *a = line.split()
    op = cmd.split('.', 1)[1]
    if op == 'mk':
        t = TimeInterval(mkdt(a[0]), mkdt(a[1]))
        return 'ok ' + show_ti(t)
    if op == 'mkdelta':
        t = TimeInterval(mkdt(a[0]), timedelta(microseconds=int(a[1])))
        return 'ok ' + show_ti(t)
    if op in ('contains', 'intersectsDt'):
        t = _ti(a[0], a[1])
        x = mkdt(a[2])
        return tf(x in t) if op == 'contains' else tf(t.intersects(x))
    x, y = _ti(a[0], a[1]), _ti(a[2], a[3])
    if op == 'issubset':
        return tf(x.issubset(y))
    if op == 'issuperset':
        return tf(x.issuperset(y))
    if op == 'containsTI':
        return tf(y in x)
    if op == 'isdisjoint':
        return tf(x.isdisjoint(y))
    if op == 'intersects':
        return tf(x.intersects(y))
    if op == 'intersection':
        r = x.intersection(y)
        return 'none' if r is None else show_ti(r)
    if op == 'union':
        return show_ti(x.union(y))
    if op == 'eq':
        return tf(x == y)
    if op == 'hasheq':
        return tf(hash(x) == hash(y) and len({x, y}) == (1 if x == y else 2))
    raise ValueError('unknown op ' + op)


# ---- the property, stated independently of the model: the dense-time set [s,e) / {s} ---------------

def _mem(s, e, x):
    return x == s if s == e else s <= x < e


def _subset(a, b):
    (s, e), (bs, be) = a, b
    if s == e:
        return _mem(bs, be, s)
    return bs != be and bs <= s and e <= be


def _disjoint(a, b):
    (s, e), (bs, be) = a, b
    if s == e:
        return not _mem(bs, be, s)
    if bs == be:
        return not _mem(s, e, bs)
    return max(s, bs) >= min(e, be)


def spec(line):
    cmd, *a = line.split()
    op = cmd.split('.', 1)[1]
    v = [val(t) for t in a]
    if op == 'mk':
        return 'ERR:Value' if v[1] < v[0] else f'ok {v[0]} {v[1]}'
    if op == 'mkdelta':
        return 'ERR:Value' if v[1] < 0 else f'ok {v[0]} {v[0] + v[1]}'
    if op in ('contains', 'intersectsDt'):
        return tf(_mem(v[0], v[1], v[2]))
    x, y = (v[0], v[1]), (v[2], v[3])
    if op == 'issubset':
        return tf(_subset(x, y))
    if op in ('issuperset', 'containsTI'):
        return tf(_subset(y, x))
    if op == 'isdisjoint':
        return tf(_disjoint(x, y))
    if op == 'intersects':
        return tf(not _disjoint(x, y))
    if op == 'intersection':
        return 'none' if _disjoint(x, y) else f'{max(x[0], y[0])} {min(x[1], y[1])}'
    if op == 'union':
        return f'{min(x[0], y[0])} {max(x[1], y[1])}'
    if op in ('eq', 'hasheq'):
        return tf(x == y)
    return None


def impl_for(_line):
    return impl


def spec_for(_line):
    return spec


BINOPS = ['issubset', 'issuperset', 'containsTI', 'isdisjoint', 'intersects', 'intersection', 'union', 'eq', 'hasheq']


def placement(x, y):
    """order type of the four end points (the branch tag recorded in the evidence)"""
    (s, e), (bs, be) = x, y
    def sg(p, q):
        return '<' if p < q else ('=' if p == q else '>')
    return f"{'inst' if s == e else 'ival'}/{'inst' if bs == be else 'ival'}:{sg(s, bs)}{sg(s, be)}{sg(e, bs)}{sg(e, be)}"


def check(run):
    run.prove(MODULE, THEOREMS)
    run.source_tie(['SrcTime'], SRC_MODULE, SRC_THEOREMS)
    run.corpus(impl, spec)
    rng = run.rng
    tick = 1_000_000
    nt = run.scale(6, 8)
    ivs = [(s, e) for s in range(nt) for e in range(s, nt)]
    T = lambda k: str(BASE_US + k * tick)  # noqa: E731

    # exhaustive small world: every relative placement of two intervals/instants on nt ticks
    lines = []
    for (s, e) in ivs:
        for (bs, be) in ivs:
            for op in BINOPS:
                lines.append(f'ti.{op} {T(s)} {T(e)} {T(bs)} {T(be)}')

    def tag(ln, a):
        p = ln.split()
        v = [(val(x) - BASE_US) for x in p[1:]]
        if len(v) == 4:
            return [placement((v[0], v[1]), (v[2], v[3]))]
        return [p[0]]
    run.run_cases('exhaustive-pairs', lines, impl, spec, tag=tag)
    lines = [f'ti.{op} {T(s)} {T(e)} {T(x)}' for (s, e) in ivs for x in range(-1, nt + 1) for op in ('contains', 'intersectsDt')]
    run.run_cases('exhaustive-membership', lines, impl, spec)
    lines = [f'ti.mk {T(s)} {T(e)}' for s in range(nt) for e in range(nt)]
    lines += [f'ti.mkdelta {T(s)} {d * tick}' for s in range(3) for d in range(-2, 3)]
    run.run_cases('constructor', lines, impl, spec)
    run.exhaustive = True

    # random: microsecond resolution, naive / aware / non-UTC offsets on either end
    def tok(v):
        r = rng.random()
        if r < 0.5:
            return str(v)
        if r < 0.75:
            return f'{v}@n'
        return f'{v}@o{rng.choice([-720, -330, -60, 60, 345, 840])}'
    n = run.scale(2000, 100000)
    lines = []
    for _ in range(n):
        pts = sorted(BASE_US + rng.choice([rng.randrange(0, 10), rng.randrange(0, 10**7), rng.randrange(0, 10**13)])
                     for _ in range(rng.choice([2, 3, 4])))
        c = [rng.choice(pts) for _ in range(4)]
        a, b = sorted(c[:2]), sorted(c[2:])
        op = rng.choice(BINOPS)
        lines.append(f'ti.{op} {tok(a[0])} {tok(a[1])} {tok(b[0])} {tok(b[1])}')
        if rng.random() < 0.3:
            lines.append(f'ti.{rng.choice(["contains", "intersectsDt"])} {tok(a[0])} {tok(a[1])} {tok(rng.choice(c))}')
        if rng.random() < 0.1:
            lines.append(f'ti.mk {tok(c[0])} {tok(c[1])}')
    run.run_cases('random-us-tz', lines, impl, spec,
                  tag=lambda ln, a: ['tz:' + ('naive' if '@n' in ln else 'offset' if '@o' in ln else 'utc')])

    # both end points in ONE daylight-saving zone, intervals straddling a clock change: Python subtracts two datetimes that share
    # a tzinfo object as wall-clock readings, so `end - start` is off by the shift while comparison, hash and membership use
    # the instants (seeded change C06-s3 compared (start, elapsed) in __eq__).  The same instants are asked about in UTC.
    jumps = [us_of(datetime(2020, 3, 8, 7, tzinfo=timezone.utc)), us_of(datetime(2020, 11, 1, 6, tzinfo=timezone.utc))]
    hour = 3600 * 10**6
    lines = []
    for j in jumps:
        marks = [j - 2 * hour, j - hour, j - 1, j, j + 1, j + hour, j + 2 * hour, j + 3 * hour]
        for _ in range(run.scale(120, 3000)):
            a = sorted(rng.sample(marks, 2))
            b = rng.choice([a, sorted(rng.sample(marks, 2)), [a[0], a[1] + rng.choice([-hour, hour])]])
            b = sorted(b)
            reps = rng.choice([('@z', ''), ('', '@z'), ('@z', '@z'), ('@z', '@o-300')])
            op = rng.choice(BINOPS)
            lines.append(f'ti.{op} {a[0]}{reps[0]} {a[1]}{reps[0]} {b[0]}{reps[1]} {b[1]}{reps[1]}')
            if rng.random() < 0.3:
                lines.append(f'ti.{rng.choice(["contains", "intersectsDt"])} {a[0]}@z {a[1]}@z {rng.choice(marks)}{rng.choice(["", "@z", "@n"])}')
            if rng.random() < 0.2:
                lines.append(f'ti.mk {a[0]}@z {a[1]}@z')
    run.run_cases('daylight-saving-zone', lines, impl, spec,
                  tag=lambda ln, a: ['dst:' + ln.split()[0] + ':' + (a if len(a) < 6 else 'val')])

    # far from the epoch: years 1 … 9999, end points a microsecond or two apart (float timestamps lose the
    # microsecond before ~1700 and after ~2240: seeded change C06-n2 compared .timestamp() floats)
    lines = []
    lo = us_of(datetime(1, 1, 2, tzinfo=timezone.utc))
    hi = us_of(datetime(9999, 12, 30, tzinfo=timezone.utc))
    for _ in range(run.scale(600, 20000)):
        base = rng.choice([lo + rng.randrange(10**9), hi - rng.randrange(10**9), rng.randrange(lo, hi),
                           us_of(datetime(rng.choice([1200, 1500, 1650, 2300, 2500, 4000, 9000]), 6, 15, tzinfo=timezone.utc))])
        pts = [base + rng.choice([0, 1, 2, 3, rng.randrange(0, 10**7)]) for _ in range(4)]
        a, b = sorted(pts[:2]), sorted(pts[2:])
        op = rng.choice(BINOPS)
        lines.append(f'ti.{op} {a[0]} {a[1]} {b[0]} {b[1]}')
        if rng.random() < 0.3:
            lines.append(f'ti.contains {a[0]} {a[1]} {rng.choice(pts)}')
    run.run_cases('far-from-epoch-us', lines, impl, spec)

    return run.finish(
        rule='every ordered pair of intervals/instants with end points on a small tick line x every operator '
             '(exhaustive: all order types of <=4 end points), all memberships, all constructor argument pairs; '
             'plus random microsecond-resolution cases with naive/UTC/offset datetimes. A case is one protocol '
             'line; all are non-trivial (each exercises an operator on a distinct placement); distinct by line.',
        assumptions=['datetime comparison/arithmetic is exact integer arithmetic on microseconds (CPython)',
                     'CPython hash() is a function of value equality'],
        checker_cmd='cd lean && lake build GeoVerif.Props.C06 && lake env lean .lake/audit/C06.lean  (#print axioms)')
