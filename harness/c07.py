"""C07 — geodesic calculator: distance, bearing and destination are mutually consistent."""
import cmath
import math

import common
import geo_oracle as G
from common import fbits, unfbits

MODULE = ['GeoVerif.Props.C07']
THEOREMS = ['GV.C07.' + t for t in (
    'earth_radius_value', 'earthR_pos', 'hav_ensure_irrelevant', 'hav_symm', 'hav_self', 'hav_nonneg',
    'hav_le_half_circumference', 'hav_lon_wrap', 'hav_lon_shift', 'hav_eq_central_angle', 'hav_eq_distXyz',
    'clampUnit_range', 'distXyz_range', 'distXyz_self', 'distXyz_symm',
    'bearing_range', 'bearingUnrounded_range', 'bearingUnrounded_congr',
    'dest_deg_eq_rad', 'dest_lat_range', 'dest_dist_wrapped', 'dest_dist', 'dest_bearing_xy', 'dest_bearing', 'dest_bearing_mod',
    'rotate_preserves_planar_dist', 'rotate_add', 'rotate_zero')]

RND7 = 0.5e-7 + 1e-12          # "a correct 1e-7 degree rounding of the model's un-rounded value"
RND5 = 0.5e-5 + 1e-9


# --------------------------------------------------------------------------------------------------
# protocol helpers


def C(lon, lat):
    from geostructures import Coordinate
    return Coordinate(lon, lat)


def floats(tokens):
    return [unfbits(t) for t in tokens]


def enc(*xs):
    return ' '.join(fbits(x) for x in xs)


VERDICTS = ('STATE:', 'DISAGREE:', 'ASYMMETRIC:')


def is_err(s):
    """not a value: an exception class, a time-out, or a verdict of the implementation interpreter's own consistency
    observations (`STATE:…` the answer changed after other coordinates were touched / on the second call,
    `DISAGREE:…` the two distance families differ, `ASYMMETRIC:…`)"""
    return s.startswith('ERR') or s == 'TIMEOUT' or s.startswith(VERDICTS)


def bad(s):
    """failure predicate of a non-value answer"""
    return s.split(':', 1)[1] if s.startswith(VERDICTS) else 'raises'


def parse(s):
    return [unfbits(t) for t in s.split()]


def close(x, y, rel=1e-9, ab=1e-9):
    return x == y or abs(x - y) <= rel * max(abs(x), abs(y)) + ab


# --------------------------------------------------------------------------------------------------
# implementation interpreter


_bearing_calls = [0]


COORD_AT = {'hav': ((0, 1), (2, 3)), 'hav2': ((0, 1), (2, 3)), 'xyz': ((0, 1), (2, 3)), 'bearing': ((0, 1), (2, 3)),
            'shift': ((0, 1), (2, 3), (4, 1), (5, 3)), 'dest': ((0, 1),), 'destdeg': ((0, 1),), 'rot2': ((0, 1), (4, 5))}


def coords_of(op, v):
    if op == 'rot':
        return [(v[0], v[1])] + [(v[i], v[i + 1]) for i in range(3, len(v), 2)]
    return [(v[i], v[j]) for i, j in COORD_AT[op]]


def _cached_names():
    from functools import cached_property
    from geostructures import Coordinate
    return [n for n, a in vars(Coordinate).items() if isinstance(a, (cached_property, property))]


def touch_lookalikes(pts):
    """
    Build coordinates that are *different* from, but easily confused with, the ones of the question — unit steps,
    doubles / halves, sign flips, swapped axes, equal hash (CPython: hash(-1.0) == hash(-2.0)), equal position with a
    Z / M value, -0.0 — and compute every cached or derived attribute of theirs.  Nothing of this may change any answer.
    """
    from geostructures import Coordinate
    names = _cached_names()
    for lon, lat in pts:
        sib = [(lon - 1, lat), (lon + 1, lat), (lon, lat - 1), (lon, lat + 1), (2 * lon, lat), (lon, 2 * lat), (lon / 2, lat),
               (lon, lat / 2), (-lon, lat), (lon, -lat), (-lon, -lat), (lat, lon), (-0.0 if lon == 0 else lon, -0.0 if lat == 0 else lat)]
        objs = [Coordinate(x, max(-90.0, min(90.0, y))) for x, y in sib if abs(x) <= 360]
        objs += [Coordinate(lon, lat, z=0.0), Coordinate(lon, lat, z=1.0), Coordinate(lon, lat, m=5.0)]
        for c in objs:
            hash(c)
            c.to_float()
            for n in names:
                getattr(c, n)


def impl(line):
    """the answer of the real code to one question — asked, asked again after look-alike coordinates have been built and
    their cached attributes computed, and (same objects) asked a third time: a calculator has no memory"""
    cmd, *a = line.split()
    op = cmd.split('.', 1)[1]
    first = _answer(line)
    touch_lookalikes(coords_of(op, floats(a)))
    second = _answer(line)
    if second != first:
        return 'STATE:answer-changed-after-other-coordinates-were-used'
    return first


def _answer(line):
    from geostructures.calc import (bearing_degrees, haversine_distance_meters, inverse_haversine_degrees,
                                    inverse_haversine_radians, rotate_coordinates)
    from geostructures._geometry import dist_xyz_meters
    cmd, *a = line.split()
    op = cmd.split('.', 1)[1]
    v = floats(a)
    if op == 'hav':
        return enc(haversine_distance_meters(C(v[0], v[1]), C(v[2], v[3])))
    if op == 'hav2':
        p, q = C(v[0], v[1]), C(v[2], v[3])
        return enc(haversine_distance_meters(p, q), haversine_distance_meters(q, p))
    if op == 'shift':
        return enc(haversine_distance_meters(C(v[0], v[1]), C(v[2], v[3])),
                   haversine_distance_meters(C(v[4], v[1]), C(v[5], v[3])))
    if op == 'bearing':
        p, q = C(v[0], v[1]), C(v[2], v[3])
        # calls with an explicit `precision` must not leak into later default calls (seeded change C07-n3: the default
        # lived in a module-level dict that the function updated in place)
        _bearing_calls[0] += 1
        if _bearing_calls[0] % 7 == 3:
            bearing_degrees(p, q, precision=_bearing_calls[0] % 3)
        return enc(bearing_degrees(p, q))
    if op == 'dest':
        r = inverse_haversine_radians(C(v[0], v[1]), v[2], v[3])
        return enc(r.longitude, r.latitude)
    if op == 'destdeg':
        r = inverse_haversine_degrees(C(v[0], v[1]), v[2], v[3])
        s = inverse_haversine_radians(C(v[0], v[1]), math.radians(v[2]), v[3])
        return enc(r.longitude, r.latitude, s.longitude, s.latitude)
    if op == 'xyz':
        p, q = C(v[0], v[1]), C(v[2], v[3])
        d = dist_xyz_meters(p, q)
        # the same objects through the other distance family, the other argument order and once more
        h, back, again = haversine_distance_meters(p, q), dist_xyz_meters(q, p), dist_xyz_meters(p, q)
        if again != d:
            return 'STATE:second-call-on-the-same-objects-differs'
        if abs(back - d) > 1e-6:
            return 'ASYMMETRIC:dist_xyz_meters'
        if abs(h - d) > 0.25 + G.dist_tol(h):
            return 'DISAGREE:haversine-vs-dist_xyz'
        return enc(d)
    if op == 'rot':
        o = C(v[0], v[1])
        pts = [C(v[i], v[i + 1]) for i in range(3, len(v), 2)]
        for c in pts:
            c.xyz                                   # per-coordinate caches are warm before the rotation …
        out = rotate_coordinates(pts, o, v[2])
        for c in out:                               # … and must not travel with the rotated coordinates (C07-n2)
            fresh = C(c.longitude, c.latitude)
            if list(c.xyz) != list(fresh.xyz):
                raise RuntimeError('a rotated coordinate carries a stale unit vector')
        return enc(*[x for c in out for x in (c.longitude, c.latitude)])
    if op == 'rot2':
        o = C(v[0], v[1])
        p = C(v[4], v[5])
        one = rotate_coordinates([p], o, v[2] + v[3])
        two = rotate_coordinates(rotate_coordinates([p], o, v[3]), o, v[2])
        return enc(one[0].longitude, one[0].latitude, two[0].longitude, two[0].latitude)
    raise ValueError('unknown op ' + op)


# --------------------------------------------------------------------------------------------------
# impl-vs-model comparators (tolerances: 1e-9 relative; rounded outputs are a correct rounding of the
# model's un-rounded value)


def cmp_values(a, m):
    if is_err(a) or is_err(m):
        return a == m
    x, y = parse(a), parse(m)
    return len(x) == len(y) and all(close(p, q) for p, q in zip(x, y))


def cmp_bearing(a, m):
    if is_err(a) or is_err(m):
        return a == m
    (b,), (unr, _rounded) = parse(a), parse(m)
    return abs(G.circ_diff(b, unr)) <= RND5


def point_close(lon, lat, ulon, ulat, tol):
    """east-west displacement is measured on the parallel, so a pole's arbitrary longitude is immaterial"""
    ew = abs(G.circ_diff(lon, ulon)) * max(math.cos(math.radians(lat)), 0.0)
    return abs(lat - ulat) <= tol and ew <= tol


def cmp_dest(a, m):
    if is_err(a) or is_err(m):
        return a == m
    x, y = parse(a), parse(m)
    ulon, ulat = y[0], y[1]
    return all(point_close(x[i], x[i + 1], ulon, ulat, RND7) for i in range(0, len(x), 2))


def cmp_points(a, m, tol=1e-10):
    if is_err(a) or is_err(m):
        return a == m
    x, y = parse(a), parse(m)
    return len(x) == len(y) and all(point_close(x[i], x[i + 1], y[i], y[i + 1], tol) for i in range(0, len(x), 2))


# --------------------------------------------------------------------------------------------------
# the property, stated with the independent oracle.  spec(line) returns the demanded value(s);
# SPEC_OK[op](impl_answer, spec_answer, line) decides.


def spec(line):
    cmd, *a = line.split()
    op = cmd.split('.', 1)[1]
    v = floats(a)
    if op in ('hav', 'xyz'):
        return enc(G.gc_dist(v[0], v[1], v[2], v[3]))
    if op in ('hav2', 'shift'):
        d = G.gc_dist(v[0], v[1], v[2], v[3])
        return enc(d, d)
    if op == 'bearing':
        return enc(G.azimuth(v[0], v[1], v[2], v[3]), G.gc_dist(v[0], v[1], v[2], v[3]))
    if op == 'dest':
        p = G.destination(v[0], v[1], v[2], v[3])
        return enc(*p, min(_cap(v[1]), _cap(p[1])))
    if op == 'destdeg':
        p = G.destination(v[0], v[1], math.radians(v[2]), v[3])
        return enc(*p, *p, min(_cap(v[1]), _cap(p[1])))
    if op == 'rot':
        out = []
        for i in range(3, len(v), 2):
            out += list(_rot_oracle(v[0], v[1], v[2], v[i], v[i + 1]))
        return enc(*out, _on_antimeridian(v[0], v[3::2]))
    if op == 'rot2':
        p = _rot_oracle(v[0], v[1], v[2] + v[3], v[4], v[5])
        return enc(*p, *p, _on_antimeridian(v[0], [v[4]]))
    return None


def _cap(lat):
    """metres to the nearer pole"""
    return G.R_EARTH * math.radians(90.0 - abs(lat))


def _on_antimeridian(olon, lons):
    """1.0 when a point lies exactly on lon -180 and is un-wrapped eastwards (F07e input class)"""
    return 1.0 if any(x == -180.0 and olon - x > 180 for x in lons) else 0.0


def _unwrap(olon, lon):
    """the copy of `lon` nearest to the origin's longitude (planar picture around the origin)"""
    d = lon - olon
    if d > 180:
        return lon - 360
    if d < -180:
        return lon + 360
    return lon


def _rot_oracle(olon, olat, deg, lon, lat):
    z = complex(_unwrap(olon, lon) - olon, lat - olat) * cmath.exp(1j * math.radians(deg))
    return olon + z.real, olat + z.imag


def why_dist(a, s):
    """each distance: a number in [0, pi R], within float tolerance of the great-circle distance;
    two distances on one line (symmetry, shift invariance) agree with each other"""
    if is_err(a):
        return bad(a)
    x, y = parse(a), parse(s)
    tol = G.dist_tol(y[0])
    if not all(0.0 <= d <= G.PI_R * (1 + 1e-15) for d in x):
        return 'range'
    if not all(abs(d - t) <= tol for d, t in zip(x, y)):
        return 'value'
    if len(x) == 2 and abs(x[0] - x[1]) > 2 * tol:
        return 'asymmetric-or-shift-dependent'
    return None


def why_self(a, s):
    if is_err(a):
        return bad(a)
    return None if parse(a)[0] == 0.0 else 'self-distance-nonzero'


def why_xyz(a, s):
    """never raises; the arccos form loses half the digits near 0 and pi: sqrt(2 ulp) * R = 0.13 m"""
    if is_err(a):
        return bad(a)
    (d,), (t,) = parse(a), parse(s)
    if not 0.0 <= d <= G.PI_R * (1 + 1e-15):
        return 'range'
    return None if abs(d - t) <= 0.25 else 'value'


def why_bearing(a, s):
    if is_err(a):
        return bad(a)
    (b,), (az, d) = parse(a), parse(s)
    if not 0.0 <= b < 360.0:
        return 'range'
    if d < 1.0 or d > G.PI_R - 1.0:
        return None          # azimuth undefined / unconditioned within 1 m of the point or of its antipode
    return None if abs(G.circ_diff(b, az)) <= RND5 + G.bearing_tol_deg(d) else 'value'


def why_dest(a, s):
    """every returned coordinate is a canonical coordinate within 2 cm of the oracle's destination (hence at
    the requested distance and initial bearing); both entry points return the identical coordinate"""
    if is_err(a):
        return bad(a)
    x, y = parse(a), parse(s)
    cap = y[-1]
    for i in range(0, len(x), 2):
        if not (-180.0 <= x[i] < 180.0 and -90.0 <= x[i + 1] <= 90.0):
            return 'range'
        if G.gc_dist(x[i], x[i + 1], y[i], y[i + 1]) > 0.02:
            return 'polar-cap' if cap < 1.0 else 'value'
    if len(x) == 4 and (x[0], x[1]) != (x[2], x[3]):
        return 'degrees-differs-from-radians'
    return None


def why_rot(a, s):
    """planar distance to the origin preserved, additive composition: judged through the oracle's rotated
    point (complex multiplication in the plane un-wrapped around the origin, which has both properties by
    construction) within 1e-9 degrees"""
    if is_err(a):
        return bad(a)
    x, y = parse(a), parse(s)
    flag, y = y[-1], y[:-1]
    if len(x) == len(y) and all(
            abs(G.circ_diff(x[i], y[i])) <= 1e-9 and abs(x[i + 1] - y[i + 1]) <= 1e-9 for i in range(0, len(x), 2)):
        return None
    return 'vertex-on-antimeridian' if flag else 'value'


WHY = {'hav': why_dist, 'hav2': why_dist, 'shift': why_dist, 'self': why_self, 'xyz': why_xyz, 'bearing': why_bearing,
       'dest': why_dest, 'destdeg': why_dest, 'rot': why_rot, 'rot2': why_rot}


def _ok(f):
    return lambda a, s: f(a, s) is None


SPEC_OK = {k: _ok(f) for k, f in WHY.items()}
CMP = {'hav': cmp_values, 'hav2': cmp_values, 'shift': cmp_values, 'xyz': cmp_values, 'bearing': cmp_bearing,
       'dest': cmp_dest, 'destdeg': cmp_dest, 'rot': cmp_points, 'rot2': cmp_points}
SITE = {'hav': 'haversine_distance_meters', 'hav2': 'haversine_distance_meters', 'shift': 'haversine_distance_meters',
        'xyz': 'dist_xyz_meters', 'bearing': 'bearing_degrees', 'dest': 'inverse_haversine_radians',
        'destdeg': 'inverse_haversine_radians', 'rot': 'rotate_coordinates', 'rot2': 'rotate_coordinates'}


def op_of(line):
    return line.split(' ', 1)[0].split('.', 1)[1]


def finding_key(line, a, s):
    """call site + failure predicate"""
    op = op_of(line)
    v = floats(line.split()[1:])
    why = (why_self if op == 'hav' and v[:2] == v[2:] else WHY[op])(a, s)
    site = 'inverse_haversine_degrees' if why == 'degrees-differs-from-radians' else SITE[op]
    return f'{site}/{why}'


def impl_for(_line):
    return impl


def spec_for(line):
    """replay prints impl / model / spec side by side and compares texts: echo the implementation's own
    answer when it satisfies the oracle within tolerance, else the oracle's value"""
    op = op_of(line)

    def f(ln):
        s = spec(ln)
        if s is None:
            return None
        try:
            a = impl(ln)
        except Exception as e:  # noqa
            a = common.err_name(e)
        v = floats(ln.split()[1:])
        ok = _ok(why_self) if op == 'hav' and v[:2] == v[2:] else SPEC_OK[op]
        return a if ok(a, s) else s
    return f


# --------------------------------------------------------------------------------------------------
# generators


def norm_lon(lon):
    return C(lon, 0.0).longitude


def gen_coord(rng):
    r = rng.random()
    if r < 0.35:
        return rng.uniform(-180, 180), rng.uniform(-90, 90)
    if r < 0.5:   # polar
        s = rng.choice([-1, 1])
        return rng.uniform(-180, 180), s * (90 - rng.choice([0.0, 1e-9, 1e-6, 1e-3, rng.uniform(0, 2)]))
    if r < 0.7:   # at / next to the antimeridian
        s = rng.choice([-1, 1])
        lon = s * (180 - rng.choice([0.0, 1e-9, 1e-6, rng.uniform(0, 0.5)]))
        return norm_lon(lon), rng.uniform(-85, 85)
    if r < 0.8:   # equator / prime meridian / dyadic
        return rng.choice([0.0, rng.randrange(-1440, 1440) / 8]), rng.choice([0.0, rng.randrange(-720, 721) / 8])
    return rng.uniform(-180, 180), rng.uniform(-75, 75)


def gen_pair(rng):
    """(kind, a, b)"""
    a = gen_coord(rng)
    r = rng.random()
    if r < 0.2:
        return 'random', a, gen_coord(rng)
    if r < 0.4:
        k = rng.choice([0.0, 1e-12, 1e-9, 1e-7, 1e-5, 1e-3])
        b = C(a[0] + rng.uniform(-k, k), max(-90.0, min(90.0, a[1] + rng.uniform(-k, k))))
        return ('identical' if k == 0.0 else 'near-coincident'), a, (b.longitude, b.latitude)
    if r < 0.6:
        k = rng.choice([0.0, 0.0, 1e-12, 1e-9, 1e-7, 1e-6, 1e-4, 1e-2])
        b = C(a[0] + 180 + rng.uniform(-k, k), max(-90.0, min(90.0, -a[1] + rng.uniform(-k, k))))
        return ('antipodal' if k == 0.0 else 'near-antipodal'), a, (b.longitude, b.latitude)
    if r < 0.7:
        s = rng.choice([-1, 1])
        return 'polar', a, (rng.uniform(-180, 180), s * rng.choice([90.0, 90 - 1e-9, 90 - 1e-5, rng.uniform(88, 90)]))
    if r < 0.85:
        lat1, lat2 = rng.uniform(-85, 85), rng.uniform(-85, 85)
        g1, g2 = rng.choice([0.0, 1e-9, rng.uniform(0, 0.5), rng.uniform(0, 40)]), rng.choice([1e-9, rng.uniform(0, 0.5), rng.uniform(0, 40)])
        a, b = (norm_lon(180 - g1), lat1), (norm_lon(-180 + g2), lat2)
        if rng.random() < 0.5:
            a, b = b, a
        return 'antimeridian-straddling', a, b
    if r < 0.93:
        return 'same-meridian', a, (a[0], rng.uniform(-90, 90))
    return 'same-parallel', a, (rng.uniform(-180, 180), a[1])


def gen_dist(rng):
    return 10 ** rng.uniform(0, math.log10(5e6))


CARDINALS = [0.0, 45.0, 90.0, 135.0, 180.0, 225.0, 270.0, 315.0, 360.0]


def gen_bearing_deg(rng):
    r = rng.random()
    if r < 0.5:
        return rng.choice(CARDINALS) + rng.choice([0.0, 1e-9, -1e-9, 1e-7, -1e-7, 4e-6, -4e-6, 5e-6, -5e-6, 6e-6, -6e-6])
    return rng.uniform(0, 360)


def check(run):
    run.prove(MODULE, THEOREMS)
    run.source_tie(['SrcCalc'], 'GeoVerif.Props.C07Src',
                   ['GV.C07Src.' + t for t in ('haversine_eq', 'bearing_eq', 'destination_eq', 'destinationDeg_eq')])
    # `Coordinate.xyz` / `_from_xyz` / `dist_xyz_meters` from the text (lists, zip, sum) against the model's triples
    run.source_tie(['SrcXyz'], 'GeoVerif.Props.C07SrcXyz', ['GV.C07SrcXyz.' + t for t in (
        'xyz_eq', 'pySumList_three', 'distXyz_eq', 'fromXyz_ok', 'fromXyz_eq', 'fromXyz_assert',
        'src_hav_eq_distXyz', 'src_distXyz_self', 'src_distXyz_symm')])
    rng = run.rng
    kinds = {}

    def tagger(stream):
        return lambda ln, a: [f'{stream}:{kinds.get(ln, "-")}' + (':' + a if is_err(a) else '')]

    asked = []          # (stream, line, answer) of everything asked in this process, in order

    def go(stream, op, lines):
        lines = list(lines)
        out = run.run_cases(stream, lines, impl, spec, compare=CMP.get(op), spec_compare=SPEC_OK[op],
                            known_key=finding_key, tag=tagger(stream))
        asked.extend((stream, ln, a) for ln, a in zip(lines, out or []))
        return out

    # 0. corpus: the witnesses of the repaired defects F07a-e, always run first
    cpath = common.os.path.join(common.CORPUS_DIR, 'C07.txt')
    if common.os.path.exists(cpath):
        by_op = {}
        for ln in open(cpath):
            ln = ln.strip()
            if ln and not ln.startswith('#'):
                by_op.setdefault(op_of(ln), []).append(ln)
        for op, lns in by_op.items():
            go('corpus', op, lns)

    # 0b. whole-degree lattice: every ordered pair of the 7 x 7 lattice -3..3 (CPython: hash(-1.0) == hash(-2.0)) through
    #     every function family, plus other exactly integral degrees (poles, +-180, +-90, +-45 …) and +-0.0
    lat7 = [(float(x), float(y)) for x in range(-3, 4) for y in range(-3, 4)]
    special = [(-0.0, 0.0), (0.0, -0.0), (-0.0, -0.0), (-180.0, 0.0), (-180.0, -1.0), (179.0, 2.0), (-179.0, -2.0), (90.0, 45.0),
               (-90.0, -45.0), (45.0, 90.0), (-1.0, -90.0), (-2.0, 89.0), (10.0, 60.0), (-120.0, -60.0), (1.0, -1.0), (2.0, -2.0)]
    l_hav, l_xyz, l_brg = [], [], []
    pairs = [(a, b) for a in lat7 for b in lat7]
    pairs += [(rng.choice(lat7 + special), rng.choice(special)) for _ in range(run.scale(300, 3000))]
    pairs += [((float(rng.randrange(-180, 180)), float(rng.randrange(-90, 91))), (float(rng.randrange(-180, 180)), float(rng.randrange(-90, 91))))
              for _ in range(run.scale(300, 20000))]
    if run.quick:
        keep = set(rng.sample(range(len(pairs)), len(pairs) // 2))
    for i, (a, b) in enumerate(pairs):
        for lst, op in ((l_xyz, 'xyz'), (l_hav, 'hav2'), (l_brg, 'bearing')):
            if op != 'xyz' and run.quick and i not in keep:
                continue            # quick tier: every pair through dist_xyz, half of them through the other two
            ln = f'gd.{op} {enc(a[0], a[1], b[0], b[1])}'
            kinds[ln] = 'lattice'
            lst.append(ln)
    l_dest, l_deg, l_rot, l_rot2 = [], [], [], []
    for _ in range(run.scale(400, 8000)):
        a = rng.choice(lat7 + special[:3] + special[5:7] + special[12:])
        bd = float(rng.choice([0, 45, 90, 135, 180, 225, 270, 315, 360, -1, -2, 1, 2]))
        d = rng.choice([1.0, 2.0, 1000.0, G.R_EARTH * math.radians(1.0), G.R_EARTH * math.radians(2.0), 5e6])
        l_dest.append(f'gd.dest {enc(a[0], a[1], math.radians(bd), d)}')
        l_deg.append(f'gd.destdeg {enc(a[0], a[1], bd, d)}')
        o, p, q = rng.choice(lat7), rng.choice(lat7), rng.choice(lat7)
        deg = float(rng.choice([0, 90, 180, 270, -90, 45, -1, -2, 1, 2, 360]))
        l_rot.append(f'gd.rot {enc(o[0], o[1], deg, p[0], p[1], q[0], q[1])}')
        l_rot2.append(f'gd.rot2 {enc(o[0], o[1], deg, float(rng.choice([-2, -1, 1, 2, 90])), p[0], p[1])}')
    for ln in l_dest + l_deg + l_rot + l_rot2:
        kinds[ln] = 'lattice'
    # (the lattice questions are asked first in the streams of their function below: one model driver per function)

    # 1. distance: both argument orders on one line (value, symmetry, range)
    n = run.scale(5000, 200000)
    lines, selfs, xyzs = [], [], []
    for _ in range(n):
        kind, a, b = gen_pair(rng)
        ln = f'gd.hav2 {enc(a[0], a[1], b[0], b[1])}'
        kinds[ln] = kind
        lines.append(ln)
        if kind == 'identical' and (a == b):
            s = f'gd.hav {enc(a[0], a[1], a[0], a[1])}'
            kinds[s] = 'identical'
            selfs.append(s)
        x = f'gd.xyz {enc(a[0], a[1], b[0], b[1])}'
        kinds[x] = kind
        xyzs.append(x)
    for _ in range(run.scale(300, 5000)):
        a = gen_coord(rng)
        s = f'gd.hav {enc(a[0], a[1], a[0], a[1])}'
        kinds[s] = 'identical'
        selfs.append(s)
        x = f'gd.xyz {enc(a[0], a[1], a[0], a[1])}'
        kinds[x] = 'identical'
        xyzs.append(x)
    go('distance-both-orders', 'hav2', l_hav + lines)
    run.run_cases('distance-self-zero', selfs, impl, spec, compare=cmp_values, spec_compare=_ok(why_self),
                  known_key=finding_key, tag=tagger('self'))
    go('dist-xyz', 'xyz', l_xyz + xyzs)

    # 2. common longitude shift (through the normalising constructor, i.e. also across the antimeridian)
    lines = []
    for _ in range(run.scale(2000, 60000)):
        kind, a, b = gen_pair(rng)
        s = rng.choice([rng.uniform(-360, 360), 180.0, 360.0, -180.0, 180 - a[0], -180 - b[0], rng.randrange(-2880, 2880) / 8])
        a2, b2 = norm_lon(a[0] + s), norm_lon(b[0] + s)
        ln = f'gd.shift {enc(a[0], a[1], b[0], b[1], a2, b2)}'
        wrapped = (abs(a[0] - b[0]) > 180) != (abs(a2 - b2) > 180)
        kinds[ln] = kind + ('/wrap-changes' if wrapped else '')
        lines.append(ln)
    go('distance-lon-shift', 'shift', lines)

    # 3. bearing: pairs placed by the oracle at and around the cardinal directions, plus generic pairs
    lines = []
    for _ in range(run.scale(3000, 80000)):
        if rng.random() < 0.6:
            a = gen_coord(rng)
            if abs(a[1]) > 89.5:
                a = (a[0], rng.uniform(-89, 89))
            bd = gen_bearing_deg(rng)
            d = gen_dist(rng)
            lon, lat = G.destination(a[0], a[1], math.radians(bd), d)
            b = C(lon, lat)
            b = (b.longitude, b.latitude)
            kind = 'placed:' + ('cardinal' if min(abs(bd - c) for c in CARDINALS) < 1e-5 else 'any')
        else:
            kind, a, b = gen_pair(rng)
        ln = f'gd.bearing {enc(a[0], a[1], b[0], b[1])}'
        kinds[ln] = kind
        lines.append(ln)
    go('bearing', 'bearing', l_brg + lines)

    # 4. destination, radian and degree entry points
    lines_r, lines_d = [], []
    for _ in range(run.scale(2000, 50000)):
        a = gen_coord(rng)
        bd = gen_bearing_deg(rng)
        r = rng.random()
        if r < 0.1 and abs(a[1]) < 90:   # exactly onto a pole
            north = rng.random() < 0.5
            bd = 0.0 if north else 180.0
            d = G.R_EARTH * math.radians(90 - a[1] if north else 90 + a[1])
            kind = 'onto-pole'
        else:
            d = gen_dist(rng)
            kind = 'cardinal' if min(abs(bd - c) for c in CARDINALS) < 1e-5 else 'any'
        if abs(a[1]) > 89.9:
            kind += '/from-pole'
        l1 = f'gd.dest {enc(a[0], a[1], math.radians(bd), d)}'
        l2 = f'gd.destdeg {enc(a[0], a[1], bd, d)}'
        kinds[l1] = kinds[l2] = kind
        lines_r.append(l1)
        lines_d.append(l2)
    go('destination-radians', 'dest', l_dest + lines_r)
    go('destination-degrees-vs-radians', 'destdeg', l_deg + lines_d)

    # 5. rotation about an origin: planar distance preserved, additive composition (I5: |lat| stays < 90)
    lines1, lines2 = [], []
    for _ in range(run.scale(1500, 40000)):
        olat = rng.uniform(-60, 60)
        on_am = rng.random() < 0.04   # a point exactly on the antimeridian, origin just east or west of it
        if on_am:
            olon = norm_lon(rng.choice([-1, 1]) * (180 - rng.uniform(0.01, 0.5)))
            rad = rng.uniform(0.6, 2.0)
        else:
            olon = rng.choice([rng.uniform(-180, 180), norm_lon(180 - rng.uniform(0, 0.5)), norm_lon(-180 + rng.uniform(0, 0.5)), 0.0])
            rad = 10 ** rng.uniform(-4, 1.3)
        pts = []
        for _k in range(rng.choice([1, 1, 3])):
            t = rng.uniform(0, 2 * math.pi)
            p = C(olon + rad * math.cos(t), olat + rad * math.sin(t))
            pts += [p.longitude, p.latitude]
        if on_am:
            pts[0], pts[1] = -180.0, olat + rng.uniform(-0.5, 0.5)
        far = (not on_am) and rng.random() < 0.08   # a point 150..210 degrees of longitude away, small turn
        if far:
            olat = rng.uniform(-20, 20)
            # (not within 8 degrees of the 180-degree un-wrapping seam: a rotation that carries the point across it is
            # re-un-wrapped by the next call and the planar picture around the origin changes)
            p = C(olon + rng.choice([-1, 1]) * rng.choice([rng.uniform(150, 172), rng.uniform(188, 210)]), olat + rng.uniform(-5, 5))
            pts = [p.longitude, p.latitude]
        deg = rng.choice([rng.uniform(-720, 720), 90.0, 180.0, 0.0, -90.0, 360.0, 45.0])
        if far:
            deg = rng.uniform(-12, 12)
        ln = f'gd.rot {enc(olon, olat, deg, *pts)}'
        straddle = any(abs(pts[i] - olon) > 180 for i in range(0, len(pts), 2))
        kinds[ln] = ('straddling' if straddle else 'plain') + ('/on-antimeridian' if -180.0 in pts[0::2] else '') + ('/far' if far else '')
        lines1.append(ln)
        al, be = rng.uniform(-360, 360), rng.uniform(-360, 360)
        if far:
            al, be = rng.uniform(-6, 6), rng.uniform(-6, 6)
        l2 = f'gd.rot2 {enc(olon, olat, al, be, pts[0], pts[1])}'
        kinds[l2] = kinds[ln]
        lines2.append(l2)
    go('rotation', 'rot', l_rot + lines1)
    go('rotation-composition', 'rot2', l_rot2 + lines2)

    # 6. no memory: the same questions in a fresh interpreter, in another order, must get the same answers bit for bit
    #    (module-level caches keyed by value / hash / id, defaults mutated in place, per-object caches that travel)
    sample = [t for i, t in enumerate(asked) if kinds.get(t[1]) == 'lattice' or t[0] == 'corpus' or i % run.scale(6, 12) == 0]
    rng.shuffle(sample)
    second = other_process([t[1] for t in sample])
    run.evaluations += len(sample)
    run.stream_counts['fresh-process-other-order'] += len(sample)
    for (stream, ln, a), b in zip(sample, second):
        if a != b:
            run.report(f'{SITE[op_of(ln)]}/answer-depends-on-call-history',
                       f'fresh-process-other-order: {stream} answered {a[:60]} in this process and {b[:60]} in a fresh one',
                       {'stream': 'fresh-process-other-order', 'line': ln, 'impl': a, 'spec': b})
    run.note(f'fresh-process-other-order: {len(sample)} questions re-asked in a new interpreter in shuffled order')

    return run.finish(
        rule='a case is one protocol line (coordinate pair / start+bearing+distance / origin+angle+points); pairs are '
             'drawn per class (random, identical, near-coincident 1e-12..1e-3 deg, exactly and nearly antipodal, polar, '
             'antimeridian-straddling, same meridian/parallel), bearings at and +-1e-9..6e-6 deg around the eight '
             'cardinal directions, distances log-uniform 1 m..5000 km, destinations exactly onto a pole, longitude '
             'shifts that move one or both points across the antimeridian; every ordered pair of the whole-degree lattice '
             '-3..3 x -3..3, other integral degrees (poles, +-180, +-90, +-45) and +-0.0 through every function (class '
             '`lattice`); the class histogram is in `histogram`. '
             'All cases are non-trivial; distinct by line.',
        assumptions=['a calculator has no memory: every question is asked twice in-process, the second time after look-alike '
                     'coordinates (unit steps, doubles/halves, sign flips, swapped axes, equal CPython hash such as -1.0 / -2.0, '
                     'same position with Z/M, -0.0) were built and all their cached / derived attributes computed (answer '
                     'STATE:… if it changes); every dist_xyz question also checks symmetry, a repeated call and agreement with '
                     'haversine on the same objects (0.25 m); a sample incl. all whole-degree-lattice questions is re-asked in '
                     'a fresh interpreter in shuffled order and must match bit for bit (stream fresh-process-other-order)',
                     'IEEE-754 binary64 and libm (sin, cos, asin, acos, atan2, sqrt) are shared by CPython and the Lean '
                     'runtime; float rounding error itself is measured (impl vs un-rounded model, impl vs oracle), not proved',
                     'the theorems are about the real-number semantics (Num instance at R) of the formula the Float '
                     'instance executes; round_half_up is an arbitrary function in the theorems',
                     'oracle tolerances: distances 1e-6 m (+2e-8 m / angular gap to the antipode), dist_xyz 0.25 m '
                     '(arccos conditioning), destination 2 cm, bearing 0.5e-5 deg rounding + conditioning'],
        checker_cmd='cd lean && lake build GeoVerif.Props.C07 && lake env lean .lake/audit/C07.lean  (#print axioms)')


def other_process(lines):
    """answers of a fresh interpreter (same repo, same TZ) to `lines` in the given order"""
    import subprocess
    import sys
    if not lines:
        return []
    p = subprocess.run([sys.executable, '-W', 'ignore', common.os.path.abspath(__file__), '--worker'],
                       input='\n'.join(lines) + '\n', capture_output=True, text=True, timeout=3000)
    outs = p.stdout.split('\n')
    if outs and outs[-1] == '':
        outs.pop()
    if p.returncode != 0 or len(outs) != len(lines):
        raise common.InfraError(f'second interpreter: rc={p.returncode}, {len(outs)} answers for {len(lines)} lines; {p.stderr[-800:]}')
    return outs


if __name__ == '__main__':
    import sys
    if '--worker' in sys.argv:
        common.import_repo()
        for _ln in sys.stdin:
            _ln = _ln.strip()
            if not _ln:
                continue
            try:
                print(impl(_ln))
            except Exception as _e:  # noqa
                print(common.err_name(_e))
