"""C08 — coordinates are stored in canonical form denoting the same point; ==/hash agree; Z survives;
unit-vector round trip."""
import math
from fractions import Fraction

import common
from common import rat, fbits, unfbits, tf

MODULE = 'GeoVerif.Props.C08'
THEOREMS = ['GV.C08.' + t for t in (
    'norm_range', 'latLoop_fuel_irrelevant', 'lonLoop_fuel_irrelevant', 'norm_id_in_range', 'norm_idem',
    'new_idem', 'latStep_same_point', 'lonStep_same_point', 'norm_same_point',
    'eq_iff', 'eq_imp_hash', 'hash_iff_eq', 'eq_ignores_m', 'hash_ignores_m', 'eq_refl', 'eq_symm', 'eq_trans',
    'eq_sees_z', 'z_survives', 'z_exported', 'no_z_no_field', 'export_lonlat',
    'fromXyz_xyz', 'fromXyz_xyz_antimeridian', 'fromXyz_pole', 'fromXyz_xyz_stored')]

ULP180 = Fraction(1, 2 ** 45)          # one ulp of 180.0


# ---- protocol tokens -------------------------------------------------------------------------------

def ftok(x):
    return 'f:' + fbits(x)


def itok(n):
    return f'i:{int(n)}'


def stok(text):
    """a numeric (or not) Python str; blanks are written `~`"""
    enc = text.replace(' ', '~')
    try:
        v = float(text)
    except ValueError:
        return f's:{enc}@bad'
    if v != v or v in (math.inf, -math.inf):
        raise AssertionError('non-finite input is outside the property')
    return f's:{enc}@{fbits(v)}'


def tok_value(t):
    """token -> the Python object handed to Coordinate(...)"""
    if t == '-':
        return None
    k, _, body = t.partition(':')
    if k == 'f':
        return unfbits(body)
    if k == 'i':
        return int(body)
    if k == 's':
        return body.rsplit('@', 1)[0].replace('~', ' ')
    raise ValueError('bad token ' + t)


def tok_exact(t):
    """token -> exact Fraction the constructor's float() denotes (None for `-`, ValueError for @bad)"""
    if t == '-':
        return None
    k, _, body = t.partition(':')
    if k == 'f':
        return Fraction(unfbits(body))
    if k == 'i':
        return Fraction(float(int(body)))
    h = body.rsplit('@', 1)[1]
    if h == 'bad':
        raise ValueError('not numeric')
    return Fraction(unfbits(h))


def orat(v):
    return '-' if v is None else rat(v)


# ---- implementation side ---------------------------------------------------------------------------

def _coord(a, bounded=True):
    from geostructures.coordinates import Coordinate
    lon, lat = tok_value(a[0]), tok_value(a[1])
    z = tok_value(a[2]) if len(a) > 2 else None
    m = tok_value(a[3]) if len(a) > 3 else None
    return Coordinate(lon, lat, z, m, _bounded=bounded)


_TIMEOUTS = {'n': 0}


def impl(line):
    """after three watchdog time-outs (a constructor loop that no longer terminates) every further call gets
    50 ms instead of the framework's 2-10 s, so a broken loop is reported in seconds, not hours"""
    # (the framework's own patience ends after five confirmed time-outs: common.Run.call_impl)
    try:
        return _impl(line)
    except common.ImplTimeout:
        _TIMEOUTS['n'] += 1
        raise


def _impl(line):
    from geostructures.coordinates import Coordinate
    cmd, *a = line.split()
    op = cmd.split('.', 1)[1]
    if op in ('norm', 'norm2'):
        b = a[0] == 'b'
        c = _coord(a[1:3], b)
        if op == 'norm2':
            c = Coordinate(c.longitude, c.latitude, _bounded=b)
        # NB the 180 -> -180 rewrite stores the int -180 (numerically and hash-equal to -180.0): not claimed
        return f'{rat(c.longitude)} {rat(c.latitude)}'
    if op == 'eqhash':
        x, y = _coord(a[0:4]), _coord(a[4:8])
        if not (x == y):
            return 'F -' if (x != y) else 'F!ne'
        return 'T ' + tf(hash(x) == hash(y) and len({x, y}) == 1 and not (x != y))
    if op == 'eqother':
        x = _coord(a[0:4])
        return tf(any(x == o for o in (None, 0, (x.longitude, x.latitude), 'c', [x.longitude, x.latitude])))
    if op == 'zsurv':
        c = _coord(a[1:5])
        rev = a[0] == 'T'
        f, s = c.to_float(rev), c.to_str(rev)
        if not (isinstance(f, tuple) and isinstance(s, tuple) and all(isinstance(x, str) for x in s)):
            return 'TYPE!'
        return (f'z={orat(c.z)} m={orat(c.m)} F {" ".join(rat(x) for x in f)} '
                f'S {" ".join(rat(float(x)) for x in s)}')
    if op == 'xyz':
        c = _coord(a[0:2])
        return ' '.join(fbits(v) for v in c.xyz)
    if op == 'xyzrt':
        c = _coord(a[0:2])
        c2 = Coordinate._from_xyz(c.xyz)
        return f'{rat(c2.longitude)} {rat(c2.latitude)}' + inv_suffix(c2)
    if op == 'fromxyz':
        c2 = Coordinate._from_xyz([vec_value(a[0], t) for t in a[1:4]])
        return f'{rat(c2.longitude)} {rat(c2.latitude)}' + inv_suffix(c2)
    if op == 'out':
        return impl_out(a)
    raise ValueError('unknown op ' + op)


# ---- normal-form invariants of a Coordinate that came into existence by any route --------------------

def inv_fail(c):
    """None, or which normal-form invariant the coordinate object violates: stored range, being a fixed point of
    the constructor, ==/hash agreement with the constructor-built coordinate of the same fields, and a cached
    unit vector that is the one of the stored lon/lat"""
    from geostructures.coordinates import Coordinate
    lon, lat = c.longitude, c.latitude
    if not (isinstance(lon, (int, float)) and isinstance(lat, (int, float))) or lon != lon or lat != lat:
        return 'value'
    if not (-180 <= lon < 180 and -90 <= lat <= 90):
        return 'range'
    c2 = Coordinate(lon, lat, c.z, c.m)
    if c2.longitude != lon or c2.latitude != lat:
        return 'idem'
    if not (c == c2 and c2 == c and not (c != c2) and hash(c) == hash(c2) and len({c, c2}) == 1):
        return 'eqhash'
    if 'xyz' in getattr(c, '__dict__', {}):
        if any(abs(p - q) > 1e-12 for p, q in zip(c.__dict__['xyz'], c2.xyz)):
            return 'stale-xyz'
    return None


def inv_suffix(c):
    f = inv_fail(c)
    return f' !{f}' if f else ''


def vec_value(kind, tok):
    """component of a vector handed to _from_xyz: Python float, int, numpy float64 or numpy longdouble (the
    circumcentre code passes longdoubles)"""
    x = unfbits(tok)
    if kind == 'i' and float(x).is_integer():
        return int(x)
    if kind == 'n':
        import numpy as np
        return np.float64(x)
    if kind == 'l':
        import numpy as np
        return np.longdouble(x)
    return x


def harvest(obj, out, seen, depth=0):
    """every Coordinate reachable from a result (containers, shape objects and their caches)"""
    from geostructures.coordinates import Coordinate
    if id(obj) in seen or depth > 9:
        return
    seen.add(id(obj))
    if isinstance(obj, Coordinate):
        out.append(obj)
        return
    if isinstance(obj, (str, bytes, int, float, bool, type(None))):
        return
    if isinstance(obj, dict):
        for v in obj.values():
            harvest(v, out, seen, depth + 1)
        return
    if isinstance(obj, (list, tuple, set, frozenset)):
        for v in obj:
            harvest(v, out, seen, depth + 1)
        return
    if type(obj).__module__.startswith('geostructures') and hasattr(obj, '__dict__'):
        for v in list(vars(obj).values()):
            harvest(v, out, seen, depth + 1)


def _mk_shape(kind, lon, lat, size):
    from geostructures import (Coordinate, GeoBox, GeoCircle, GeoEllipse, GeoLineString, GeoPoint, GeoPolygon,
                               GeoRing, MultiGeoLineString, MultiGeoPoint, MultiGeoPolygon)
    from geostructures.collections import FeatureCollection
    C = Coordinate
    d = size
    if kind == 'poly':
        return GeoPolygon([C(lon - d, lat - d), C(lon + d, lat - d), C(lon + d, lat + d), C(lon - d, lat + d)])
    if kind == 'polyhole':
        h = GeoPolygon([C(lon - d / 2, lat - d / 2), C(lon + d / 2, lat - d / 2), C(lon, lat + d / 2)])
        return GeoPolygon([C(lon - d, lat - d), C(lon + d, lat - d), C(lon + d, lat + d), C(lon - d, lat + d)], holes=[h])
    if kind == 'tri':
        return GeoPolygon([C(lon - d, lat), C(lon + d, lat), C(lon, lat + d)])
    if kind == 'cap':                      # a ring of vertices around the nearer pole
        la = (90 - d) if lat >= 0 else -(90 - d)
        return GeoPolygon([C(lon + k * 90, la) for k in range(4)])
    if kind == 'box':
        return GeoBox(C(lon - d, lat + d), C(lon + d, lat - d))
    if kind == 'circle':
        return GeoCircle(C(lon, lat), d * 111000)
    if kind == 'ellipse':
        return GeoEllipse(C(lon, lat), d * 111000, d * 55000, 30)
    if kind == 'ring':
        return GeoRing(C(lon, lat), d * 50000, d * 111000)
    if kind == 'wedge':
        return GeoRing(C(lon, lat), d * 50000, d * 111000, angle_min=200, angle_max=340)
    if kind == 'line2':
        return GeoLineString([C(lon - d, lat), C(lon + d, lat)])
    if kind == 'line3':
        return GeoLineString([C(lon - d, lat - d / 3), C(lon + d, lat), C(lon + d / 2, lat + d)])
    if kind == 'point':
        return GeoPoint(C(lon, lat))
    if kind == 'mpoint':
        return MultiGeoPoint([GeoPoint(C(lon - d, lat)), GeoPoint(C(lon + d, lat)), GeoPoint(C(lon, lat + d))])
    if kind == 'mline':
        return MultiGeoLineString([_mk_shape('line2', lon, lat, d), _mk_shape('line3', lon, lat, d)])
    if kind == 'mpoly':
        return MultiGeoPolygon([_mk_shape('tri', lon - d, lat, d / 2), _mk_shape('poly', lon + d, lat, d / 2)])
    if kind == 'coll':
        return FeatureCollection([_mk_shape('tri', lon - d, lat, d / 2), _mk_shape('point', lon + d, lat, d),
                                  _mk_shape('line2', lon, lat, d)])
    raise ValueError('shape kind ' + kind)


OBSERVERS = ('centroid', 'bounding_coords', 'bounding_edges', 'edges', 'linear_rings', 'segments',
             'circumscribing_circle', 'circumscribing_rectangle', 'convex_hull', 'to_polygon', 'copy', 'split',
             'wkt', 'geojson', 'shapely', 'bounding_coords_k')


def _observe(shape, name):
    if name == 'wkt':
        return type(shape).from_wkt(shape.to_wkt())
    if name == 'geojson':
        return type(shape).from_geojson(shape.to_geojson())
    if name == 'shapely':
        return type(shape).from_shapely(shape.to_shapely())
    if name == 'bounding_coords_k':
        return shape.bounding_coords(k=7)
    v = getattr(shape, name)
    return v() if callable(v) else v


def impl_out(a):
    """np.out <scenario> <args>: call public functions that RETURN coordinates (or objects holding coordinates) on
    inputs on / straddling the antimeridian and the poles, and test every coordinate object that comes back
    against the normal-form invariants.  Answer `ok <number of coordinates examined>` or the first violation."""
    from geostructures.coordinates import Coordinate
    from geostructures import calc
    sc = a[0]
    v = [float(Fraction(t)) for t in a[1:] if t[0] in '-0123456789']
    results, errors = [], 0
    if sc == 'dest':
        start = Coordinate(v[0], v[1], z=0.0)
        results.append(('deg', calc.inverse_haversine_degrees(start, v[2], v[3])))
        results.append(('rad', calc.inverse_haversine_radians(start, math.radians(v[2]), v[3])))
    elif sc == 'rot':
        pts = [Coordinate(v[0], v[1]), Coordinate(v[0] + 0.5, v[1] - 0.25, 5.0)]
        results.append(('rot', calc.rotate_coordinates(pts, Coordinate(v[2], v[3]), v[4])))
    elif sc == 'parse':
        from geostructures import GeoPoint
        lon, lat = v[0], v[1]
        results.append(('wkt', Coordinate.from_wkt(f'{lon!r} {lat!r}')))
        results.append(('wktz', Coordinate.from_wkt(f'{lon!r} {lat!r} 0.0')))
        results.append(('pt', GeoPoint.from_wkt(f'POINT ({lon!r} {lat!r})')))
        results.append(('gj', GeoPoint.from_geojson({'type': 'Feature', 'properties': {},
                                                     'geometry': {'type': 'Point', 'coordinates': [lon, lat]}})))
        c = Coordinate(lon, lat)
        results.append(('dms', Coordinate.from_dms(*c.to_dms())))
        results.append(('qdms', Coordinate.from_qdms(*c.to_qdms())))
        ad, sd = abs(lon), abs(lat)
        if ad <= 180 and sd <= 90:
            results.append(('dms2', Coordinate.from_dms((int(ad), int(ad % 1 * 60), 0.0, 'E' if lon >= 0 else 'W'),
                                                        (int(sd), int(sd % 1 * 60), 0.0, 'N' if lat >= 0 else 'S'))))
        results.append(('mgrs', Coordinate.from_mgrs(c.to_mgrs())))
        from pyproj import Transformer
        for crs in ('EPSG:3857', 'EPSG:4326'):
            if crs == 'EPSG:3857' and abs(c.latitude) > 85:
                continue
            x, y = Transformer.from_crs('EPSG:4326', crs).transform(c.latitude, c.longitude if lon != 180 else 180.0)
            results.append((crs, Coordinate.from_projection(y, x, crs)))
    else:
        shape = _mk_shape(sc, v[0], v[1], v[2])
        for name in OBSERVERS:
            try:
                if name in ('wkt', 'geojson', 'shapely', 'bounding_coords_k') or hasattr(shape, name):
                    results.append((name, _observe(shape, name)))
            except common.ImplTimeout:
                raise
            except Exception:                                  # noqa: what an observer cannot do is not C08's business
                errors += 1
        results.append(('self', shape))                        # incl. whatever the calls above cached on it
    n = 0
    for name, r in results:
        found = []
        harvest(r, found, set())
        for c in found:
            n += 1
            f = inv_fail(c)
            if f:
                return f'{name}: {c!r} !{f}'
    return f'ok {n}'


# ---- the property, stated independently of the model (closed form, exact fractions) --------------------

def canon(lon, lat):
    """the canonical representative of the point (lon, lat) on the sphere: latitude by the triangle wave of
    period 360, longitude shifted half a turn on the descending branches and reduced into [-180, 180)"""
    t = (lat + 90) % 360
    if t <= 180:
        la, shift = t - 90, 0
    else:
        la, shift = 270 - t, 180
    lo = (lon + shift + 180) % 360 - 180
    return lo, la


def is_exception_class(lon, lat):
    """pole-crossing input whose longitude is off the 2^-45 grid: the float `lon ± 180` rounds (DESIGN §3)"""
    return abs(lat) > 90 and (lon * 2 ** 45).denominator != 1


def circ(d):
    d = abs(d) % 360
    return min(d, 360 - d)


def spec(line):
    cmd, *a = line.split()
    op = cmd.split('.', 1)[1]
    try:
        if op in ('norm', 'norm2'):
            if a[0] != 'b':
                return None                     # `_bounded=False` is internal; correspondence only
            lon, lat = tok_exact(a[1]), tok_exact(a[2])
            lo, la = canon(lon, lat)
            return f'{rat(lo)} {rat(la)}' + (' ~' if is_exception_class(lon, lat) else '')
        if op == 'eqhash':
            x = canon(tok_exact(a[0]), tok_exact(a[1])) + (tok_exact(a[2]),)
            y = canon(tok_exact(a[4]), tok_exact(a[5])) + (tok_exact(a[6]),)
            if abs(x[1]) == 90 or abs(y[1]) == 90:
                return None                     # at a pole the stored longitude is not determined by the point
            return 'T T' if x == y else 'F -'
        if op == 'eqother':
            return 'F'
        if op == 'zsurv':
            lo, la = canon(tok_exact(a[1]), tok_exact(a[2]))
            if abs(la) == 90:
                return None
            z, m = tok_exact(a[3]), tok_exact(a[4])
            out = [la, lo] if a[0] == 'T' else [lo, la]
            out += [v for v in (z, m) if v is not None]
            s = ' '.join(rat(v) for v in out)
            return f'z={orat(z)} m={orat(m)} F {s} S {s}'
        if op == 'xyz':
            lon, lat = float(tok_exact(a[0])), float(tok_exact(a[1]))
            rl, ro = math.radians(lat), math.radians(lon)
            return ' '.join(fbits(v) for v in (math.cos(rl) * math.cos(ro), math.cos(rl) * math.sin(ro), math.sin(rl)))
        if op == 'xyzrt':
            lo, la = canon(tok_exact(a[0]), tok_exact(a[1]))
            return f'{rat(lo)} {rat(la)}'
        if op == 'fromxyz':
            x, y, z = (unfbits(t) for t in a[1:4])
            if abs(z) > 1:
                return None                     # not a unit vector: asin is undefined, nothing is claimed
            return 'vec ' + ' '.join(a[1:4])
        if op == 'out':
            return 'ok'
    except ValueError:
        return 'ERR:Value'
    return None


def _pair(s):
    p = s.split()
    return Fraction(p[0]), Fraction(p[1])


def norm_spec_compare(a, s):
    """impl answer vs closed form: latitude exact; longitude exact unless at a pole (any longitude in range
    denotes the pole) or in the documented rounding class (`~`: one ulp of 180, circularly)"""
    if a == s:
        return True
    if a.startswith('ERR') or s.startswith('ERR') or a in ('TIMEOUT', 'TYPE!'):
        return False
    lo, la = _pair(a)
    slo, sla = _pair(s)
    if la != sla or not (-180 <= lo < 180):
        return False
    if abs(sla) == 90:
        return True
    if s.endswith('~'):
        return circ(lo - slo) <= ULP180
    return lo == slo


def norm_model_compare_tolerant(a, m):
    if a == m:
        return True
    if a.startswith('ERR') or m.startswith('ERR') or a in ('TIMEOUT', 'TYPE!'):
        return False
    lo, la = _pair(a)
    mlo, mla = _pair(m)
    return la == mla and circ(lo - mlo) <= ULP180


def _vec(s):
    return [unfbits(t) for t in s.split()]


def xyz_compare(tol):
    def cmp(a, b):
        if a == b:
            return True
        if not (a.startswith('x') and b.startswith('x')):
            return False
        return all(abs(p - q) <= tol for p, q in zip(_vec(a), _vec(b)))
    return cmp


def _xyz_of(lo, la):
    rl, ro = math.radians(float(la)), math.radians(float(lo))
    return (math.cos(rl) * math.cos(ro), math.cos(rl) * math.sin(ro), math.sin(rl))


def fromxyz_spec_compare(a, s):
    """the coordinate made from a vector: normal form (no `!` suffix), and – for a unit vector – the point the
    vector denotes (latitude always; longitude only away from the poles, where it is determined)"""
    if a.startswith('ERR') or a in ('TIMEOUT', 'TYPE!') or '!' in a:
        return False
    x, y, z = (unfbits(t) for t in s.split()[1:4])
    lo, la = _pair(a)
    if not (-180 <= lo < 180 and -90 <= la <= 90):
        return False
    n = math.sqrt(x * x + y * y + z * z)
    if abs(math.degrees(math.asin(max(-1.0, min(1.0, z)))) - float(la)) > 1e-9:
        return False
    if abs(n - 1) > 1e-9 or math.hypot(x, y) < 1e-6:
        return True
    return math.dist(_xyz_of(lo, la), (x / n, y / n, z / n)) <= 1e-9


def xyzrt_compare(chord_tol, deg_tol):
    def cmp(a, b):
        if a == b:
            return True
        if a.startswith('ERR') or b.startswith('ERR') or a in ('TIMEOUT', 'TYPE!') or '!' in a or '!' in b:
            return False
        (lo, la), (blo, bla) = _pair(a), _pair(b)
        if not (-180 <= lo < 180 and -90 <= la <= 90):
            return False
        if math.dist(_xyz_of(lo, la), _xyz_of(blo, bla)) > chord_tol:
            return False
        if abs(bla) <= 89:
            return abs(la - bla) <= deg_tol and circ(lo - blo) <= deg_tol
        return True
    return cmp


def impl_for(_line):
    return impl


def spec_for(_line):
    return spec


# ---- generators -------------------------------------------------------------------------------------

def ulp_neighbours(x):
    return [math.nextafter(x, -math.inf), float(x), math.nextafter(x, math.inf)]


def as_tokens(rng, x, kinds='fis'):
    """the same number as float / int (when integral) / str token(s)"""
    out = []
    if 'f' in kinds:
        out.append(ftok(x))
    if 'i' in kinds and float(x).is_integer() and abs(x) < 2 ** 53:
        out.append(itok(int(x)))
    if 's' in kinds:
        forms = [repr(float(x))]
        if float(x).is_integer() and abs(x) < 1e15:
            forms += [str(int(x)), '+' + str(int(x)) if x >= 0 else str(int(x)) + '.', '%de0' % int(x)]
        forms += ['%.3f' % x, '%.17g' % x, '%e' % x, ' ' + repr(float(x)) + ' ']
        out.append(stok(rng.choice(forms)))
    return out


def rand_float(rng):
    r = rng.random()
    if r < 0.20:
        return rng.uniform(-1e5, 1e5)
    if r < 0.35:
        return rng.uniform(-720, 720)
    if r < 0.45:                                   # the everyday case: already inside the canonical range
        return rng.uniform(-90, 90)
    if r < 0.60:                                   # dyadic grid
        return rng.randrange(-8 * 1000, 8 * 1000) / 8
    if r < 0.70:                                   # decimals
        return round(rng.uniform(-1000, 1000), rng.choice([1, 2, 6]))
    if r < 0.80:                                   # log-uniform magnitudes down to subnormals
        return rng.choice([-1, 1]) * 10 ** rng.uniform(-320, 5)
    if r < 0.90:                                   # near a multiple of 90
        k = rng.randrange(-1111, 1112) * 90
        return rng.choice(ulp_neighbours(k) + [k + rng.uniform(-1e-9, 1e-9)])
    return float(rng.randrange(-100000, 100001))


def tag_norm(ln, a):
    p = ln.split()
    tags = ['type:' + p[2][0] + p[3][0]]
    try:
        lon, lat = tok_exact(p[2]), tok_exact(p[3])
    except ValueError:
        return tags + ['malformed']
    flips = 0 if abs(lat) <= 90 else int((abs(lat) + 90) // 180)
    tags.append('pole-flips:' + (str(flips) if flips < 3 else '3+'))
    tags.append('lon:' + ('in' if -180 <= lon < 180 else '180' if lon == 180 else 'out'))
    if lat % 90 == 0:
        tags.append('lat-mult-90')
    if lon % 180 == 0:
        tags.append('lon-mult-180')
    if is_exception_class(lon, lat):
        tags.append('poleflip-nondyadic')
    return tags


def check(run):
    run.prove(MODULE, THEOREMS)
    run.source_tie(['SrcCoord'], 'GeoVerif.Props.C08Src', ['GV.C08Src.' + t for t in ('loop2_eq', 'loop1_eq', 'init_eq', 'src_norm_range', 'src_norm_idem')])
    rng = run.rng

    # ---- normalisation: exhaustive special values ---------------------------------------------------
    edge = [0.0, -0.0, 5e-324, -5e-324, 1e-20, 0.1, -0.1]
    for base in (90, 180, 270, 360, 450, 540, 720):
        for sgn in (1, -1):
            edge += ulp_neighbours(sgn * base)
    kmax = run.scale(14, 1111)
    mult90 = [float(90 * k) for k in range(-kmax, kmax + 1)]
    if run.quick:
        mult90 += [float(90 * rng.randrange(-1111, 1112)) for _ in range(40)] + [99990.0, -99990.0, 1e5, -1e5]
    lon_special = [0.0, -0.0, 10.0, -10.0, 179.99999999999997, 180.0, -180.0, 180.00000000000003, 190.0, -190.0,
                   360.0, -360.0, 540.0, -540.0, 0.1, -0.1, 1e-20, 5e-324, 123.456, -99999.5, 1e5]
    exact, tolerant = [], []

    def add_norm(lo_t, la_t, op='norm', b='b'):
        ln = f'co.{op} {b} {lo_t} {la_t}'
        try:
            ex = is_exception_class(tok_exact(lo_t), tok_exact(la_t))
        except ValueError:
            ex = False
        (tolerant if ex and b == 'b' else exact).append(ln)

    # every edge value on either axis against every edge value (floats), plus int/str renderings
    for lo in edge + lon_special:
        for la in edge:
            add_norm(ftok(lo), ftok(la))
    for la in mult90:
        for lo in (lon_special if abs(la) <= 1080 else rng.sample(lon_special, 3)):
            toks_la = as_tokens(rng, la)
            toks_lo = as_tokens(rng, lo)
            add_norm(rng.choice(toks_lo), rng.choice(toks_la))
            add_norm(ftok(lo), ftok(la))
    for lo in [float(180 * k) for k in range(-8, 9)]:
        for la in [float(90 * k) for k in range(-8, 9)]:
            for tl in as_tokens(rng, lo):
                for ta in as_tokens(rng, la):
                    add_norm(tl, ta)
                    add_norm(tl, ta, op='norm2')
            add_norm(ftok(lo), ftok(la), b='u')

    # ---- normalisation: seeded random ------------------------------------------------------------------
    for _ in range(run.scale(2500, 120000)):
        lo, la = rand_float(rng), rand_float(rng)
        kinds = rng.choice(['f', 'f', 's', 'i', 'fis'])
        tl, ta = rng.choice(as_tokens(rng, lo, kinds) or [ftok(lo)]), rng.choice(as_tokens(rng, la, kinds) or [ftok(la)])
        add_norm(tl, ta, op=rng.choice(['norm', 'norm', 'norm2']), b=rng.choice(['b', 'b', 'b', 'u']))
    exact = list(dict.fromkeys(exact))
    tolerant = list(dict.fromkeys(tolerant))
    run.run_cases('norm-exact', exact, impl, spec, tag=tag_norm, spec_compare=norm_spec_compare,
                  nontrivial=lambda ln, a: not a.startswith('ERR'))
    run.run_cases('norm-poleflip-nondyadic', tolerant, impl, spec, tag=tag_norm, spec_compare=norm_spec_compare,
                  compare=norm_model_compare_tolerant)
    bad = [f'co.norm b {stok(t)} {itok(3)}' for t in ('abc', '', '1,5', '12..3', '1e', '--1', '0x10', '1 2')]
    bad += [f'co.norm b {itok(3)} {stok(t)}' for t in ('north', '45N', '4 5')]
    run.run_cases('norm-malformed', bad, impl, spec, tag=lambda ln, a: ['malformed:' + a])

    # ---- == / hash laws over pairs ------------------------------------------------------------------------
    lons = [itok(10), ftok(370.0), itok(-180), itok(180), ftok(0.5)] + ([ftok(-350.0), stok('10.0')] if not run.quick else [])
    lats = [itok(45), ftok(135.0), itok(0), ftok(-30.25)] + ([itok(90), stok('45')] if not run.quick else [])
    zs = ['-', itok(0), ftok(0.0), ftok(-0.0), ftok(1.5), itok(7)]
    ms = ['-', itok(0), ftok(2.5)]
    world = [(lo, la, z, m) for lo in lons for la in lats for z in zs for m in ms]
    pairs = []
    for x in world:
        for y in world:
            pairs.append('co.eqhash ' + ' '.join(x) + ' ' + ' '.join(y))
    if run.quick:
        keep = [p for p in pairs if p.split()[1:3] == p.split()[5:7]]         # same lon/lat tokens: all z/m pairs
        pairs = keep + rng.sample(pairs, 6000)
    # pole-flipped / wrapped spellings of one point, differing only in z / m
    for _ in range(run.scale(600, 20000)):
        lo, la = rng.randrange(-1440, 1440) / 4, rng.randrange(-356, 357) / 4
        k, j = rng.randrange(-3, 4), rng.randrange(-3, 4)
        lo2, la2 = lo + 360 * k, la
        if rng.random() < 0.5:
            la2, lo2 = 180 - la, lo2 + 180
        la2 += 360 * j
        z1 = rng.choice(zs)
        z2 = z1 if rng.random() < 0.6 else rng.choice(zs)
        pairs.append(f'co.eqhash {ftok(lo)} {ftok(la)} {z1} {rng.choice(ms)} {ftok(lo2)} {ftok(la2)} {z2} {rng.choice(ms)}')
    pairs = list(dict.fromkeys(pairs))

    def tag_eq(ln, a):
        p = ln.split()
        return [f'eq:{a}', 'm-' + ('same' if p[4] == p[8] else 'differs'), 'z-' + ('same' if p[3] == p[7] else 'differs')]
    run.run_cases('eq-hash-pairs', pairs, impl, spec, tag=tag_eq)
    run.run_cases('eq-other-type', ['co.eqother ' + ' '.join(x) for x in world[:40]], impl, spec, model=False)

    # ---- Z survives ------------------------------------------------------------------------------------------
    zvals = ['-', itok(0), ftok(0.0), ftok(-0.0), itok(5), ftok(1.5), ftok(-3.25), ftok(1e-300), ftok(8848.86)]
    lines = []
    for rev in 'TF':
        for z in zvals:
            for m in zvals[:6]:
                for lo, la in ((itok(10), itok(20)), (ftok(200.5), ftok(95.0)), (itok(180), ftok(-0.0))):
                    lines.append(f'co.zsurv {rev} {lo} {la} {z} {m}')
    for _ in range(run.scale(300, 5000)):
        z = rng.choice(zvals + [ftok(rand_float(rng))])
        m = rng.choice(zvals + [ftok(rand_float(rng))])
        lines.append(f'co.zsurv {rng.choice("TF")} {ftok(rng.randrange(-8000, 8000) / 8)} '
                     f'{ftok(rng.randrange(-8000, 8000) / 8)} {z} {m}')

    def tag_z(ln, a):
        p = ln.split()
        def k(t):
            return 'none' if t == '-' else ('zero' if tok_exact(t) == 0 else 'nonzero')
        return [f'z:{k(p[4])}', f'm:{k(p[5])}', 'rev:' + p[1]]
    run.run_cases('z-survives', list(dict.fromkeys(lines)), impl, spec, tag=tag_z)

    # ---- unit vector and its inverse (Float instance of the same definitions; tolerance) -------------------
    lines, rt = [], []
    sp = [0.0, 90.0, -90.0, 180.0, -180.0, 45.0, 89.99999999, -89.99999999, 179.99999999, 1e-9, 270.0, 360.0]
    for lo in sp:
        for la in sp:
            lines.append(f'co.xyz {ftok(lo)} {ftok(la)}')
            rt.append(f'co.xyzrt {ftok(lo)} {ftok(la)}')
    # small integers in one process, neighbours back to back: CPython hashes -1 and -2 alike (and 2**61-1 like 0), so a
    # value cache keyed by hash() hands one coordinate the other's vector (seeded change C08-n2)
    ints = [-3.0, -2.0, -1.0, 0.0, 1.0, 2.0, 3.0, 2305843009213693951.0 % 360]
    for lo in ints:
        for la in ints[:7]:
            lines.append(f'co.xyz {ftok(lo)} {ftok(la)}')
            rt.append(f'co.xyzrt {ftok(lo)} {ftok(la)}')
    for _ in range(run.scale(1500, 40000)):
        lo, la = rand_float(rng), rand_float(rng)
        if is_exception_class(Fraction(lo), Fraction(la)):
            lo = round(lo * 8) / 8
        lines.append(f'co.xyz {ftok(lo)} {ftok(la)}')
        rt.append(f'co.xyzrt {ftok(lo)} {ftok(la)}')
    run.run_cases('xyz-same-point', lines, impl, spec, compare=xyz_compare(1e-14), spec_compare=xyz_compare(1e-10),
                  tag=lambda ln, a: ['xyz'])
    run.run_cases('xyz-roundtrip', rt, impl, spec, compare=xyzrt_compare(1e-12, 1e-9),
                  spec_compare=xyzrt_compare(1e-7, 1e-9), tag=lambda ln, a: ['xyzrt'])

    # ---- coordinates that do not come from the plain constructor: _from_xyz on arbitrary vectors ------------
    def unit(v):
        n = math.sqrt(sum(t * t for t in v))
        return tuple(t / n for t in v) if n else tuple(v)

    def sph(lo, la):
        rl, ro = math.radians(la), math.radians(lo)
        return (math.cos(rl) * math.cos(ro), math.cos(rl) * math.sin(ro), math.sin(rl))
    vecs = []
    grid = [-1.0, -0.5, -0.0, 0.0, 0.5, 1.0]
    for x in grid:                                   # lattice directions incl. axes, signed zeros, the zero vector
        for y in grid:
            for z in grid:
                vecs.append(unit((x, y, z)))
    for y in (5e-324, -5e-324, 1e-300, -1e-300, 1e-17, -1e-17, 1e-16, -1e-16, 2.5e-16, -2.5e-16, 1e-15, -1e-15, 1e-9, -1e-9):
        for z in (0.0, -0.0, 0.5, 1e-8, -0.25):     # a hair either side of the antimeridian half-plane
            vecs.append((-1.0, y, z))
            vecs.append(unit((-1.0, y, z)))
            vecs.append((-math.sqrt(1 - z * z), y, z))
    mids = []
    for la in (0.0, 10.0, 45.0, -60.0, 89.0, -89.999, 1e-9):
        for d in (1.0, 0.5, 1e-3, 1e-9, 10.0, 90.0, 179.0, 0.0):
            a, b = sph(180 - d, la), sph(-(180 - d), la)            # symmetric about the antimeridian
            mids.append(unit(tuple((p + q) / 2 for p, q in zip(a, b))))
            a, b = sph(180 - d, la), sph(-(180 - d), -la / 2)
            mids.append(unit(tuple((p + q) / 2 for p, q in zip(a, b))))
            a, b = sph(d, 90 - abs(la) / 90), sph(d + 180, 90 - abs(la) / 90)   # symmetric about the pole
            mids.append(unit(tuple((p + q) / 2 for p, q in zip(a, b))))
            a, b, c = sph(180 - d, la), sph(-(180 - d), la), sph(180.0, la + 1)  # circumcentre formula, as coded
            cc = tuple(a[(i + 1) % 3] * b[(i + 2) % 3] - a[(i + 2) % 3] * b[(i + 1) % 3]
                       + b[(i + 1) % 3] * c[(i + 2) % 3] - b[(i + 2) % 3] * c[(i + 1) % 3]
                       + c[(i + 1) % 3] * a[(i + 2) % 3] - c[(i + 2) % 3] * a[(i + 1) % 3] for i in range(3))
            if any(cc):
                mids.append(unit(cc))
    vecs += mids
    for _ in range(run.scale(800, 30000)):
        r = rng.random()
        if r < 0.4:
            lo, la = rng.uniform(-180, 180), rng.uniform(-90, 90)
        elif r < 0.7:
            lo, la = rng.choice([180.0, -180.0]) + rng.choice([0.0, 1e-13, -1e-13, 1e-9, -1e-9, rng.uniform(-1, 1)]), rng.uniform(-90, 90)
        else:
            lo, la = rng.uniform(-180, 180), rng.choice([90.0, -90.0]) - rng.choice([0.0, 1e-13, 1e-9, 1e-6]) * rng.choice([1, -1])
            la = max(-90.0, min(90.0, la))
        v = sph(lo, la)
        if rng.random() < 0.3:                       # snap noise-sized components to a signed zero
            v = tuple((math.copysign(0.0, t) if abs(t) < 1e-15 else t) for t in v)
        vecs.append(v)
    flines = []
    for v in dict.fromkeys(vecs):
        if any(t != t for t in v):
            continue
        kinds = ['f'] + (['i'] if all(float(t).is_integer() and (t != 0 or math.copysign(1, t) > 0) for t in v) else [])
        kinds.append(rng.choice('nl'))           # (an int cannot carry the sign of a zero)
        for k in kinds:
            flines.append(f'co.fromxyz {k} ' + ' '.join(fbits(t) for t in v))
    for z in (1.0000000000000002, -1.0000000000000002, 2.0):     # off the sphere: asin raises
        flines.append(f'co.fromxyz f {fbits(0.0)} {fbits(0.0)} {fbits(z)}')

    def tag_vec(ln, a):
        x, y, z = (unfbits(t) for t in ln.split()[2:5])
        t = ['vec-kind:' + ln.split()[1]]
        if y == 0 and x < 0:
            t.append('antimeridian:y=' + ('-0' if math.copysign(1, y) < 0 else '+0'))
        elif abs(y) < 1e-12 and x < 0:
            t.append('antimeridian:near')
        if x == 0 and y == 0:
            t.append('axis:pole' if z else 'zero-vector')
        if a.endswith('-180 0') or a.startswith('-180 '):
            t.append('lon=-180')
        return t
    run.run_cases('fromxyz-vectors', flines, impl, spec, compare=xyzrt_compare(1e-12, 1e-9),
                  spec_compare=fromxyz_spec_compare, tag=tag_vec)

    # ---- coordinates returned by public functions, inputs on / straddling the antimeridian and the poles ----
    out = []
    centres = [(180.0, 0.0), (-180.0, 45.0), (179.5, -60.0), (-179.75, 10.0), (179.999999, 0.5), (180.0, 89.0),
               (0.0, 89.5), (90.0, -89.5), (0.0, 0.0), (-179.0, 84.0)]
    kinds = ['poly', 'polyhole', 'tri', 'cap', 'box', 'circle', 'ellipse', 'ring', 'wedge', 'line2', 'line3', 'point',
             'mpoint', 'mline', 'mpoly', 'coll']
    for (lo, la) in centres:
        for k in kinds:
            for d in ((1.0, 0.25) if run.quick else (1.0, 0.25, 0.001, 3.0)):
                if abs(la) + 2 * d >= 90 and k != 'cap':
                    d = (90 - abs(la)) / 4
                out.append(f'np.out {k} {rat(lo)} {rat(la)} {rat(d)}')
    for _ in range(run.scale(60, 3000)):
        lo = rng.choice([180.0, -180.0, 179.0, -179.0]) + rng.choice([0, rng.uniform(-1, 1)])
        la = rng.uniform(-80, 80)
        out.append(f'np.out {rng.choice(kinds)} {rat(lo)} {rat(la)} {rat(rng.choice([1.0, 0.5, 0.125]))}')
    for (lo, la) in centres + [(179.9, 0.0), (-179.9, 30.0), (10.0, 89.9), (10.0, -89.9)]:
        for brg in (0.0, 90.0, 270.0, 180.0, 45.0, 359.999):
            for dist in (1.0, 11132.0, 111320.0, 2.5e6, 2.0015e7):
                out.append(f'np.out dest {rat(lo)} {rat(la)} {rat(brg)} {rat(dist)}')
        for deg in (0.0, 90.0, 180.0, -45.0, 360.0):
            out.append(f'np.out rot {rat(lo)} {rat(la)} {rat(lo + 0.25)} {rat(la / 2)} {rat(deg)}')
    for lo in (180.0, -180.0, 179.999999, -179.999999, 540.0, 0.0, -0.0, 179.99999999999997, 190.0):
        for la in (0.0, 45.5, -89.0, 90.0, -90.0, 95.0, 1e-7):
            out.append(f'np.out parse {rat(lo)} {rat(la)}')
    out = list(dict.fromkeys(out))

    def out_ok(a, s):
        p = a.split()
        return len(p) == 2 and p[0] == 'ok' and int(p[1]) > 0
    run.run_cases('np-output-coordinates', out, impl, spec, model=False, spec_compare=out_ok,
                  tag=lambda ln, a: ['out:' + ln.split()[1] + (':ok' if a.startswith('ok') else ':FAIL')])

    return run.finish(
        rule='Coordinate(lon, lat) for every pair of special values (+-0.0, subnormals, one ulp either side of '
             '+-90..+-720, multiples of 90/180/360 up to +-1e5) and seeded random finite floats in +-1e5, as '
             'float/int/str; stored lon/lat compared bit-exactly (as exact rationals) with the Lean model and with '
             'an independent closed-form canonical representative; one ulp of 180 tolerated only on the longitude '
             'of pole-crossing inputs whose longitude is off the 2^-45 grid (separate stream). ==/hash over all '
             'ordered pairs of a small world of coordinates differing in spelling, z and m; to_float/to_str field '
             'lists for every z/m incl. 0.0; xyz and _from_xyz against the Float instance of the model and against '
             'direct trigonometry of the raw input. Coordinates that do not come from the plain constructor: '
             '_from_xyz on lattice / axis / signed-zero / antimeridian-half-plane / pole vectors, midpoints and '
             'circumcentres of points symmetric about the antimeridian and the poles (float, int, numpy float64 and '
             'longdouble components) against the Float model, and every Coordinate reachable from the results of public '
             'functions (centroids, bounding coords/edges, circumscribing circles/rectangles, hulls, polygon forms, copies, '
             'WKT/GeoJSON/shapely/DMS/QDMS/MGRS/projection readers, destination and rotation results) for 16 shape kinds '
             'on / straddling the antimeridian and the poles, each tested for stored range, being a constructor fixed '
             'point, ==/hash agreement with the constructor-built equal and a non-stale cached unit vector (np- stream). '
             'A case is one protocol line; non-trivial = constructor did not raise; distinct by line.',
        assumptions=['for |x| <= 1e5 the float reflections / +-360 wraps are exact, so the float program is the '
                     'rational program (checked bit-exactly by the norm-exact stream; the pole flip lon+-180 of a '
                     'longitude off the 2^-45 grid rounds once: <= 1 ulp of 180)',
                     'NaN / +-inf are excluded (the constructor loops do not terminate on them)',
                     'CPython float(str) / float(int) / hash / == on floats are runtime, not modelled',
                     'xyz, _from_xyz: theorems are over the reals; libm error is measured (tolerance), not proved'],
        checker_cmd='cd lean && lake build GeoVerif.Props.C08 && lake env lean .lake/audit/C08.lean  (#print axioms)')
