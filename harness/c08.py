"""C08 — coordinates are stored in canonical form denoting the same point; ==/hash agree; Z survives;
unit-vector round trip."""
import math
from fractions import Fraction

import common
from common import rat, fbits, unfbits, tf

MODULE = 'GeoVerif.Props.C08'
THEOREMS = ['GV.C08.' + t for t in (
    'norm_range', 'latLoop_fuel_irrelevant', 'lonLoop_fuel_irrelevant', 'norm_id_in_range', 'norm_idem',
    'new_idem', 'latStep_same_point', 'lonStep_same_point', 'norm_same_point',
    'eq_iff', 'eq_imp_hash', 'hash_iff_eq', 'eq_ignores_m', 'hash_ignores_m', 'eq_refl', 'eq_symm', 'eq_trans',
    'eq_sees_z', 'z_survives', 'z_exported', 'no_z_no_field', 'export_lonlat',
    'fromXyz_xyz', 'fromXyz_xyz_antimeridian', 'fromXyz_pole', 'fromXyz_xyz_stored')]

ULP180 = Fraction(1, 2 ** 45)          # one ulp of 180.0


# ---- protocol tokens -------------------------------------------------------------------------------

def ftok(x):
    return 'f:' + fbits(x)


def itok(n):
    return f'i:{int(n)}'


def stok(text):
    """a numeric (or not) Python str; blanks are written `~`"""
    enc = text.replace(' ', '~')
    try:
        v = float(text)
    except ValueError:
        return f's:{enc}@bad'
    if v != v or v in (math.inf, -math.inf):
        raise AssertionError('non-finite input is outside the property')
    return f's:{enc}@{fbits(v)}'


def tok_value(t):
    """token -> the Python object handed to Coordinate(...)"""
    if t == '-':
        return None
    k, _, body = t.partition(':')
    if k == 'f':
        return unfbits(body)
    if k == 'i':
        return int(body)
    if k == 's':
        return body.rsplit('@', 1)[0].replace('~', ' ')
    raise ValueError('bad token ' + t)


def tok_exact(t):
    """token -> exact Fraction the constructor's float() denotes (None for `-`, ValueError for @bad)"""
    if t == '-':
        return None
    k, _, body = t.partition(':')
    if k == 'f':
        return Fraction(unfbits(body))
    if k == 'i':
        return Fraction(float(int(body)))
    h = body.rsplit('@', 1)[1]
    if h == 'bad':
        raise ValueError('not numeric')
    return Fraction(unfbits(h))


def orat(v):
    return '-' if v is None else rat(v)


# ---- implementation side ---------------------------------------------------------------------------

def _coord(a, bounded=True):
    from geostructures.coordinates import Coordinate
    lon, lat = tok_value(a[0]), tok_value(a[1])
    z = tok_value(a[2]) if len(a) > 2 else None
    m = tok_value(a[3]) if len(a) > 3 else None
    return Coordinate(lon, lat, z, m, _bounded=bounded)


_TIMEOUTS = {'n': 0}


def impl(line):
    """after three watchdog time-outs (a constructor loop that no longer terminates) every further call gets
    50 ms instead of the framework's 2-10 s, so a broken loop is reported in seconds, not hours"""
    if _TIMEOUTS['n'] >= 3:
        with common.watchdog(0.05):
            return _impl(line)
    try:
        return _impl(line)
    except common.ImplTimeout:
        _TIMEOUTS['n'] += 1
        raise


def _impl(line):
    from geostructures.coordinates import Coordinate
    cmd, *a = line.split()
    op = cmd.split('.', 1)[1]
    if op in ('norm', 'norm2'):
        b = a[0] == 'b'
        c = _coord(a[1:3], b)
        if op == 'norm2':
            c = Coordinate(c.longitude, c.latitude, _bounded=b)
        # NB the 180 -> -180 rewrite stores the int -180 (numerically and hash-equal to -180.0): not claimed
        return f'{rat(c.longitude)} {rat(c.latitude)}'
    if op == 'eqhash':
        x, y = _coord(a[0:4]), _coord(a[4:8])
        if not (x == y):
            return 'F -' if (x != y) else 'F!ne'
        return 'T ' + tf(hash(x) == hash(y) and len({x, y}) == 1 and not (x != y))
    if op == 'eqother':
        x = _coord(a[0:4])
        return tf(any(x == o for o in (None, 0, (x.longitude, x.latitude), 'c', [x.longitude, x.latitude])))
    if op == 'zsurv':
        c = _coord(a[1:5])
        rev = a[0] == 'T'
        f, s = c.to_float(rev), c.to_str(rev)
        if not (isinstance(f, tuple) and isinstance(s, tuple) and all(isinstance(x, str) for x in s)):
            return 'TYPE!'
        return (f'z={orat(c.z)} m={orat(c.m)} F {" ".join(rat(x) for x in f)} '
                f'S {" ".join(rat(float(x)) for x in s)}')
    if op == 'xyz':
        c = _coord(a[0:2])
        return ' '.join(fbits(v) for v in c.xyz)
    if op == 'xyzrt':
        c = _coord(a[0:2])
        c2 = Coordinate._from_xyz(c.xyz)
        return f'{rat(c2.longitude)} {rat(c2.latitude)}'
    raise ValueError('unknown op ' + op)


# ---- the property, stated independently of the model (closed form, exact fractions) --------------------

def canon(lon, lat):
    """the canonical representative of the point (lon, lat) on the sphere: latitude by the triangle wave of
    period 360, longitude shifted half a turn on the descending branches and reduced into [-180, 180)"""
    t = (lat + 90) % 360
    if t <= 180:
        la, shift = t - 90, 0
    else:
        la, shift = 270 - t, 180
    lo = (lon + shift + 180) % 360 - 180
    return lo, la


def is_exception_class(lon, lat):
    """pole-crossing input whose longitude is off the 2^-45 grid: the float `lon ± 180` rounds (DESIGN §3)"""
    return abs(lat) > 90 and (lon * 2 ** 45).denominator != 1


def circ(d):
    d = abs(d) % 360
    return min(d, 360 - d)


def spec(line):
    cmd, *a = line.split()
    op = cmd.split('.', 1)[1]
    try:
        if op in ('norm', 'norm2'):
            if a[0] != 'b':
                return None                     # `_bounded=False` is internal; correspondence only
            lon, lat = tok_exact(a[1]), tok_exact(a[2])
            lo, la = canon(lon, lat)
            return f'{rat(lo)} {rat(la)}' + (' ~' if is_exception_class(lon, lat) else '')
        if op == 'eqhash':
            x = canon(tok_exact(a[0]), tok_exact(a[1])) + (tok_exact(a[2]),)
            y = canon(tok_exact(a[4]), tok_exact(a[5])) + (tok_exact(a[6]),)
            if abs(x[1]) == 90 or abs(y[1]) == 90:
                return None                     # at a pole the stored longitude is not determined by the point
            return 'T T' if x == y else 'F -'
        if op == 'eqother':
            return 'F'
        if op == 'zsurv':
            lo, la = canon(tok_exact(a[1]), tok_exact(a[2]))
            if abs(la) == 90:
                return None
            z, m = tok_exact(a[3]), tok_exact(a[4])
            out = [la, lo] if a[0] == 'T' else [lo, la]
            out += [v for v in (z, m) if v is not None]
            s = ' '.join(rat(v) for v in out)
            return f'z={orat(z)} m={orat(m)} F {s} S {s}'
        if op == 'xyz':
            lon, lat = float(tok_exact(a[0])), float(tok_exact(a[1]))
            rl, ro = math.radians(lat), math.radians(lon)
            return ' '.join(fbits(v) for v in (math.cos(rl) * math.cos(ro), math.cos(rl) * math.sin(ro), math.sin(rl)))
        if op == 'xyzrt':
            lo, la = canon(tok_exact(a[0]), tok_exact(a[1]))
            return f'{rat(lo)} {rat(la)}'
    except ValueError:
        return 'ERR:Value'
    return None


def _pair(s):
    p = s.split()
    return Fraction(p[0]), Fraction(p[1])


def norm_spec_compare(a, s):
    """impl answer vs closed form: latitude exact; longitude exact unless at a pole (any longitude in range
    denotes the pole) or in the documented rounding class (`~`: one ulp of 180, circularly)"""
    if a == s:
        return True
    if a.startswith('ERR') or s.startswith('ERR') or a in ('TIMEOUT', 'TYPE!'):
        return False
    lo, la = _pair(a)
    slo, sla = _pair(s)
    if la != sla or not (-180 <= lo < 180):
        return False
    if abs(sla) == 90:
        return True
    if s.endswith('~'):
        return circ(lo - slo) <= ULP180
    return lo == slo


def norm_model_compare_tolerant(a, m):
    if a == m:
        return True
    if a.startswith('ERR') or m.startswith('ERR') or a in ('TIMEOUT', 'TYPE!'):
        return False
    lo, la = _pair(a)
    mlo, mla = _pair(m)
    return la == mla and circ(lo - mlo) <= ULP180


def _vec(s):
    return [unfbits(t) for t in s.split()]


def xyz_compare(tol):
    def cmp(a, b):
        if a == b:
            return True
        if not (a.startswith('x') and b.startswith('x')):
            return False
        return all(abs(p - q) <= tol for p, q in zip(_vec(a), _vec(b)))
    return cmp


def _xyz_of(lo, la):
    rl, ro = math.radians(float(la)), math.radians(float(lo))
    return (math.cos(rl) * math.cos(ro), math.cos(rl) * math.sin(ro), math.sin(rl))


def xyzrt_compare(chord_tol, deg_tol):
    def cmp(a, b):
        if a == b:
            return True
        if a.startswith('ERR') or b.startswith('ERR') or a in ('TIMEOUT', 'TYPE!'):
            return False
        (lo, la), (blo, bla) = _pair(a), _pair(b)
        if not (-180 <= lo < 180 and -90 <= la <= 90):
            return False
        if math.dist(_xyz_of(lo, la), _xyz_of(blo, bla)) > chord_tol:
            return False
        if abs(bla) <= 89:
            return abs(la - bla) <= deg_tol and circ(lo - blo) <= deg_tol
        return True
    return cmp


def impl_for(_line):
    return impl


def spec_for(_line):
    return spec


# ---- generators -------------------------------------------------------------------------------------

def ulp_neighbours(x):
    return [math.nextafter(x, -math.inf), float(x), math.nextafter(x, math.inf)]


def as_tokens(rng, x, kinds='fis'):
    """the same number as float / int (when integral) / str token(s)"""
    out = []
    if 'f' in kinds:
        out.append(ftok(x))
    if 'i' in kinds and float(x).is_integer() and abs(x) < 2 ** 53:
        out.append(itok(int(x)))
    if 's' in kinds:
        forms = [repr(float(x))]
        if float(x).is_integer() and abs(x) < 1e15:
            forms += [str(int(x)), '+' + str(int(x)) if x >= 0 else str(int(x)) + '.', '%de0' % int(x)]
        forms += ['%.3f' % x, '%.17g' % x, '%e' % x, ' ' + repr(float(x)) + ' ']
        out.append(stok(rng.choice(forms)))
    return out


def rand_float(rng):
    r = rng.random()
    if r < 0.20:
        return rng.uniform(-1e5, 1e5)
    if r < 0.35:
        return rng.uniform(-720, 720)
    if r < 0.45:                                   # the everyday case: already inside the canonical range
        return rng.uniform(-90, 90)
    if r < 0.60:                                   # dyadic grid
        return rng.randrange(-8 * 1000, 8 * 1000) / 8
    if r < 0.70:                                   # decimals
        return round(rng.uniform(-1000, 1000), rng.choice([1, 2, 6]))
    if r < 0.80:                                   # log-uniform magnitudes down to subnormals
        return rng.choice([-1, 1]) * 10 ** rng.uniform(-320, 5)
    if r < 0.90:                                   # near a multiple of 90
        k = rng.randrange(-1111, 1112) * 90
        return rng.choice(ulp_neighbours(k) + [k + rng.uniform(-1e-9, 1e-9)])
    return float(rng.randrange(-100000, 100001))


def tag_norm(ln, a):
    p = ln.split()
    tags = ['type:' + p[2][0] + p[3][0]]
    try:
        lon, lat = tok_exact(p[2]), tok_exact(p[3])
    except ValueError:
        return tags + ['malformed']
    flips = 0 if abs(lat) <= 90 else int((abs(lat) + 90) // 180)
    tags.append('pole-flips:' + (str(flips) if flips < 3 else '3+'))
    tags.append('lon:' + ('in' if -180 <= lon < 180 else '180' if lon == 180 else 'out'))
    if lat % 90 == 0:
        tags.append('lat-mult-90')
    if lon % 180 == 0:
        tags.append('lon-mult-180')
    if is_exception_class(lon, lat):
        tags.append('poleflip-nondyadic')
    return tags


def check(run):
    run.prove(MODULE, THEOREMS)
    rng = run.rng

    # ---- normalisation: exhaustive special values ---------------------------------------------------
    edge = [0.0, -0.0, 5e-324, -5e-324, 1e-20, 0.1, -0.1]
    for base in (90, 180, 270, 360, 450, 540, 720):
        for sgn in (1, -1):
            edge += ulp_neighbours(sgn * base)
    kmax = run.scale(14, 1111)
    mult90 = [float(90 * k) for k in range(-kmax, kmax + 1)]
    if run.quick:
        mult90 += [float(90 * rng.randrange(-1111, 1112)) for _ in range(40)] + [99990.0, -99990.0, 1e5, -1e5]
    lon_special = [0.0, -0.0, 10.0, -10.0, 179.99999999999997, 180.0, -180.0, 180.00000000000003, 190.0, -190.0,
                   360.0, -360.0, 540.0, -540.0, 0.1, -0.1, 1e-20, 5e-324, 123.456, -99999.5, 1e5]
    exact, tolerant = [], []

    def add_norm(lo_t, la_t, op='norm', b='b'):
        ln = f'co.{op} {b} {lo_t} {la_t}'
        try:
            ex = is_exception_class(tok_exact(lo_t), tok_exact(la_t))
        except ValueError:
            ex = False
        (tolerant if ex and b == 'b' else exact).append(ln)

    # every edge value on either axis against every edge value (floats), plus int/str renderings
    for lo in edge + lon_special:
        for la in edge:
            add_norm(ftok(lo), ftok(la))
    for la in mult90:
        for lo in (lon_special if abs(la) <= 1080 else rng.sample(lon_special, 3)):
            toks_la = as_tokens(rng, la)
            toks_lo = as_tokens(rng, lo)
            add_norm(rng.choice(toks_lo), rng.choice(toks_la))
            add_norm(ftok(lo), ftok(la))
    for lo in [float(180 * k) for k in range(-8, 9)]:
        for la in [float(90 * k) for k in range(-8, 9)]:
            for tl in as_tokens(rng, lo):
                for ta in as_tokens(rng, la):
                    add_norm(tl, ta)
                    add_norm(tl, ta, op='norm2')
            add_norm(ftok(lo), ftok(la), b='u')

    # ---- normalisation: seeded random ------------------------------------------------------------------
    for _ in range(run.scale(2500, 120000)):
        lo, la = rand_float(rng), rand_float(rng)
        kinds = rng.choice(['f', 'f', 's', 'i', 'fis'])
        tl, ta = rng.choice(as_tokens(rng, lo, kinds) or [ftok(lo)]), rng.choice(as_tokens(rng, la, kinds) or [ftok(la)])
        add_norm(tl, ta, op=rng.choice(['norm', 'norm', 'norm2']), b=rng.choice(['b', 'b', 'b', 'u']))
    exact = list(dict.fromkeys(exact))
    tolerant = list(dict.fromkeys(tolerant))
    run.run_cases('norm-exact', exact, impl, spec, tag=tag_norm, spec_compare=norm_spec_compare,
                  nontrivial=lambda ln, a: not a.startswith('ERR'))
    run.run_cases('norm-poleflip-nondyadic', tolerant, impl, spec, tag=tag_norm, spec_compare=norm_spec_compare,
                  compare=norm_model_compare_tolerant)
    bad = [f'co.norm b {stok(t)} {itok(3)}' for t in ('abc', '', '1,5', '12..3', '1e', '--1', '0x10', '1 2')]
    bad += [f'co.norm b {itok(3)} {stok(t)}' for t in ('north', '45N', '4 5')]
    run.run_cases('norm-malformed', bad, impl, spec, tag=lambda ln, a: ['malformed:' + a])

    # ---- == / hash laws over pairs ------------------------------------------------------------------------
    lons = [itok(10), ftok(370.0), itok(-180), itok(180), ftok(0.5)] + ([ftok(-350.0), stok('10.0')] if not run.quick else [])
    lats = [itok(45), ftok(135.0), itok(0), ftok(-30.25)] + ([itok(90), stok('45')] if not run.quick else [])
    zs = ['-', itok(0), ftok(0.0), ftok(-0.0), ftok(1.5), itok(7)]
    ms = ['-', itok(0), ftok(2.5)]
    world = [(lo, la, z, m) for lo in lons for la in lats for z in zs for m in ms]
    pairs = []
    for x in world:
        for y in world:
            pairs.append('co.eqhash ' + ' '.join(x) + ' ' + ' '.join(y))
    if run.quick:
        keep = [p for p in pairs if p.split()[1:3] == p.split()[5:7]]         # same lon/lat tokens: all z/m pairs
        pairs = keep + rng.sample(pairs, 6000)
    # pole-flipped / wrapped spellings of one point, differing only in z / m
    for _ in range(run.scale(600, 20000)):
        lo, la = rng.randrange(-1440, 1440) / 4, rng.randrange(-356, 357) / 4
        k, j = rng.randrange(-3, 4), rng.randrange(-3, 4)
        lo2, la2 = lo + 360 * k, la
        if rng.random() < 0.5:
            la2, lo2 = 180 - la, lo2 + 180
        la2 += 360 * j
        z1 = rng.choice(zs)
        z2 = z1 if rng.random() < 0.6 else rng.choice(zs)
        pairs.append(f'co.eqhash {ftok(lo)} {ftok(la)} {z1} {rng.choice(ms)} {ftok(lo2)} {ftok(la2)} {z2} {rng.choice(ms)}')
    pairs = list(dict.fromkeys(pairs))

    def tag_eq(ln, a):
        p = ln.split()
        return [f'eq:{a}', 'm-' + ('same' if p[4] == p[8] else 'differs'), 'z-' + ('same' if p[3] == p[7] else 'differs')]
    run.run_cases('eq-hash-pairs', pairs, impl, spec, tag=tag_eq)
    run.run_cases('eq-other-type', ['co.eqother ' + ' '.join(x) for x in world[:40]], impl, spec, model=False)

    # ---- Z survives ------------------------------------------------------------------------------------------
    zvals = ['-', itok(0), ftok(0.0), ftok(-0.0), itok(5), ftok(1.5), ftok(-3.25), ftok(1e-300), ftok(8848.86)]
    lines = []
    for rev in 'TF':
        for z in zvals:
            for m in zvals[:6]:
                for lo, la in ((itok(10), itok(20)), (ftok(200.5), ftok(95.0)), (itok(180), ftok(-0.0))):
                    lines.append(f'co.zsurv {rev} {lo} {la} {z} {m}')
    for _ in range(run.scale(300, 5000)):
        z = rng.choice(zvals + [ftok(rand_float(rng))])
        m = rng.choice(zvals + [ftok(rand_float(rng))])
        lines.append(f'co.zsurv {rng.choice("TF")} {ftok(rng.randrange(-8000, 8000) / 8)} '
                     f'{ftok(rng.randrange(-8000, 8000) / 8)} {z} {m}')

    def tag_z(ln, a):
        p = ln.split()
        def k(t):
            return 'none' if t == '-' else ('zero' if tok_exact(t) == 0 else 'nonzero')
        return [f'z:{k(p[4])}', f'm:{k(p[5])}', 'rev:' + p[1]]
    run.run_cases('z-survives', list(dict.fromkeys(lines)), impl, spec, tag=tag_z)

    # ---- unit vector and its inverse (Float instance of the same definitions; tolerance) -------------------
    lines, rt = [], []
    sp = [0.0, 90.0, -90.0, 180.0, -180.0, 45.0, 89.99999999, -89.99999999, 179.99999999, 1e-9, 270.0, 360.0]
    for lo in sp:
        for la in sp:
            lines.append(f'co.xyz {ftok(lo)} {ftok(la)}')
            rt.append(f'co.xyzrt {ftok(lo)} {ftok(la)}')
    # small integers in one process, neighbours back to back: CPython hashes -1 and -2 alike (and 2**61-1 like 0), so a
    # value cache keyed by hash() hands one coordinate the other's vector (seeded change C08-n2)
    ints = [-3.0, -2.0, -1.0, 0.0, 1.0, 2.0, 3.0, 2305843009213693951.0 % 360]
    for lo in ints:
        for la in ints[:7]:
            lines.append(f'co.xyz {ftok(lo)} {ftok(la)}')
            rt.append(f'co.xyzrt {ftok(lo)} {ftok(la)}')
    for _ in range(run.scale(1500, 40000)):
        lo, la = rand_float(rng), rand_float(rng)
        if is_exception_class(Fraction(lo), Fraction(la)):
            lo = round(lo * 8) / 8
        lines.append(f'co.xyz {ftok(lo)} {ftok(la)}')
        rt.append(f'co.xyzrt {ftok(lo)} {ftok(la)}')
    run.run_cases('xyz-same-point', lines, impl, spec, compare=xyz_compare(1e-14), spec_compare=xyz_compare(1e-10),
                  tag=lambda ln, a: ['xyz'])
    run.run_cases('xyz-roundtrip', rt, impl, spec, compare=xyzrt_compare(1e-12, 1e-9),
                  spec_compare=xyzrt_compare(1e-7, 1e-9), tag=lambda ln, a: ['xyzrt'])

    return run.finish(
        rule='Coordinate(lon, lat) for every pair of special values (+-0.0, subnormals, one ulp either side of '
             '+-90..+-720, multiples of 90/180/360 up to +-1e5) and seeded random finite floats in +-1e5, as '
             'float/int/str; stored lon/lat compared bit-exactly (as exact rationals) with the Lean model and with '
             'an independent closed-form canonical representative; one ulp of 180 tolerated only on the longitude '
             'of pole-crossing inputs whose longitude is off the 2^-45 grid (separate stream). ==/hash over all '
             'ordered pairs of a small world of coordinates differing in spelling, z and m; to_float/to_str field '
             'lists for every z/m incl. 0.0; xyz and _from_xyz against the Float instance of the model and against '
             'direct trigonometry of the raw input. A case is one protocol line; non-trivial = constructor did not '
             'raise; distinct by line.',
        assumptions=['for |x| <= 1e5 the float reflections / +-360 wraps are exact, so the float program is the '
                     'rational program (checked bit-exactly by the norm-exact stream; the pole flip lon+-180 of a '
                     'longitude off the 2^-45 grid rounds once: <= 1 ulp of 180)',
                     'NaN / +-inf are excluded (the constructor loops do not terminate on them)',
                     'CPython float(str) / float(int) / hash / == on floats are runtime, not modelled',
                     'xyz, _from_xyz: theorems are over the reals; libm error is measured (tolerance), not proved'],
        checker_cmd='cd lean && lake build GeoVerif.Props.C08 && lake env lean .lake/audit/C08.lean  (#print axioms)')
